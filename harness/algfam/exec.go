// Package algfam executes the cases of the transform-algebra family (C17) on
// the real polyform types (quaternion.Quaternion, mat.Matrix4x4, trs.TRS,
// modeling.Mesh, geometry.AABB) and records what they returned as integers.
// It only executes and projects; every judgement is made by TLC evaluating
// TraceAlgebra.tla / Algebra.tla on the recorded lines.
package algfam

import (
	"bufio"
	"encoding/json"
	"fmt"
	"math"
	"os"

	"github.com/EliCDavis/polyform/math/geometry"
	"github.com/EliCDavis/polyform/math/mat"
	"github.com/EliCDavis/polyform/math/quaternion"
	"github.com/EliCDavis/polyform/math/trs"
	"github.com/EliCDavis/polyform/modeling"
	"github.com/EliCDavis/vector/vector3"
)

// QA is the lattice denominator of Algebra.tla.
const QA = 1024

// clip bound of logged integers (int32 budget of the specification)
const clip = 1 << 21

type Letter struct {
	Side string `json:"side"`
	Axis int    `json:"axis"`
	Sgn  int    `json:"sgn"`
}

// scaler projects reals to units of 1/q and remembers whether all of them were
// on that lattice (1e-6 units), finite and inside the clip range.
type scaler struct {
	q  float64
	ok bool
}

func newScaler(q int) *scaler { return &scaler{q: float64(q), ok: true} }

func (s *scaler) f(x float64) int {
	if math.IsNaN(x) || math.IsInf(x, 0) {
		s.ok = false
		return 0
	}
	y := x * s.q
	r := math.Round(y)
	if math.Abs(y-r) > 1e-6 {
		s.ok = false
	}
	if r > clip {
		s.ok = false
		return clip
	}
	if r < -clip {
		s.ok = false
		return -clip
	}
	return int(r)
}

func (s *scaler) v3(v vector3.Float64) []int { return []int{s.f(v.X()), s.f(v.Y()), s.f(v.Z())} }

func (s *scaler) v3s(vs []vector3.Float64) [][]int {
	out := make([][]int, len(vs))
	for i, v := range vs {
		out[i] = s.v3(v)
	}
	return out
}

func matArr(m mat.Matrix4x4) [16]float64 {
	return [16]float64{
		m.X00, m.X01, m.X02, m.X03,
		m.X10, m.X11, m.X12, m.X13,
		m.X20, m.X21, m.X22, m.X23,
		m.X30, m.X31, m.X32, m.X33,
	}
}

func matOf(a []float64) mat.Matrix4x4 {
	return mat.Matrix4x4{
		X00: a[0], X01: a[1], X02: a[2], X03: a[3],
		X10: a[4], X11: a[5], X12: a[6], X13: a[7],
		X20: a[8], X21: a[9], X22: a[10], X23: a[11],
		X30: a[12], X31: a[13], X32: a[14], X33: a[15],
	}
}

func vi(v []int) vector3.Float64 { return vector3.New(float64(v[0]), float64(v[1]), float64(v[2])) }

// Binary magnitude (round 2): a case may declare exponents; an input is then
// mantissa * 2^exponent and an output is logged in the unit 2^exponent the
// case declares for it (multiplication by a power of two is exact, so this is
// a change of unit, not a computation).  Which unit belongs to which output
// is stated by Algebra.tla (ScaleMat1 / ScaleMat2 / ScaleRot / ScaleTRS /
// RealDeg); the generator writes the units into the case, the judge checks
// them again.  Missing exponent fields are zero: the unscaled case.
func p2(e int) float64 { return math.Ldexp(1, e) }

func sc3(v vector3.Float64, e int) vector3.Float64 {
	f := p2(e)
	return vector3.New(v.X()*f, v.Y()*f, v.Z()*f)
}

func sc3s(vs []vector3.Float64, e int) []vector3.Float64 {
	out := make([]vector3.Float64, len(vs))
	for i, v := range vs {
		out[i] = sc3(v, e)
	}
	return out
}

func intsN(v []int, n int) []int {
	if len(v) == n {
		return v
	}
	return make([]int, n)
}

func vid(v []int, den int) vector3.Float64 {
	d := float64(den)
	return vector3.New(float64(v[0])/d, float64(v[1])/d, float64(v[2])/d)
}

func vis(vs [][]int) []vector3.Float64 {
	out := make([]vector3.Float64, len(vs))
	for i, v := range vs {
		out[i] = vi(v)
	}
	return out
}

func axisVec(axis int) vector3.Float64 {
	switch axis {
	case 1:
		return vector3.New(1., 0., 0.)
	case 2:
		return vector3.New(0., 1., 0.)
	}
	return vector3.New(0., 0., 1.)
}

func letterQuat(x Letter) quaternion.Quaternion {
	return quaternion.FromTheta(float64(x.Sgn)*math.Pi/2, axisVec(x.Axis))
}

// wordQuat multiplies real quaternions letter by letter on the side the word
// says; it also returns the quaternion before the last letter.
func wordQuat(w []Letter) (q, prev quaternion.Quaternion) {
	q = quaternion.Identity()
	prev = q
	for _, x := range w {
		prev = q
		g := letterQuat(x)
		if x.Side == "L" {
			q = g.Multiply(q)
		} else {
			q = q.Multiply(g)
		}
	}
	return q, prev
}

// guard runs f; a panic of the code under test becomes an observation.
func guard(f func()) (failed bool) {
	defer func() {
		if r := recover(); r != nil {
			failed = true
		}
	}()
	f()
	return false
}

// ---------------------------------------------------------------------------

type rotCase struct {
	K    string   `json:"k"`
	Word []Letter `json:"word"`
	Vs   [][]int  `json:"vs"`
	// rotax
	Ax []int `json:"ax"`
	C2 int   `json:"c2"`
	Sg int   `json:"sg"`
	// rotq
	Axis int `json:"axis"`
	Cn   int `json:"cn"`
	Sn   int `json:"sn"`
	Hy   int `json:"hy"`
	Am   int `json:"am"`
	// binary magnitude: vectors * 2^ve, axis * 2^ae, results in units of 2^ru / q
	Ve int `json:"ve"`
	Ae int `json:"ae"`
	Ru int `json:"ru"`
}

type rotLine struct {
	K    string   `json:"k"`
	Word []Letter `json:"word"`
	Ax   []int    `json:"ax"`
	C2   int      `json:"c2"`
	Sg   int      `json:"sg"`
	Axis int      `json:"axis"`
	Cn   int      `json:"cn"`
	Sn   int      `json:"sn"`
	Hy   int      `json:"hy"`
	Am   int      `json:"am"`
	Ve   int      `json:"ve"`
	Ae   int      `json:"ae"`
	Ru   int      `json:"ru"`
	Vs   [][]int  `json:"vs"`
	Q    int      `json:"q"`
	Res  [][]int  `json:"res"`
	Seq  [][]int  `json:"seq"`
	Arr  [][]int  `json:"arr"` // the same vectors through Quaternion.RotateArray
	Ex   bool     `json:"ex"`
	Id   int      `json:"id"`
}

func execRot(c rotCase, id int) rotLine {
	ln := rotLine{K: c.K, Word: c.Word, Ax: c.Ax, C2: c.C2, Sg: c.Sg, Axis: c.Axis, Cn: c.Cn, Sn: c.Sn, Hy: c.Hy, Am: c.Am,
		Ve: c.Ve, Ae: c.Ae, Ru: c.Ru, Vs: c.Vs, Q: QA, Res: [][]int{}, Seq: [][]int{}, Arr: [][]int{}, Id: id}
	if ln.Word == nil {
		ln.Word = []Letter{}
	}
	if ln.Ax == nil {
		ln.Ax = []int{0, 0, 0}
	}
	// scale: the largest power of two with q*|v| <= 16384 (int32 budget of the length check)
	maxLen := 1.0
	for _, v := range c.Vs {
		maxLen = math.Max(maxLen, vi(v).Length())
	}
	for float64(ln.Q)*maxLen > 16384 && ln.Q > 1 {
		ln.Q /= 2
	}
	s := newScaler(ln.Q)
	vs := sc3s(vis(c.Vs), c.Ve)
	out := func(v vector3.Float64) []int { return s.v3(sc3(v, -c.Ru)) }
	failed := guard(func() {
		var used quaternion.Quaternion
		defer func() {
			in := make([]vector3.Float64, len(vs))
			copy(in, vs)
			for _, v := range used.RotateArray(in) {
				ln.Arr = append(ln.Arr, out(v))
			}
		}()
		switch c.K {
		case "rot":
			q, prev := wordQuat(c.Word)
			used = q
			for _, v := range vs {
				ln.Res = append(ln.Res, out(q.Rotate(v)))
			}
			if len(c.Word) == 0 {
				ln.Seq = ln.Res
				return
			}
			last := c.Word[len(c.Word)-1]
			g := letterQuat(last)
			for _, v := range vs {
				if last.Side == "L" { // q = g*prev rotates like prev followed by g
					ln.Seq = append(ln.Seq, out(g.Rotate(prev.Rotate(v))))
				} else { // q = prev*g rotates like g followed by prev
					ln.Seq = append(ln.Seq, out(prev.Rotate(g.Rotate(v))))
				}
			}
		case "rotax":
			theta := float64(c.Sg) * math.Acos(float64(c.C2)/2)
			q := quaternion.FromTheta(theta, sc3(vi(c.Ax), c.Ae))
			used = q
			for _, v := range vs {
				ln.Res = append(ln.Res, out(q.Rotate(v)))
			}
			ln.Seq = ln.Res
		case "rotq":
			theta := math.Atan2(float64(c.Sn), float64(c.Cn))
			q := quaternion.FromTheta(theta, sc3(axisVec(c.Axis).Scale(float64(c.Am)), c.Ae))
			used = q
			for _, v := range vs {
				ln.Res = append(ln.Res, out(q.Rotate(v)))
			}
			ln.Seq = ln.Res
		}
	})
	ln.Ex = s.ok && !failed
	return ln
}

// ---------------------------------------------------------------------------

type rotToCase struct {
	K string `json:"k"`
	A []int  `json:"a"`
	B []int  `json:"b"`
}

type rotToLine struct {
	K   string `json:"k"`
	A   []int  `json:"a"`
	B   []int  `json:"b"`
	R   []int  `json:"r"`
	Res []int  `json:"res"`
	Nan bool   `json:"nan"`
	Id  int    `json:"id"`
}

// residual projects a difference of two real results: round(d * 1e12), clipped to +-1e9.
func residual(d float64, nan *bool) int {
	if math.IsNaN(d) || math.IsInf(d, 0) {
		*nan = true
		return 0
	}
	r := math.Round(d * 1e12)
	if r > 1e9 {
		return 1e9
	}
	if r < -1e9 {
		return -1e9
	}
	return int(r)
}

func residual3(a, b vector3.Float64, nan *bool) []int {
	return []int{residual(a.X()-b.X(), nan), residual(a.Y()-b.Y(), nan), residual(a.Z()-b.Z(), nan)}
}

func execRotTo(c rotToCase, id int) rotToLine {
	ln := rotToLine{K: "rotto", A: c.A, B: c.B, R: []int{0, 0, 0}, Res: []int{0, 0, 0}, Id: id}
	failed := guard(func() {
		a := vi(c.A).Normalized()
		b := vi(c.B).Normalized()
		r := quaternion.RotationTo(a, b).Rotate(a)
		for i, x := range []float64{r.X(), r.Y(), r.Z()} {
			if math.IsNaN(x) || math.IsInf(x, 0) {
				ln.Nan = true
				continue
			}
			ln.R[i] = int(math.Max(-clip, math.Min(clip, math.Round(x*4096))))
		}
		ln.Res = residual3(r, b, &ln.Nan)
	})
	if failed {
		ln.Nan = true
	}
	return ln
}

// ---------------------------------------------------------------------------

type matCase struct {
	K  string  `json:"k"`
	A  []int   `json:"a"`
	Ad int     `json:"ad"`
	B  []int   `json:"b"`
	Bd int     `json:"bd"`
	Vs [][]int `json:"vs"`
	// binary magnitude, mat1: entry k of the matrix is a[k] * 2^ae[k] (ae[4(i-1)+j] = re[i] + ce[j], row and
	// column exponents); the determinant is logged in units of 2^du, entry k of the inverse in units of
	// 2^iu[k] / QA, probe component j is vs[.][j] * 2^ve[j], MulPosition component i in units of 2^mu[i] / QA
	Re []int `json:"re"`
	Ce []int `json:"ce"`
	Ae []int `json:"ae"`
	Du int   `json:"du"`
	Iu []int `json:"iu"`
	Ve []int `json:"ve"`
	Mu []int `json:"mu"`
	// mat2: a * 2^ea; Add with b * 2^eba, logged in units of 2^au / QA; Multiply with b * 2^ebm, in 2^pu / QA
	Ea  int `json:"ea"`
	Eba int `json:"eba"`
	Ebm int `json:"ebm"`
	Au  int `json:"au"`
	Pu  int `json:"pu"`
}

type mat2Line struct {
	K   string `json:"k"`
	A   []int  `json:"a"`
	Ad  int    `json:"ad"`
	B   []int  `json:"b"`
	Bd  int    `json:"bd"`
	Add []int  `json:"add"`
	Mul []int  `json:"mul"`
	Ex  bool   `json:"ex"`
	Ea  int    `json:"ea"`
	Eba int    `json:"eba"`
	Ebm int    `json:"ebm"`
	Au  int    `json:"au"`
	Pu  int    `json:"pu"`
	Id  int    `json:"id"`
}

// scaled entries: every entry times 2^e, logged as entry * 2^-u
func (s *scaler) m4u(m mat.Matrix4x4, u int) []int {
	a := matArr(m)
	out := make([]int, 16)
	for i, x := range a {
		out[i] = s.f(x * p2(-u))
	}
	return out
}

func matScaled(a []int, den int, e int) mat.Matrix4x4 {
	f := make([]float64, 16)
	for i := range f {
		f[i] = float64(a[i]) / float64(den) * p2(e)
	}
	return matOf(f)
}

func zeros(n int) []int { return make([]int, n) }

func execMat2(c matCase, id int) mat2Line {
	ln := mat2Line{K: "mat2", A: c.A, Ad: c.Ad, B: c.B, Bd: c.Bd, Add: zeros(16), Mul: zeros(16),
		Ea: c.Ea, Eba: c.Eba, Ebm: c.Ebm, Au: c.Au, Pu: c.Pu, Id: id}
	s := newScaler(QA)
	failed := guard(func() {
		a := matScaled(c.A, c.Ad, c.Ea)
		ln.Add = s.m4u(a.Add(matScaled(c.B, c.Bd, c.Eba)), c.Au)
		ln.Mul = s.m4u(a.Multiply(matScaled(c.B, c.Bd, c.Ebm)), c.Pu)
	})
	ln.Ex = s.ok && !failed
	return ln
}

type mat1Line struct {
	K     string  `json:"k"`
	A     []int   `json:"a"`
	Det   int     `json:"det"`
	DetEx bool    `json:"detex"`
	Inv   []int   `json:"inv"`
	InvEx bool    `json:"invex"`
	Vs    [][]int `json:"vs"`
	Mp    [][]int `json:"mp"`
	MpEx  bool    `json:"mpex"`
	Re    []int   `json:"re"`
	Ce    []int   `json:"ce"`
	Ae    []int   `json:"ae"`
	Du    int     `json:"du"`
	Iu    []int   `json:"iu"`
	Ve    []int   `json:"ve"`
	Mu    []int   `json:"mu"`
	Id    int     `json:"id"`
}

func execMat1(c matCase, id int) mat1Line {
	ln := mat1Line{K: "mat1", A: c.A, Inv: zeros(16), Vs: c.Vs, Mp: [][]int{},
		Re: intsN(c.Re, 4), Ce: intsN(c.Ce, 4), Ae: intsN(c.Ae, 16), Du: c.Du, Iu: intsN(c.Iu, 16), Ve: intsN(c.Ve, 3), Mu: intsN(c.Mu, 3), Id: id}
	f := make([]float64, 16)
	for k := range f {
		f[k] = float64(c.A[k]) * p2(ln.Ae[k])
	}
	a := matOf(f)
	sd := newScaler(1)
	f1 := guard(func() { ln.Det = sd.f(a.Determinant() * p2(-ln.Du)) })
	ln.DetEx = sd.ok && !f1
	si := newScaler(QA)
	f2 := guard(func() {
		for k, x := range matArr(a.Inverse()) {
			ln.Inv[k] = si.f(x * p2(-ln.Iu[k]))
		}
	})
	ln.InvEx = si.ok && !f2
	sm := newScaler(QA)
	f3 := guard(func() {
		for _, v := range c.Vs {
			p := vector3.New(float64(v[0])*p2(ln.Ve[0]), float64(v[1])*p2(ln.Ve[1]), float64(v[2])*p2(ln.Ve[2]))
			r := a.MulPosition(p)
			ln.Mp = append(ln.Mp, []int{sm.f(r.X() * p2(-ln.Mu[0])), sm.f(r.Y() * p2(-ln.Mu[1])), sm.f(r.Z() * p2(-ln.Mu[2]))})
		}
	})
	ln.MpEx = sm.ok && !f3
	return ln
}

// ---------------------------------------------------------------------------

type trsCase struct {
	K    string   `json:"k"`
	Ctor string   `json:"ctor"`
	Op   string   `json:"op"`
	T    []int    `json:"t"`
	Word []Letter `json:"word"`
	S    []int    `json:"s"`
	Tr   []int    `json:"tr"`
	Vs   [][]int  `json:"vs"`
	Pos  [][]int  `json:"pos"`
	// binary magnitude: translations * 2^te, scale factors * 2^se, points * 2^ve, results in units of 2^ru / QA
	Te int `json:"te"`
	Se int `json:"se"`
	Ve int `json:"ve"`
	Ru int `json:"ru"`
}

type trsLine struct {
	K    string   `json:"k"`
	Ctor string   `json:"ctor"`
	T    []int    `json:"t"`
	Word []Letter `json:"word"`
	S    []int    `json:"s"`
	Tr   []int    `json:"tr"`
	Vs   [][]int  `json:"vs"`
	Res  [][]int  `json:"res"`
	Arr  [][]int  `json:"arr"`
	Inp  [][]int  `json:"inp"`
	Ex   bool     `json:"ex"`
	Te   int      `json:"te"`
	Se   int      `json:"se"`
	Ve   int      `json:"ve"`
	Ru   int      `json:"ru"`
	Id   int      `json:"id"`
}

func buildTRS(ctor string, t vector3.Float64, w []Letter, s vector3.Float64) trs.TRS {
	q, _ := wordQuat(w)
	switch ctor {
	case "Position":
		return trs.Position(t)
	case "Scale":
		return trs.Scale(s)
	case "Rotation":
		return trs.Rotation(q)
	}
	return trs.New(t, q, s)
}

func execTRS(c trsCase, id int) trsLine {
	ln := trsLine{K: "trs", Ctor: c.Ctor, T: c.T, Word: c.Word, S: c.S, Tr: c.Tr, Vs: c.Vs,
		Res: [][]int{}, Arr: [][]int{}, Inp: [][]int{}, Te: c.Te, Se: c.Se, Ve: c.Ve, Ru: c.Ru, Id: id}
	if ln.Word == nil {
		ln.Word = []Letter{}
	}
	s := newScaler(QA)
	failed := guard(func() {
		x := buildTRS(c.Ctor, sc3(vi(c.T), c.Te), c.Word, sc3(vi(c.S), c.Se)).Translate(sc3(vi(c.Tr), c.Te))
		vs := sc3s(vis(c.Vs), c.Ve)
		for _, v := range vs {
			ln.Res = append(ln.Res, s.v3(sc3(x.Transform(v), -c.Ru)))
		}
		ln.Arr = s.v3s(sc3s(x.TransformArray(vs), -c.Ru))
		cp := make([]vector3.Float64, len(vs))
		copy(cp, vs)
		x.TransformInPlace(cp)
		ln.Inp = s.v3s(sc3s(cp, -c.Ru))
	})
	ln.Ex = s.ok && !failed
	return ln
}

type meshLine struct {
	K    string   `json:"k"`
	Op   string   `json:"op"`
	T    []int    `json:"t"`
	Word []Letter `json:"word"`
	S    []int    `json:"s"`
	Pos  [][]int  `json:"pos"`
	Res  [][]int  `json:"res"`
	Ex   bool     `json:"ex"`
	Te   int      `json:"te"`
	Se   int      `json:"se"`
	Ve   int      `json:"ve"`
	Ru   int      `json:"ru"`
	Id   int      `json:"id"`
}

func latticeMesh(pos []vector3.Float64) modeling.Mesh {
	idx := make([]int, len(pos))
	nrm := make([]vector3.Float64, len(pos))
	for i := range idx {
		idx[len(idx)-1-i] = i // non-identity indices
		nrm[i] = vector3.New(0., 1., 0.)
	}
	return modeling.NewMesh(modeling.PointTopology, idx).
		SetFloat3Attribute(modeling.PositionAttribute, pos).
		SetFloat3Attribute(modeling.NormalAttribute, nrm)
}

func meshPositions(m modeling.Mesh) []vector3.Float64 {
	it := m.Float3Attribute(modeling.PositionAttribute)
	out := make([]vector3.Float64, it.Len())
	for i := range out {
		out[i] = it.At(i)
	}
	return out
}

func execMesh(c trsCase, id int) meshLine {
	ln := meshLine{K: "mesh", Op: c.Op, T: c.T, Word: c.Word, S: c.S, Pos: c.Pos, Res: [][]int{},
		Te: c.Te, Se: c.Se, Ve: c.Ve, Ru: c.Ru, Id: id}
	if ln.Word == nil {
		ln.Word = []Letter{}
	}
	s := newScaler(QA)
	failed := guard(func() {
		m := latticeMesh(sc3s(vis(c.Pos), c.Ve))
		q, _ := wordQuat(c.Word)
		var r modeling.Mesh
		switch c.Op {
		case "Rotate":
			r = m.Rotate(q)
		case "Translate":
			r = m.Translate(sc3(vi(c.T), c.Te))
		case "Scale":
			r = m.Scale(sc3(vi(c.S), c.Se))
		default:
			r = m.ApplyTRS(trs.New(sc3(vi(c.T), c.Te), q, sc3(vi(c.S), c.Se)))
		}
		ln.Res = s.v3s(sc3s(meshPositions(r), -c.Ru))
	})
	ln.Ex = s.ok && !failed
	return ln
}

// ---------------------------------------------------------------------------

type boxStep struct {
	Op   string  `json:"op"`
	C    []int   `json:"c"`
	Size []int   `json:"size"`
	P    []int   `json:"p"`
	Pts  [][]int `json:"pts"`
}

type boxHist struct {
	K      string    `json:"k"`
	Den    int       `json:"den"`
	Steps  []boxStep `json:"steps"`
	Probes [][]int   `json:"probes"`
	Be     int       `json:"be"` // binary magnitude: every coordinate is integer / den * 2^be, logged in units of 2^be / QA
}

type boxLine struct {
	K      string  `json:"k"`
	Ctor   string  `json:"ctor"`
	Op     string  `json:"op"`
	C      []int   `json:"c"`
	Size   []int   `json:"size"`
	P      []int   `json:"p"`
	Pts    [][]int `json:"pts"`
	Den    int     `json:"den"`
	Lo     []int   `json:"lo"`
	Hi     []int   `json:"hi"`
	Ex     bool    `json:"ex"`
	Probes [][]int `json:"probes"`
	Cont   []bool  `json:"cont"`
	Cp     [][]int `json:"cp"`
	CpEx   bool    `json:"cpex"`
	Be     int     `json:"be"`
	Id     int     `json:"id"`
	I      int     `json:"i"`
}

type resetLine struct {
	K  string `json:"k"`
	Id int    `json:"id"`
}

func execBox(h boxHist, id int, emit func(any)) {
	emit(resetLine{K: "reset", Id: id})
	var box geometry.AABB
	vid := func(v []int, den int) vector3.Float64 { return sc3(vid(v, den), h.Be) }
	for i, st := range h.Steps {
		ln := boxLine{K: "boxenc", Ctor: st.Op, Op: st.Op, C: st.C, Size: st.Size, P: st.P, Pts: st.Pts, Den: h.Den,
			Lo: []int{0, 0, 0}, Hi: []int{0, 0, 0}, Probes: h.Probes, Cont: []bool{}, Cp: [][]int{}, Be: h.Be, Id: id, I: i}
		if ln.Pts == nil {
			ln.Pts = [][]int{}
		}
		if i == 0 {
			ln.K = "boxnew"
		}
		s := newScaler(QA)
		failed := guard(func() {
			switch st.Op {
			case "New":
				box = geometry.NewAABB(vid(st.C, h.Den), vid(st.Size, h.Den))
			case "Empty":
				box = geometry.NewEmptyAABB()
			case "FromPoints":
				pts := make([]vector3.Float64, len(st.Pts))
				for k, p := range st.Pts {
					pts[k] = vid(p, h.Den)
				}
				box = geometry.NewAABBFromPoints(pts...)
			case "Point":
				box.EncapsulatePoint(vid(st.P, h.Den))
			case "Bounds":
				box.EncapsulateBounds(geometry.NewAABB(vid(st.C, h.Den), vid(st.Size, h.Den)))
			default:
				panic("unknown box op " + st.Op)
			}
			ln.Lo = s.v3(sc3(box.Min(), -h.Be))
			ln.Hi = s.v3(sc3(box.Max(), -h.Be))
		})
		ln.Ex = s.ok && !failed
		sc := newScaler(QA)
		f2 := guard(func() {
			for _, p := range h.Probes {
				v := vid(p, h.Den)
				ln.Cont = append(ln.Cont, box.Contains(v))
				ln.Cp = append(ln.Cp, sc.v3(sc3(box.ClosestPoint(v), -h.Be)))
			}
		})
		ln.CpEx = sc.ok && !f2
		emit(ln)
	}
}

// ---------------------------------------------------------------------------

// RunCases executes cases read from `in` (ndjson) and writes the observed
// trace to `out` (ndjson), one line per case (box histories: one per call).
func RunCases(in, out string) error {
	fi, err := os.Open(in)
	if err != nil {
		return err
	}
	defer fi.Close()
	fo, err := os.Create(out)
	if err != nil {
		return err
	}
	defer fo.Close()
	w := bufio.NewWriterSize(fo, 1<<20)
	defer w.Flush()
	enc := json.NewEncoder(w)
	emit := func(x any) { _ = enc.Encode(x) }
	sc := bufio.NewScanner(fi)
	sc.Buffer(make([]byte, 1<<20), 1<<28)
	id := 0
	for sc.Scan() {
		if len(sc.Bytes()) == 0 {
			continue
		}
		var head struct {
			K string `json:"k"`
		}
		if err := json.Unmarshal(sc.Bytes(), &head); err != nil {
			return fmt.Errorf("case %d: %w", id, err)
		}
		var uerr error
		switch head.K {
		case "rot", "rotax", "rotq":
			var c rotCase
			uerr = json.Unmarshal(sc.Bytes(), &c)
			if uerr == nil {
				emit(execRot(c, id))
			}
		case "rotto":
			var c rotToCase
			uerr = json.Unmarshal(sc.Bytes(), &c)
			if uerr == nil {
				emit(execRotTo(c, id))
			}
		case "rotnear":
			var c rotNearCase
			uerr = json.Unmarshal(sc.Bytes(), &c)
			if uerr == nil {
				emit(execRotNear(c, id))
			}
		case "mat2":
			var c matCase
			uerr = json.Unmarshal(sc.Bytes(), &c)
			if uerr == nil {
				emit(execMat2(c, id))
			}
		case "mat1":
			var c matCase
			uerr = json.Unmarshal(sc.Bytes(), &c)
			if uerr == nil {
				emit(execMat1(c, id))
			}
		case "trs":
			var c trsCase
			uerr = json.Unmarshal(sc.Bytes(), &c)
			if uerr == nil {
				emit(execTRS(c, id))
			}
		case "mesh":
			var c trsCase
			uerr = json.Unmarshal(sc.Bytes(), &c)
			if uerr == nil {
				emit(execMesh(c, id))
			}
		case "arr":
			var c arrCase
			uerr = json.Unmarshal(sc.Bytes(), &c)
			if uerr == nil {
				emit(execArr(c, id))
			}
		case "boxhist":
			var c boxHist
			uerr = json.Unmarshal(sc.Bytes(), &c)
			if uerr == nil {
				execBox(c, id, emit)
			}
		case "real":
			var c realCase
			uerr = json.Unmarshal(sc.Bytes(), &c)
			if uerr == nil {
				execReal(c, id, emit)
			}
		default:
			return fmt.Errorf("case %d: unknown kind %q", id, head.K)
		}
		if uerr != nil {
			return fmt.Errorf("case %d (%s): %w", id, head.K, uerr)
		}
		id++
	}
	return sc.Err()
}
