package extfam

import (
	"bufio"
	"encoding/json"
	"math/rand"
	"os"
)

// GenRandom writes seeded cases at sizes TLC does not enumerate (B2): longer
// axis-parallel lattice walks (steps of 1..2 units, no immediate reversal, no
// zero step) with per-point radii, for the ring generators. Inputs only.
func GenRandom(out string, seed int64, n, maxPts int) error {
	r := rand.New(rand.NewSource(seed))
	fo, err := os.Create(out)
	if err != nil {
		return err
	}
	defer fo.Close()
	w := bufio.NewWriter(fo)
	defer w.Flush()
	gens := []string{"polygon", "circle", "shape", "closedshape", "line", "spline"}
	stencils := [][][]int{
		{{4, 0}, {0, 4}, {-4, 0}, {0, -4}},
		{{2, 2}, {-2, 2}, {-2, -2}, {2, -2}, {4, -3}},
		{{3, 0}, {-1, 2}, {-1, -2}},
	}
	ups := [][]int{{0, 1, 0}, {0, 0, 1}, {1, 0, 0}}
	for i := 0; i < n; i++ {
		np := 4 + r.Intn(maxPts-3)
		path := [][]int{{0, 0, 0}}
		last := -1
		for len(path) < np {
			ax := r.Intn(3)
			sg := 1 - 2*r.Intn(2)
			d := ax*2 + (sg+1)/2
			if last >= 0 && d/2 == last/2 && d != last {
				continue // immediate reversal
			}
			last = d
			p := append([]int{}, path[len(path)-1]...)
			p[ax] += sg * (1 + r.Intn(2))
			path = append(path, p)
		}
		c := Case{Kind: "ext", Id: i, Gen: gens[r.Intn(len(gens))], Path: path, Sides: 3 + r.Intn(10), Rad: 1 + r.Intn(3),
			Radii: []int{}, Close: r.Intn(2) == 0, Uv: r.Intn(2) == 0, Stencil: stencils[r.Intn(len(stencils))],
			N: 2 + r.Intn(12), Up: ups[r.Intn(len(ups))], H: r.Intn(3), A: []int{0, 0, 0}, B: []int{0, 0, 0}, Xfs: []Xf{}}
		if c.Gen == "line" {
			// a ribbon needs a width direction: an `up` parallel to no ring direction
			// (unit(in)+unit(out) of consecutive steps); another generator if there is none
			c.Gen = "polygon"
			for _, up := range ups {
				if upUsable(path, up) {
					c.Gen, c.Up = "line", up
					break
				}
			}
		}
		if r.Intn(2) == 0 {
			k := len(path)
			if c.Gen == "spline" {
				k = c.N
			}
			for j := 0; j < k; j++ {
				c.Radii = append(c.Radii, r.Intn(4))
			}
		}
		b, err := json.Marshal(c)
		if err != nil {
			return err
		}
		w.Write(b)
		w.WriteByte('\n')
	}
	return nil
}

func sgn(x int) int {
	if x > 0 {
		return 1
	}
	if x < 0 {
		return -1
	}
	return 0
}

func upUsable(path [][]int, up []int) bool {
	unit := func(a, b []int) [3]int { return [3]int{sgn(b[0] - a[0]), sgn(b[1] - a[1]), sgn(b[2] - a[2])} }
	for k := range path {
		var d [3]int
		if k > 0 {
			u := unit(path[k-1], path[k])
			d[0], d[1], d[2] = d[0]+u[0], d[1]+u[1], d[2]+u[2]
		}
		if k < len(path)-1 {
			u := unit(path[k], path[k+1])
			d[0], d[1], d[2] = d[0]+u[0], d[1]+u[1], d[2]+u[2]
		}
		cx := up[1]*d[2] - up[2]*d[1]
		cy := up[2]*d[0] - up[0]*d[2]
		cz := up[0]*d[1] - up[1]*d[0]
		if cx == 0 && cy == 0 && cz == 0 {
			return false
		}
	}
	return true
}
