// Package extfam executes the extrusion / repeat generators of polyform
// (modeling/extrude, modeling/repeat) on TLC-generated or seeded cases and
// projects what they returned to integers (X06). It contains no property
// logic: no expected values, no tolerances, no comparisons.
//
// Units. Path points are integer world units. Radii, widths, heights, stencil
// coordinates and screw distances are integers in QUARTER world units.
// Positions are logged as round(world * 256) (so a quarter unit is 64),
// rotations as the images of the three basis vectors * 1024, scales * 256.
package extfam

import (
	"bufio"
	"encoding/json"
	"fmt"
	"math"
	"os"
	"sync"
	"time"

	"github.com/EliCDavis/polyform/math/curves"
	"github.com/EliCDavis/polyform/math/quaternion"
	"github.com/EliCDavis/polyform/math/trs"
	"github.com/EliCDavis/polyform/modeling"
	"github.com/EliCDavis/polyform/modeling/extrude"
	"github.com/EliCDavis/polyform/modeling/repeat"
	"github.com/EliCDavis/polyform/nodes"
	"github.com/EliCDavis/vector/vector2"
	"github.com/EliCDavis/vector/vector3"
)

const PosScale = 256
const RotScale = 1024

// Xf is one transform of a repeat.Mesh case: translation T (world units),
// rotation of Q quarter turns about axis A (0 x, 1 y, 2 z), scale S (quarter units).
type Xf struct {
	T []int `json:"t"`
	A int   `json:"a"`
	Q int   `json:"q"`
	S []int `json:"s"`
}

type Case struct {
	Kind string `json:"kind"` // ext | rep
	Id   int    `json:"id"`
	Gen  string `json:"gen"`

	// ext
	Path    [][]int `json:"path"`    // world units (screw: the profile line, quarter units)
	Sides   int     `json:"sides"`   // polygon sides / circle resolution / screw segments
	Rad     int     `json:"rad"`     // quarter units: radius / thickness / line width
	Radii   []int   `json:"radii"`   // quarter units
	Close   bool    `json:"close"`   // Circle.ClosePath / CircleAlongSpline.ClosePath
	Uv      bool    `json:"uv"`      // polygon: extrusion points carry UVs
	Stencil [][]int `json:"stencil"` // shape: 2D cross-section, quarter units
	N       int     `json:"n"`       // spline: SplineResolution ; repeat: inbetween / times / samples
	Up      []int   `json:"up"`      // line: up vector (integer)
	H       int     `json:"h"`       // line: height, quarter units ; screw: distance, quarter units
	Rev     int     `json:"rev"`     // screw: revolutions in quarter turns

	// rep
	A    []int `json:"a"`    // line start (world units)
	B    []int `json:"b"`    // line end
	Xfs  []Xf  `json:"xfs"`  // repeat.Mesh transforms
	Mesh int   `json:"mesh"` // repeat.Mesh: base mesh id
}

// T is one projected transform.
type T struct {
	P   []int   `json:"p"`   // position * 256
	S   []int   `json:"s"`   // scale * 256
	R   [][]int `json:"r"`   // R[i] = Rotate(e_i) * 1024
	Fin bool    `json:"fin"` // every component finite
}

type Line struct {
	K    string          `json:"k"`
	Case json.RawMessage `json:"case"`
	Res  string          `json:"res"` // OK | FAIL | TIMEOUT
	Err  string          `json:"err"`
	Topo string          `json:"topo"`
	Tris [][]int         `json:"tris"` // index buffer in threes (vertex numbers)
	Rem  int             `json:"rem"`  // len(indices) % 3
	Pos  [][]int         `json:"pos"`
	Fin  bool            `json:"fin"` // every position / normal / uv component finite
	Nn   int             `json:"nn"`  // number of normals, -1 without the attribute
	Nuv  int             `json:"nuv"` // number of texture coordinates, -1 without the attribute
	Trs  []T             `json:"trs"`
	Base [][]int         `json:"base"` // repeat.Mesh: positions of the input mesh * 256
	Bt   [][]int         `json:"bt"`   // repeat.Mesh: triangles of the input mesh
}

func emptyLine(kind string, raw json.RawMessage) Line {
	return Line{K: kind, Case: raw, Res: "OK", Topo: "none", Tris: [][]int{}, Pos: [][]int{}, Fin: true, Nn: -1, Nuv: -1,
		Trs: []T{}, Base: [][]int{}, Bt: [][]int{}}
}

func finite(xs ...float64) bool {
	for _, x := range xs {
		if math.IsNaN(x) || math.IsInf(x, 0) {
			return false
		}
	}
	return true
}

func rnd(x, scale float64) int {
	y := x * scale
	if math.IsNaN(y) || math.IsInf(y, 0) || math.Abs(y) > 1e9 {
		return 0
	}
	return int(math.Round(y))
}

func v3w(p []int) vector3.Float64 {
	return vector3.New(float64(p[0]), float64(p[1]), float64(p[2]))
}

func q4(x int) float64 { return float64(x) / 4 }

func p3(v vector3.Float64, scale float64, fin *bool) []int {
	if !finite(v.X(), v.Y(), v.Z()) {
		*fin = false
	}
	return []int{rnd(v.X(), scale), rnd(v.Y(), scale), rnd(v.Z(), scale)}
}

// polyline is an exact arc-length parametrised lattice polyline: the Spline
// handed to CircleAlongSpline and repeat.Spline (curves.Spline is an interface).
type polyline struct {
	pts []vector3.Float64
}

func (p polyline) Length() float64 {
	l := 0.
	for i := 1; i < len(p.pts); i++ {
		l += p.pts[i].Distance(p.pts[i-1])
	}
	return l
}

func (p polyline) seg(d float64) (int, float64) {
	if len(p.pts) < 2 {
		return 0, 0
	}
	for i := 1; i < len(p.pts); i++ {
		l := p.pts[i].Distance(p.pts[i-1])
		if d <= l || i == len(p.pts)-1 {
			return i, d
		}
		d -= l
	}
	return len(p.pts) - 1, d
}

func (p polyline) At(d float64) vector3.Float64 {
	if len(p.pts) == 0 {
		return vector3.Zero[float64]()
	}
	if len(p.pts) == 1 {
		return p.pts[0]
	}
	i, r := p.seg(d)
	dir := p.pts[i].Sub(p.pts[i-1])
	l := dir.Length()
	if l == 0 {
		return p.pts[i-1]
	}
	return p.pts[i-1].Add(dir.Scale(r / l))
}

// Dir is the direction of the segment that contains the point (of the earlier
// segment at a corner).
func (p polyline) Dir(d float64) vector3.Float64 {
	if len(p.pts) < 2 {
		return vector3.Forward[float64]()
	}
	i, _ := p.seg(d)
	return p.pts[i].Sub(p.pts[i-1]).Normalized()
}

func pathOf(c Case) []vector3.Float64 {
	out := make([]vector3.Float64, len(c.Path))
	for i, p := range c.Path {
		out[i] = v3w(p)
	}
	return out
}

func radiiOf(c Case) []float64 {
	out := make([]float64, len(c.Radii))
	for i, r := range c.Radii {
		out[i] = q4(r)
	}
	return out
}

func stencilOf(c Case) []vector2.Float64 {
	out := make([]vector2.Float64, len(c.Stencil))
	for i, s := range c.Stencil {
		out[i] = vector2.New(q4(s[0]), q4(s[1]))
	}
	return out
}

func buildExt(c Case) modeling.Mesh {
	switch c.Gen {
	case "polygon":
		pts := make([]extrude.ExtrusionPoint, len(c.Path))
		for i, p := range c.Path {
			t := q4(c.Rad)
			if len(c.Radii) == len(c.Path) {
				t = q4(c.Radii[i])
			}
			pts[i] = extrude.ExtrusionPoint{Point: v3w(p), Thickness: t}
			if c.Uv {
				pts[i].UV = &extrude.ExtrusionPointUV{Point: vector2.New(0.5, float64(i)), Thickness: 1}
			}
		}
		return extrude.Polygon(c.Sides, pts)
	case "circle":
		return extrude.Circle{Resolution: c.Sides, Radius: q4(c.Rad), Radii: radiiOf(c), ClosePath: c.Close, Path: pathOf(c)}.Extrude()
	case "spline":
		return extrude.CircleAlongSpline{CircleResolution: c.Sides, Radius: q4(c.Rad), Radii: radiiOf(c), ClosePath: c.Close,
			Spline: polyline{pathOf(c)}, SplineResolution: c.N}.Extrude()
	case "shape":
		return extrude.Shape(stencilOf(c), pathOf(c))
	case "closedshape":
		return extrude.ClosedShape(stencilOf(c), pathOf(c))
	case "line":
		pts := make([]extrude.LinePoint, len(c.Path))
		for i, p := range c.Path {
			pts[i] = extrude.LinePoint{Point: v3w(p), Up: v3w(c.Up), Width: q4(c.Rad), Height: q4(c.H),
				Uv: vector2.New(0.5, float64(i)), UvWidth: 1}
		}
		return extrude.Line(pts)
	case "screw":
		line := make([]vector3.Float64, len(c.Path))
		for i, p := range c.Path {
			line[i] = vector3.New(q4(p[0]), q4(p[1]), q4(p[2]))
		}
		m, err := extrude.ScrewNodeData{
			Line:        nodes.Value(line).Out(),
			Segments:    nodes.Value(c.Sides).Out(),
			Revolutions: nodes.Value(float64(c.Rev) / 4).Out(),
			Distance:    nodes.Value(q4(c.H)).Out(),
		}.Process()
		if err != nil {
			panic(err)
		}
		return m
	}
	panic("unknown extrude generator " + c.Gen)
}

type outcome struct {
	m   modeling.Mesh
	ts  []trs.TRS
	res string
	msg string
}

// guarded runs f (a call into polyform) with recover() and a deadline.
func guarded(deadline time.Duration, f func() outcome) outcome {
	ch := make(chan outcome, 1)
	go func() {
		defer func() {
			if r := recover(); r != nil {
				ch <- outcome{res: "FAIL", msg: fmt.Sprint(r)}
			}
		}()
		o := f()
		o.res = "OK"
		ch <- o
	}()
	select {
	case o := <-ch:
		return o
	case <-time.After(deadline):
		return outcome{res: "TIMEOUT", msg: "deadline exceeded"}
	}
}

func projectMesh(ln *Line, m modeling.Mesh) {
	switch m.Topology() {
	case modeling.TriangleTopology:
		ln.Topo = "tri"
	default:
		ln.Topo = "other"
	}
	idx := m.Indices()
	ln.Rem = idx.Len() % 3
	for i := 0; i+2 < idx.Len(); i += 3 {
		ln.Tris = append(ln.Tris, []int{idx.At(i), idx.At(i + 1), idx.At(i + 2)})
	}
	if m.HasFloat3Attribute(modeling.PositionAttribute) {
		pos := m.Float3Attribute(modeling.PositionAttribute)
		for i := 0; i < pos.Len(); i++ {
			ln.Pos = append(ln.Pos, p3(pos.At(i), PosScale, &ln.Fin))
		}
	}
	if m.HasFloat3Attribute(modeling.NormalAttribute) {
		n := m.Float3Attribute(modeling.NormalAttribute)
		ln.Nn = n.Len()
		for i := 0; i < n.Len(); i++ {
			v := n.At(i)
			if !finite(v.X(), v.Y(), v.Z()) {
				ln.Fin = false
			}
		}
	}
	if m.HasFloat2Attribute(modeling.TexCoordAttribute) {
		n := m.Float2Attribute(modeling.TexCoordAttribute)
		ln.Nuv = n.Len()
		for i := 0; i < n.Len(); i++ {
			v := n.At(i)
			if !finite(v.X(), v.Y()) {
				ln.Fin = false
			}
		}
	}
}

func execExt(c Case, raw json.RawMessage) Line {
	ln := emptyLine("ext", raw)
	o := guarded(30*time.Second, func() outcome { return outcome{m: buildExt(c)} })
	ln.Res, ln.Err = o.res, o.msg
	if o.res != "OK" {
		return ln
	}
	projectMesh(&ln, o.m)
	return ln
}

// ---------------------------------------------------------------------------
// repeat
// ---------------------------------------------------------------------------

var axes = []vector3.Float64{vector3.Right[float64](), vector3.Up[float64](), vector3.Forward[float64]()}

func xfOf(x Xf) trs.TRS {
	return trs.New(v3w(x.T), quaternion.FromTheta(float64(x.Q)*math.Pi/2, axes[x.A]),
		vector3.New(q4(x.S[0]), q4(x.S[1]), q4(x.S[2])))
}

// base meshes of repeat.Mesh cases (integer positions in quarter units)
func baseMesh(id int) modeling.Mesh {
	switch id {
	case 0: // one triangle
		return modeling.NewTriangleMesh([]int{0, 1, 2}).SetFloat3Attribute(modeling.PositionAttribute,
			[]vector3.Float64{vector3.New(0., 0., 0.), vector3.New(1., 0., 0.), vector3.New(0., 0.5, 0.25)})
	case 1: // tetrahedron, 4 triangles sharing vertices
		return modeling.NewTriangleMesh([]int{0, 2, 1, 0, 1, 3, 1, 2, 3, 2, 0, 3}).SetFloat3Attribute(modeling.PositionAttribute,
			[]vector3.Float64{vector3.New(0., 0., 0.), vector3.New(1., 0., 0.), vector3.New(0., 0., 1.25), vector3.New(0.25, 0.75, 0.5)})
	case 2: // empty triangle mesh with a position attribute
		return modeling.NewTriangleMesh([]int{}).SetFloat3Attribute(modeling.PositionAttribute, []vector3.Float64{})
	}
	panic("unknown base mesh")
}

func buildRep(c Case) outcome {
	switch c.Gen {
	case "line":
		return outcome{ts: repeat.Line(v3w(c.A), v3w(c.B), c.N)}
	case "lineex":
		return outcome{ts: repeat.LineExlusive(v3w(c.A), v3w(c.B), c.N)}
	case "linenode":
		ts, err := repeat.LineNodeData{Start: nodes.Value(v3w(c.A)).Out(), End: nodes.Value(v3w(c.B)).Out(),
			Times: nodes.Value(c.N).Out()}.Process()
		if err != nil {
			panic(err)
		}
		return outcome{ts: ts}
	case "circle":
		return outcome{ts: repeat.Circle(c.N, q4(c.Rad))}
	case "fib":
		return outcome{ts: repeat.FibonacciSphere(c.N, q4(c.Rad))}
	case "spline":
		return outcome{ts: repeat.Spline(polyline{pathOf(c)}, c.N)}
	case "splineex":
		return outcome{ts: repeat.SplineExlusive(polyline{pathOf(c)}, c.N)}
	case "splinenode":
		ts, err := repeat.SplineNodeData{Curve: nodes.Value[curves.Spline](polyline{pathOf(c)}).Out(), Times: nodes.Value(c.N).Out()}.Process()
		if err != nil {
			panic(err)
		}
		return outcome{ts: ts}
	case "mesh":
		ts := make([]trs.TRS, len(c.Xfs))
		for i, x := range c.Xfs {
			ts[i] = xfOf(x)
		}
		return outcome{ts: ts, m: repeat.Mesh(baseMesh(c.Mesh), ts)}
	}
	panic("unknown repeat generator " + c.Gen)
}

func projectTRS(t trs.TRS) T {
	out := T{Fin: true}
	out.P = p3(t.Position(), PosScale, &out.Fin)
	out.S = p3(t.Scale(), PosScale, &out.Fin)
	out.R = [][]int{}
	for _, a := range axes {
		out.R = append(out.R, p3(t.Rotation().Rotate(a), RotScale, &out.Fin))
	}
	return out
}

func execRep(c Case, raw json.RawMessage) Line {
	ln := emptyLine("rep", raw)
	o := guarded(30*time.Second, func() outcome { return buildRep(c) })
	ln.Res, ln.Err = o.res, o.msg
	if o.res != "OK" {
		return ln
	}
	for _, t := range o.ts {
		ln.Trs = append(ln.Trs, projectTRS(t))
	}
	if c.Gen == "mesh" {
		projectMesh(&ln, o.m)
		var b Line
		b.Fin = true
		projectMesh(&b, baseMesh(c.Mesh))
		ln.Base, ln.Bt = b.Pos, b.Tris
		if ln.Base == nil {
			ln.Base = [][]int{}
		}
		if ln.Bt == nil {
			ln.Bt = [][]int{}
		}
	}
	return ln
}

func execCase(raw json.RawMessage) Line {
	c := Case{Path: [][]int{}, Radii: []int{}, Stencil: [][]int{}, Up: []int{0, 1, 0}, A: []int{0, 0, 0}, B: []int{0, 0, 0}}
	if err := json.Unmarshal(raw, &c); err != nil {
		panic(fmt.Errorf("bad case %s: %w", string(raw), err))
	}
	switch c.Kind {
	case "ext":
		return execExt(c, raw)
	case "rep":
		return execRep(c, raw)
	}
	panic("unknown case kind " + c.Kind)
}

// RunCases executes the cases of `in` (ndjson) with `par` workers and writes
// one observation line per case, in input order.
func RunCases(in, out string, par int) error {
	fi, err := os.Open(in)
	if err != nil {
		return err
	}
	defer fi.Close()
	sc := bufio.NewScanner(fi)
	sc.Buffer(make([]byte, 1<<20), 1<<28)
	var raws []json.RawMessage
	for sc.Scan() {
		if len(sc.Bytes()) == 0 {
			continue
		}
		raws = append(raws, append(json.RawMessage{}, sc.Bytes()...))
	}
	if err := sc.Err(); err != nil {
		return err
	}
	if par < 1 {
		par = 1
	}
	results := make([][]byte, len(raws))
	var wg sync.WaitGroup
	next := make(chan int)
	for w := 0; w < par; w++ {
		wg.Add(1)
		go func() {
			defer wg.Done()
			for i := range next {
				b, err := json.Marshal(execCase(raws[i]))
				if err != nil {
					panic(err)
				}
				results[i] = b
			}
		}()
	}
	for i := range raws {
		next <- i
	}
	close(next)
	wg.Wait()
	fo, err := os.Create(out)
	if err != nil {
		return err
	}
	defer fo.Close()
	w := bufio.NewWriterSize(fo, 1<<20)
	defer w.Flush()
	for _, b := range results {
		w.Write(b)
		w.WriteByte('\n')
	}
	return nil
}
