// Package potfam executes abstract point-cloud / photogrammetry files (X05) on
// the real decoders: polyform's formats/potree, formats/colmap, formats/opensfm
// and the sfm module they delegate to.  It only executes and projects: bytes
// come from the independent encoders of harness/potenc, every decode of the
// complete file (through several io.Reader behaviours) and of every strict
// prefix is logged as an outcome (ok | error | panic | timeout) with a lossless
// projection of what was returned; TracePc.tla judges.
package potfam

import (
	"math"
	"sort"
	"strconv"
	"strings"

	"github.com/EliCDavis/polyform/formats/potree"
	"github.com/EliCDavis/polyform/modeling"
	sfmcolmap "github.com/EliCDavis/sfm/colmap"

	"verifharness/potenc"
)

// U: a real number projected on a rational grid: v = I / den exactly (Ex), or
// not representable there (Ex false, I 0).  den is fixed per field, see below.
type U struct {
	I  int  `json:"i"`
	Ex bool `json:"ex"`
}

func hexu(u uint64) string {
	s := strconv.FormatUint(u, 16)
	return strings.Repeat("0", 16-len(s)) + s
}
func hexf(v float64) string { return hexu(math.Float64bits(v)) }

// unit: v as a multiple of 1/den, where the decoder is specified to compute
// the correctly rounded quotient k / den  (pre = exact power-of-two prescale)
func unit(v float64, pre, den float64) U {
	k := math.Round(v * den * pre)
	if math.IsNaN(k) || math.Abs(k) >= 1<<31 || float64(k)/pre/den != v {
		return U{}
	}
	return U{I: int(k), Ex: true}
}

// lat: v on the lattice 1/LQ
func lat(v float64) U {
	k := v * potenc.LQ
	if math.IsNaN(k) || math.Abs(k) >= 1<<31 || k != math.Trunc(k) {
		return U{}
	}
	return U{I: int(k), Ex: true}
}

func integer(v float64) U {
	if math.IsNaN(v) || math.Abs(v) >= 1<<31 || v != math.Trunc(v) {
		return U{}
	}
	return U{I: int(v), Ex: true}
}

func attrNames(m modeling.Mesh) []string {
	out := []string{}
	for _, n := range m.Float1Attributes() {
		out = append(out, n+"/1")
	}
	for _, n := range m.Float2Attributes() {
		out = append(out, n+"/2")
	}
	for _, n := range m.Float3Attributes() {
		out = append(out, n+"/3")
	}
	for _, n := range m.Float4Attributes() {
		out = append(out, n+"/4")
	}
	sort.Strings(out)
	return out
}

func indices(m modeling.Mesh) []int {
	out := []int{}
	idx := m.Indices()
	for i := 0; i < idx.Len(); i++ {
		out = append(out, idx.At(i))
	}
	return out
}

// ---- colmap points -------------------------------------------------------

type PPoint struct {
	ID string   `json:"id"`
	P  []string `json:"p"`
	C  []int    `json:"c"`
	A  int      `json:"a"`
	E  string   `json:"e"`
	Tr [][]int  `json:"tr"`
}

func projPoints(pts []sfmcolmap.Point3D) map[string]any {
	out := []PPoint{}
	for _, p := range pts {
		tr := [][]int{}
		for _, t := range p.Tracks {
			tr = append(tr, []int{t.ImageID, t.Point2DID})
		}
		out = append(out, PPoint{ID: hexu(p.ID), P: []string{hexf(p.Position.X()), hexf(p.Position.Y()), hexf(p.Position.Z())},
			C: []int{int(p.Color.R), int(p.Color.G), int(p.Color.B)}, A: int(p.Color.A), E: hexf(p.Error), Tr: tr})
	}
	return map[string]any{"pts": out}
}

func f3hex(m modeling.Mesh, name string) [][]string {
	out := [][]string{}
	if !m.HasFloat3Attribute(name) {
		return out
	}
	it := m.Float3Attribute(name)
	for i := 0; i < it.Len(); i++ {
		v := it.At(i)
		out = append(out, []string{hexf(v.X()), hexf(v.Y()), hexf(v.Z())})
	}
	return out
}

func f1(m modeling.Mesh, name string, f func(float64) any) []any {
	out := []any{}
	if !m.HasFloat1Attribute(name) {
		return out
	}
	it := m.Float1Attribute(name)
	for i := 0; i < it.Len(); i++ {
		out = append(out, f(it.At(i)))
	}
	return out
}

func f3unit(m modeling.Mesh, name string, f func(float64) U) [][]U {
	out := [][]U{}
	if !m.HasFloat3Attribute(name) {
		return out
	}
	it := m.Float3Attribute(name)
	for i := 0; i < it.Len(); i++ {
		v := it.At(i)
		out = append(out, []U{f(v.X()), f(v.Y()), f(v.Z())})
	}
	return out
}

func meshBase(m modeling.Mesh) map[string]any {
	return map[string]any{"topo": m.Topology().String(), "n": m.AttributeLength(), "idx": indices(m), "attrs": attrNames(m)}
}

// colour = correctly rounded r / 255
func projPointMesh(m modeling.Mesh) map[string]any {
	v := meshBase(m)
	v["pos"] = f3hex(m, modeling.PositionAttribute)
	v["col"] = f3unit(m, modeling.ColorAttribute, func(x float64) U { return unit(x, 1, 255) })
	v["err"] = f1(m, "error", func(x float64) any { return hexf(x) })
	v["id"] = f1(m, "id", func(x float64) any { return integer(x) })
	v["ntr"] = f1(m, "track count", func(x float64) any { return integer(x) })
	return v
}

// ---- colmap images -------------------------------------------------------

func projImages(imgs []sfmcolmap.Image) map[string]any {
	out := []map[string]any{}
	for _, im := range imgs {
		p2 := []map[string]any{}
		for _, p := range im.Points {
			p2 = append(p2, map[string]any{"x": hexf(p.Position.X()), "y": hexf(p.Position.Y()), "pid": hexu(uint64(p.Id))})
		}
		name := []int{}
		for _, c := range []byte(im.Name) {
			name = append(name, int(c))
		}
		out = append(out, map[string]any{"id": im.Id, "cam": im.CameraId, "name": name, "p2": p2,
			"rot": map[string]string{"x": hexf(im.Rotation.X()), "y": hexf(im.Rotation.Y()), "z": hexf(im.Rotation.Z()), "w": hexf(im.Rotation.W())},
			"t":   []string{hexf(im.Translation.X()), hexf(im.Translation.Y()), hexf(im.Translation.Z())}})
	}
	return map[string]any{"imgs": out}
}

func projImageMesh(m modeling.Mesh) map[string]any {
	v := meshBase(m)
	v["pos"] = f3hex(m, modeling.PositionAttribute)
	rot := []map[string]string{}
	if m.HasFloat4Attribute(modeling.RotationAttribute) {
		it := m.Float4Attribute(modeling.RotationAttribute)
		for i := 0; i < it.Len(); i++ {
			q := it.At(i)
			rot = append(rot, map[string]string{"x": hexf(q.X()), "y": hexf(q.Y()), "z": hexf(q.Z()), "w": hexf(q.W())})
		}
	}
	v["rot"] = rot
	v["id"] = f1(m, "id", func(x float64) any { return integer(x) })
	v["cam"] = f1(m, "camera id", func(x float64) any { return integer(x) })
	v["np"] = f1(m, "point count", func(x float64) any { return integer(x) })
	return v
}

// ---- colmap cameras ------------------------------------------------------

func projCameras(cams []sfmcolmap.Camera) map[string]any {
	out := []map[string]any{}
	for _, c := range cams {
		par := []string{}
		for _, p := range c.Params {
			par = append(par, hexf(p))
		}
		out = append(out, map[string]any{"id": c.ID, "model": int(c.Model), "w": hexu(c.Width), "h": hexu(c.Height), "par": par})
	}
	return map[string]any{"cams": out}
}

// ---- opensfm -------------------------------------------------------------

// colour = correctly rounded (c / LQ) / 255
func projSfmMesh(m modeling.Mesh) map[string]any {
	v := meshBase(m)
	pos := f3unit(m, modeling.PositionAttribute, lat)
	col := f3unit(m, modeling.ColorAttribute, func(x float64) U { return unit(x, potenc.LQ, 255) })
	pts := []map[string]any{}
	for i := range pos {
		p := map[string]any{"p": pos[i], "c": []U{}}
		if i < len(col) {
			p["c"] = col[i]
		}
		pts = append(pts, p)
	}
	v["pts"] = pts
	v["ncol"] = len(col)
	return v
}

// ---- potree --------------------------------------------------------------

func lats(vs []float64) []U {
	out := []U{}
	for _, v := range vs {
		out = append(out, lat(v))
	}
	return out
}

func projMeta(m *potree.Metadata) map[string]any {
	attrs := []map[string]any{}
	offs := []int{}
	byName := []map[string]any{}
	for _, a := range m.Attributes {
		attrs = append(attrs, map[string]any{"n": a.Name, "sz": a.Size, "ne": a.NumElements, "es": a.ElementSize, "t": string(a.Type),
			"min": lats(a.Min), "max": lats(a.Max), "pos": a.IsPosition(), "col": a.IsColor()})
		offs = append(offs, m.AttributeOffset(a.Name))
		got, o := m.Attribute(a.Name)
		if got == nil {
			byName = append(byName, map[string]any{"n": "", "sz": -1, "o": o})
		} else {
			byName = append(byName, map[string]any{"n": got.Name, "sz": got.Size, "o": o})
		}
	}
	none, noneOff := m.Attribute("no such attribute")
	return map[string]any{"version": m.Version, "name": m.Name, "desc": m.Description, "points": int(m.Points), "proj": m.Projection,
		"first": int(m.Hierarchy.FirstChunkSize), "step": m.Hierarchy.StepSize, "depth": m.Hierarchy.Depth,
		"off": lats(m.Offset), "scale": lats(m.Scale), "spacing": lat(m.Spacing),
		"bmin": lats(m.BoundingBox.Min), "bmax": lats(m.BoundingBox.Max), "enc": m.Encoding, "attrs": attrs,
		"bpp": m.BytesPerPoint(), "posoff": m.PositionAttributeOffset(), "coloff": m.ColorAttributeOffset(),
		"offs": offs, "byname": byName, "missing": m.AttributeOffset("no such attribute"),
		"missing2": noneOff, "missingnil": none == nil}
}

func projTree(root *potree.OctreeNode) map[string]any {
	nodes := []map[string]any{}
	var walk func(n *potree.OctreeNode)
	walk = func(n *potree.OctreeNode) {
		kids := []string{}
		for _, c := range n.Children {
			kids = append(kids, c.Name)
		}
		parent := ""
		if n.Parent != nil {
			parent = n.Parent.Name
		}
		mn, mx := n.BoundingBox.Min(), n.BoundingBox.Max()
		nodes = append(nodes, map[string]any{"name": n.Name, "level": n.Level, "type": int(n.NodeType), "mask": int(n.ChildMask),
			"npts": integer(float64(n.NumPoints)), "bo": hexu(n.ByteOffset), "bs": hexu(n.ByteSize),
			"hbo": hexu(n.HierarchyByteOffset), "hbs": hexu(n.HierarchyByteSize), "kids": kids, "parent": parent,
			"bb": lats([]float64{mn.X(), mn.Y(), mn.Z(), mx.X(), mx.Y(), mx.Z()}), "sp": lat(n.Spacing)})
		for _, c := range n.Children {
			walk(c)
		}
	}
	walk(root)
	visited := 0
	root.Walk(func(o *potree.OctreeNode) bool { visited++; return true })
	// a walk that does not descend below the root's children
	visited1 := 0
	root.Walk(func(o *potree.OctreeNode) bool { visited1++; return o.Level < 1 })
	return map[string]any{"nodes": nodes, "walk1": visited1, "height": root.Height(), "desc": root.DescendentCount(),
		"pcount": integer(float64(root.PointCount())), "maxp": root.MaxPointCount(), "walk": visited}
}

// position on the lattice; colour = correctly rounded k / 65280
func projNodeMesh(m modeling.Mesh) map[string]any {
	v := meshBase(m)
	v["pos"] = f3unit(m, modeling.PositionAttribute, lat)
	v["col"] = f3unit(m, modeling.ColorAttribute, func(x float64) U { return unit(x, 1, 65280) })
	return v
}
