package potfam

import (
	"bufio"
	"encoding/json"
	"math"
	"math/rand"
	"os"
	"strconv"

	"verifharness/potenc"
)

// GenRandom writes seeded abstract files of the same form as PcGen.tla emits,
// at sizes TLC does not enumerate (records up to maxn, files around the 4096
// byte bufio threshold, arbitrary 64 bit patterns).

func rbits(r *rand.Rand) string {
	switch r.Intn(12) {
	case 0:
		return hexu(math.Float64bits(math.Inf(1 - 2*r.Intn(2))))
	case 1:
		return hexu(0x7ff8000000000000 | uint64(r.Int63n(1<<40))) // NaN with payload
	case 2:
		return hexu(0x8000000000000000) // -0
	}
	// any normal number: the top byte is never zero (see NOTES: stale-buffer counts)
	return hexf(r.NormFloat64() * math.Pow(10, float64(r.Intn(9)-4)))
}

func rany(r *rand.Rand) string { return hexu(r.Uint64()) }

func ri32(r *rand.Rand) int {
	switch r.Intn(6) {
	case 0:
		return -1
	case 1:
		return math.MaxInt32
	case 2:
		return -math.MaxInt32
	}
	return int(int32(r.Uint32())) / (1 << uint(r.Intn(24)))
}

func genPoints(r *rand.Rand, n int) potenc.File {
	f := potenc.File{Fmt: "cpts", Pts: []potenc.CPoint{}}
	for i := 0; i < n; i++ {
		p := potenc.CPoint{P: []string{rany(r), rany(r), rbits(r)}, C: []int{r.Intn(256), r.Intn(256), r.Intn(256)}, E: rbits(r), Tr: [][]int{}}
		if r.Intn(5) == 0 {
			p.ID, p.IDN = hexu(r.Uint64()|1<<40), -1
		} else {
			p.IDN = int(r.Int31())
			if r.Intn(3) == 0 {
				p.IDN = i
			}
			p.ID = hexu(uint64(p.IDN))
		}
		for t := r.Intn(6); t > 0; t-- {
			p.Tr = append(p.Tr, []int{ri32(r), ri32(r)})
		}
		f.Pts = append(f.Pts, p)
	}
	return f
}

func genImages(r *rand.Rand, n int) potenc.File {
	f := potenc.File{Fmt: "cimg", Imgs: []potenc.CImage{}}
	for i := 0; i < n; i++ {
		im := potenc.CImage{ID: ri32(r), Cam: r.Intn(65536), Q: []string{rbits(r), rbits(r), rbits(r), rbits(r)},
			T: []string{rany(r), rbits(r), rbits(r)}, Name: []int{}, P2: []potenc.CPoint2D{}}
		for k := r.Intn(24); k > 0; k-- {
			im.Name = append(im.Name, 1+r.Intn(255))
		}
		for k := r.Intn(7); k > 0; k-- {
			pid := hexu(uint64(r.Int63n(1 << 40)))
			if r.Intn(3) == 0 {
				pid = "ffffffffffffffff" // -1: no 3D point
			}
			im.P2 = append(im.P2, potenc.CPoint2D{X: rbits(r), Y: rbits(r), PID: pid})
		}
		f.Imgs = append(f.Imgs, im)
	}
	return f
}

func genCameras(r *rand.Rand, n int) potenc.File {
	f := potenc.File{Fmt: "ccam", Cams: []potenc.CCamera{}}
	for i := 0; i < n; i++ {
		c := potenc.CCamera{ID: ri32(r), Model: r.Intn(11), W: hexu(uint64(r.Int63n(1 << uint(1+r.Intn(62))))), H: rany(r), Par: []string{}}
		for k := 0; k < potenc.NumParams[c.Model]; k++ {
			c.Par = append(c.Par, rbits(r))
		}
		f.Cams = append(f.Cams, c)
	}
	return f
}

func rlat(r *rand.Rand, bits uint) int { return int(r.Int63n(1<<bits)) - 1<<(bits-1) }

func genSfm(r *rand.Rand, n int) potenc.File {
	f := potenc.File{Fmt: "osfm", Style: []string{"min", "pretty", "exp"}[r.Intn(3)], Recs: []potenc.ORec{}}
	key := 0
	for k := r.Intn(4); k > 0; k-- {
		rec := potenc.ORec{Pts: []potenc.OPoint{}, NCam: r.Intn(3), NShot: r.Intn(3)}
		for i := r.Intn(n + 1); i > 0; i-- {
			key += 1 + r.Intn(5)
			c := []int{r.Intn(256) * potenc.LQ, r.Intn(256) * potenc.LQ, r.Intn(256) * potenc.LQ}
			if r.Intn(4) == 0 {
				c[r.Intn(3)] = r.Intn(255*potenc.LQ + 1)
			}
			rec.Pts = append(rec.Pts, potenc.OPoint{Key: key, P: []int{rlat(r, 31), rlat(r, 24), rlat(r, 12)}, C: c})
		}
		f.Recs = append(f.Recs, rec)
	}
	return f
}

var attrPool = []potenc.PAttr{
	{N: "intensity", Sz: 2, Ne: 1, Es: 2, T: "uint16"},
	{N: "classification", Sz: 1, Ne: 1, Es: 1, T: "uint8"},
	{N: "gps-time", Sz: 8, Ne: 1, Es: 8, T: "double"},
	{N: "point source id", Sz: 2, Ne: 1, Es: 2, T: "uint16"},
	{N: "normal", Sz: 12, Ne: 3, Es: 4, T: "float"},
}

func genMeta(r *rand.Rand, scaleExp int) potenc.PMeta {
	m := potenc.PMeta{Name: "cloud " + strconv.Itoa(r.Intn(1000)), Points: r.Intn(1 << 30), First: 22, Step: 1 + r.Intn(6), Depth: r.Intn(12),
		Enc: []string{"DEFAULT", "BROTLI"}[r.Intn(2)], Attrs: []potenc.PAttr{}}
	s := 1 << uint(scaleExp)
	m.Scale = []int{s, s, s}
	m.BMin = []int{rlat(r, 20), rlat(r, 20), rlat(r, 20)}
	size := (1 + r.Intn(64)) * 1024
	m.BMax = []int{m.BMin[0] + size, m.BMin[1] + size, m.BMin[2] + size}
	m.Off = []int{m.BMin[0], m.BMin[1], m.BMin[2]}
	if r.Intn(2) == 0 {
		m.Off = []int{rlat(r, 20), rlat(r, 20), rlat(r, 20)}
	}
	m.Spacing = (1 + r.Intn(256)) * 256
	pos := potenc.PAttr{N: []string{"position", "POSITION_CARTESIAN"}[r.Intn(2)], Sz: 12, Ne: 3, Es: 4, T: "int32"}
	col := potenc.PAttr{N: []string{"rgb", "RGB"}[r.Intn(2)], Sz: 6, Ne: 3, Es: 2, T: "uint16"}
	if r.Intn(4) == 0 {
		col = potenc.PAttr{N: []string{"rgba", "RGBA"}[r.Intn(2)], Sz: 8, Ne: 4, Es: 2, T: "uint16"}
	}
	list := []potenc.PAttr{pos}
	if r.Intn(5) > 0 {
		list = append(list, col)
	}
	for _, a := range attrPool {
		if r.Intn(2) == 0 {
			list = append(list, a)
		}
	}
	r.Shuffle(len(list), func(i, j int) { list[i], list[j] = list[j], list[i] })
	m.Attrs = list
	return m
}

func genHier(r *rand.Rand, n int) potenc.File {
	f := potenc.File{Fmt: "phier", Ord: []string{"fwd", "rev"}[r.Intn(2)], Meta: genMeta(r, 6), Nodes: []potenc.HNode{}}
	names := [][]int{{}}
	have := map[string]bool{"": true}
	key := func(nm []int) string {
		s := ""
		for _, c := range nm {
			s += strconv.Itoa(c)
		}
		return s
	}
	for len(names) < n {
		p := names[r.Intn(len(names))]
		if len(p) >= 4 {
			continue
		}
		c := append(append([]int{}, p...), r.Intn(8))
		if have[key(c)] {
			continue
		}
		have[key(c)] = true
		names = append(names, c)
	}
	off := 0
	for _, nm := range names {
		mask := 0
		for c := 0; c < 8; c++ {
			if have[key(nm)+strconv.Itoa(c)] {
				mask |= 1 << uint(c)
			}
		}
		h := potenc.HNode{Nm: nm, M: mask, N: r.Intn(1 << 20), PX: len(nm) > 0 && r.Intn(4) == 0}
		size := h.N * 18
		switch r.Intn(6) {
		case 0:
			size = 0 // a node that reports points but has no bytes (potree issue 1125)
		case 1:
			h.BO, h.BS = hexu(uint64(r.Int63())), hexu(uint64(r.Int63())) // beyond 32 bits
		}
		if h.BO == "" {
			h.BO, h.BS = hexu(uint64(off)), hexu(uint64(size))
			off += size
		}
		f.Nodes = append(f.Nodes, h)
	}
	// firstChunkSize: entries of the root chunk
	f.Meta.First = 22 * rootChunkLen(&f)
	return f
}

func rootChunkLen(f *potenc.File) int {
	px := map[string]bool{}
	all := map[string]bool{}
	for _, n := range f.Nodes {
		s := ""
		for _, c := range n.Nm {
			s += strconv.Itoa(c)
		}
		all[s] = true
		px[s] = n.PX
	}
	count := 0
	var walk func(s string, top bool)
	walk = func(s string, top bool) {
		count++
		if !top && px[s] {
			return
		}
		for c := 0; c < 8; c++ {
			if all[s+strconv.Itoa(c)] {
				walk(s+strconv.Itoa(c), false)
			}
		}
	}
	walk("", true)
	return count
}

func genOctree(r *rand.Rand, n int) potenc.File {
	exp := []int{0, 6, 10, 16}[r.Intn(4)]
	f := potenc.File{Fmt: "pnode", Meta: genMeta(r, exp), ONs: []potenc.ONode{}}
	bound := (1 << 29) >> uint(exp)
	for k := 1 + r.Intn(4); k > 0; k-- {
		on := potenc.ONode{Gap: r.Intn(3) * r.Intn(9), Pts: []potenc.OPt{}}
		dark := r.Intn(3) == 0 // a node whose colours are all 8 bit
		for i := r.Intn(n + 1); i > 0; i-- {
			p := potenc.OPt{X: []int{r.Intn(2*bound) - bound, r.Intn(2*bound) - bound, r.Intn(2*bound) - bound}, Fill: 1 + r.Intn(255)}
			lim := 65536
			if dark || r.Intn(4) == 0 {
				lim = 256
			}
			p.C = []int{r.Intn(lim), r.Intn(lim), r.Intn(lim), r.Intn(65536)}
			on.Pts = append(on.Pts, p)
		}
		f.ONs = append(f.ONs, on)
	}
	return f
}

func GenRandom(outPath string, seed int64, n, maxn int) error {
	r := rand.New(rand.NewSource(seed))
	out, err := os.Create(outPath)
	if err != nil {
		return err
	}
	defer out.Close()
	w := bufio.NewWriter(out)
	for i := 0; i < n; i++ {
		var f potenc.File
		size := r.Intn(maxn + 1)
		switch i % 8 {
		case 0:
			f = genPoints(r, size)
		case 1:
			f = genImages(r, size)
		case 2:
			f = genCameras(r, size)
		case 3:
			f = genSfm(r, size)
		case 4:
			f = potenc.File{Fmt: "pmeta", Style: []string{"min", "pretty", "exp"}[r.Intn(3)], Meta: genMeta(r, []int{0, 6, 16}[r.Intn(3)])}
		case 5:
			f = genHier(r, 1+size)
		case 6:
			f = genOctree(r, size)
		case 7:
			// around the 4096 / 8192 byte buffers of bufio (LoadPoints3DBinary, LoadImagesBinary)
			if r.Intn(2) == 0 {
				f = genPoints(r, 55+r.Intn(12)+60*r.Intn(2))
			} else {
				f = genImages(r, 22+r.Intn(8)+24*r.Intn(2))
			}
		}
		f.ID = 1000000 + i
		b, err := json.Marshal(trimFile(f))
		if err != nil {
			return err
		}
		w.Write(b)
		w.WriteByte('\n')
	}
	return w.Flush()
}

// trimFile keeps only the fields of the file's format (the trace specification
// reads the abstract file back; unused fields of other formats would be noise).
func trimFile(f potenc.File) map[string]any {
	m := map[string]any{"id": f.ID, "fmt": f.Fmt}
	switch f.Fmt {
	case "cpts":
		m["pts"] = f.Pts
	case "cimg":
		m["imgs"] = f.Imgs
	case "ccam":
		m["cams"] = f.Cams
	case "osfm":
		m["recs"], m["style"] = f.Recs, f.Style
	case "pmeta":
		m["meta"], m["style"] = f.Meta, f.Style
	case "phier":
		m["meta"], m["nodes"], m["ord"] = f.Meta, f.Nodes, f.Ord
	case "pnode":
		m["meta"], m["ons"] = f.Meta, f.ONs
	}
	return m
}
