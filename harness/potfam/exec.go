package potfam

import (
	"bufio"
	"bytes"
	"encoding/json"
	"fmt"
	"io"
	"os"
	"path/filepath"
	"sync"
	"testing/iotest"
	"time"

	pcolmap "github.com/EliCDavis/polyform/formats/colmap"
	popensfm "github.com/EliCDavis/polyform/formats/opensfm"
	"github.com/EliCDavis/polyform/formats/potree"
	sfmcolmap "github.com/EliCDavis/sfm/colmap"
	"github.com/EliCDavis/vector/vector3"

	"verifharness/potenc"
)

// Out: what one call did.
type Out struct {
	Kind string         `json:"kind"` // ok | error | panic | timeout
	Msg  string         `json:"msg"`
	ND   int            `json:"nd"` // records returned next to an error
	V    map[string]any `json:"v"`  // projection of the result (kind ok), else {"z":0}
}

var nothing = map[string]any{"z": 0}

const deadline = 20 * time.Second

// guard runs f under recover and a deadline.
func guard(f func() (map[string]any, int, error)) Out {
	ch := make(chan Out, 1)
	go func() {
		defer func() {
			if r := recover(); r != nil {
				ch <- Out{Kind: "panic", Msg: trim(fmt.Sprint(r)), V: nothing}
			}
		}()
		v, nd, err := f()
		if err != nil {
			ch <- Out{Kind: "error", Msg: trim(err.Error()), ND: nd, V: nothing}
			return
		}
		ch <- Out{Kind: "ok", V: v}
	}()
	select {
	case o := <-ch:
		return o
	case <-time.After(deadline):
		return Out{Kind: "timeout", V: nothing}
	}
}

func trim(s string) string {
	if len(s) > 120 {
		return s[:120]
	}
	return s
}

// chunkReader hands out the data in pieces of 7, 1, 4096, 7, ... bytes.
type chunkReader struct {
	r io.Reader
	i int
}

func (c *chunkReader) Read(p []byte) (int, error) {
	sizes := []int{7, 1, 4096}
	n := sizes[c.i%3]
	c.i++
	if n > len(p) {
		n = len(p)
	}
	return c.r.Read(p[:n])
}

// Readers: the io.Reader behaviours a decode of the complete file is run through.
var Readers = []string{"all", "one", "half", "dataerr", "chunk", "bufio16"}

func reader(kind string, data []byte) io.Reader {
	br := bytes.NewReader(data)
	switch kind {
	case "one":
		return iotest.OneByteReader(br)
	case "half":
		return iotest.HalfReader(br)
	case "dataerr":
		return iotest.DataErrReader(br)
	case "chunk":
		return &chunkReader{r: br}
	case "bufio16":
		return bufio.NewReaderSize(br, 16)
	}
	return br
}

// api: one decoder entry point.  exactly one of rd / path is set.
type api struct {
	name string
	rd   func(f *potenc.File, in io.Reader) (map[string]any, int, error)
	path func(f *potenc.File, path string) (map[string]any, int, error)
}

func metaOf(f *potenc.File) (*potree.Metadata, error) {
	return potree.ReadMetadata(bytes.NewReader(potenc.MetaJSON(&f.Meta)))
}

var apis = map[string][]api{
	"cpts": {
		{name: "sfm.ReadPoints3DBinary", rd: func(f *potenc.File, in io.Reader) (map[string]any, int, error) {
			pts, err := sfmcolmap.ReadPoints3DBinary(in)
			return projPoints(pts), len(pts), err
		}},
		{name: "colmap.ReadSparsePointData", rd: func(f *potenc.File, in io.Reader) (map[string]any, int, error) {
			m, err := pcolmap.ReadSparsePointData(in)
			return projPointMesh(m), m.AttributeLength(), err
		}},
		{name: "colmap.LoadSparsePointData", path: func(f *potenc.File, p string) (map[string]any, int, error) {
			m, err := pcolmap.LoadSparsePointData(p)
			return projPointMesh(m), m.AttributeLength(), err
		}},
	},
	"cimg": {
		{name: "sfm.ReadImagesBinary", rd: func(f *potenc.File, in io.Reader) (map[string]any, int, error) {
			imgs, err := sfmcolmap.ReadImagesBinary(in)
			return projImages(imgs), len(imgs), err
		}},
		{name: "colmap.LoadImageData", path: func(f *potenc.File, p string) (map[string]any, int, error) {
			m, err := pcolmap.LoadImageData(p)
			return projImageMesh(m), m.AttributeLength(), err
		}},
	},
	"ccam": {
		{name: "sfm.ReadCamerasBinary", rd: func(f *potenc.File, in io.Reader) (map[string]any, int, error) {
			cams, err := sfmcolmap.ReadCamerasBinary(in)
			return projCameras(cams), len(cams), err
		}},
	},
	"osfm": {
		{name: "opensfm.ReadReconstructiontData", rd: func(f *potenc.File, in io.Reader) (map[string]any, int, error) {
			m, err := popensfm.ReadReconstructiontData(in)
			return projSfmMesh(m), m.AttributeLength(), err
		}},
		{name: "opensfm.LoadReconstructiontData", path: func(f *potenc.File, p string) (map[string]any, int, error) {
			m, err := popensfm.LoadReconstructiontData(p)
			return projSfmMesh(m), m.AttributeLength(), err
		}},
	},
	"pmeta": {
		{name: "potree.ReadMetadata", rd: func(f *potenc.File, in io.Reader) (map[string]any, int, error) {
			m, err := potree.ReadMetadata(in)
			if err != nil || m == nil {
				return nothing, 0, err
			}
			return projMeta(m), 0, nil
		}},
		{name: "potree.LoadMetadata", path: func(f *potenc.File, p string) (map[string]any, int, error) {
			m, err := potree.LoadMetadata(p)
			if err != nil || m == nil {
				return nothing, 0, err
			}
			return projMeta(m), 0, nil
		}},
	},
	"phier": {
		{name: "potree.ReadHierarchy", rd: func(f *potenc.File, in io.Reader) (map[string]any, int, error) {
			m, err := metaOf(f)
			if err != nil {
				panic("harness: metadata of a hierarchy case does not parse: " + err.Error())
			}
			root, err := m.ReadHierarchy(in)
			if err != nil || root == nil {
				return nothing, 0, err
			}
			return projTree(root), 0, nil
		}},
		{name: "potree.LoadHierarchy", path: func(f *potenc.File, p string) (map[string]any, int, error) {
			m, err := metaOf(f)
			if err != nil {
				panic("harness: metadata of a hierarchy case does not parse: " + err.Error())
			}
			root, err := m.LoadHierarchy(p)
			if err != nil || root == nil {
				return nothing, 0, err
			}
			return projTree(root), 0, nil
		}},
	},
	"pnode": {},
}

// node: OctreeNode.Read on (a prefix of) octree.bin followed by the three decoders.
func nodeCall(f *potenc.File, x potenc.Extra, i int, data []byte, short bool) Out {
	return guard(func() (map[string]any, int, error) {
		m, err := metaOf(f)
		if err != nil {
			panic("harness: metadata of an octree case does not parse: " + err.Error())
		}
		on := &potree.OctreeNode{Name: "r", NumPoints: uint32(x.NodeN[i]), ByteOffset: uint64(x.NodeOff[i]), ByteSize: uint64(x.NodeSize[i])}
		size := x.NodeSize[i] + 5
		if short { // a caller buffer that holds only the first half of the points: Read fills what fits
			size = (x.NodeN[i] / 2) * m.BytesPerPoint()
		}
		buf := make([]byte, size)
		n, err := on.Read(bytes.NewReader(data), buf)
		if err != nil {
			return nothing, n, err
		}
		v := map[string]any{"n": n}
		if short {
			// decode the points that arrived
			half := &potree.OctreeNode{Name: "r", NumPoints: uint32(x.NodeN[i] / 2)}
			v["mesh"] = projNodeMesh(potree.LoadNode(half, m, buf[:n]))
			return v, 0, nil
		}
		mesh := potree.LoadNode(on, m, buf[:n])
		v["mesh"] = projNodeMesh(mesh)
		pos := make([]vector3.Float64, x.NodeN[i])
		col := make([]vector3.Float64, x.NodeN[i])
		potree.LoadNodePositionDataIntoArray(m, buf[:n], pos)
		potree.LoadNodeColorDataIntoArray(m, buf[:n], col)
		ap, ac := [][]U{}, [][]U{}
		for k := range pos {
			ap = append(ap, []U{lat(pos[k].X()), lat(pos[k].Y()), lat(pos[k].Z())})
			ac = append(ac, []U{unit(col[k].X(), 1, 65280), unit(col[k].Y(), 1, 65280), unit(col[k].Z(), 1, 65280)})
		}
		v["apos"], v["acol"] = ap, ac
		return v, 0, nil
	})
}

type line = map[string]any

func runFile(raw json.RawMessage, dir string, maxCuts int, seed int64, only int) ([]line, error) {
	var f potenc.File
	if err := json.Unmarshal(raw, &f); err != nil {
		return nil, err
	}
	data, cells, x, err := potenc.Encode(&f)
	if err != nil {
		return nil, fmt.Errorf("case %d: %v", f.ID, err)
	}
	lines := []line{}
	head := line{"k": "file", "id": f.ID, "f": raw, "len": len(data), "cells": cells}
	if f.Fmt == "pnode" {
		head["noff"], head["nsize"], head["nn"] = x.NodeOff, x.NodeSize, x.NodeN
	}
	lines = append(lines, head)
	tmp := filepath.Join(dir, fmt.Sprintf("case%d.bin", f.ID))
	defer os.Remove(tmp)
	write := func(b []byte) error { return os.WriteFile(tmp, b, 0o644) }

	if only < 0 {
		for _, a := range apis[f.Fmt] {
			a := a
			if a.rd != nil {
				for _, rk := range Readers {
					rk := rk
					o := guard(func() (map[string]any, int, error) { return a.rd(&f, reader(rk, data)) })
					lines = append(lines, line{"k": "dec", "api": a.name, "rd": rk, "out": o})
				}
			} else {
				if err := write(data); err != nil {
					return nil, err
				}
				o := guard(func() (map[string]any, int, error) { return a.path(&f, tmp) })
				lines = append(lines, line{"k": "dec", "api": a.name, "rd": "file", "out": o})
			}
		}
		if f.Fmt == "pnode" {
			for i := range x.NodeOff {
				lines = append(lines, line{"k": "node", "i": i, "at": len(data), "short": false, "out": nodeCall(&f, x, i, data, false)})
				if x.NodeN[i] >= 2 {
					lines = append(lines, line{"k": "node", "i": i, "at": len(data), "short": true, "out": nodeCall(&f, x, i, data, true)})
				}
			}
		}
	}
	// every strict prefix (or a seeded sample of maxCuts of them)
	cuts := cutPoints(len(data), maxCuts, seed+int64(f.ID))
	if only >= 0 {
		cuts = []int{only}
	}
	for _, k := range cuts {
		pre := data[:k]
		for _, a := range apis[f.Fmt] {
			a := a
			switch {
			case a.rd != nil:
				o := guard(func() (map[string]any, int, error) { return a.rd(&f, bytes.NewReader(pre)) })
				lines = append(lines, line{"k": "cut", "api": a.name, "at": k, "out": o})
			case a.name == "colmap.LoadImageData" || k%7 == 0:
				// path-only entry points: every cut where there is no reader variant, else a sample
				if err := write(pre); err != nil {
					return nil, err
				}
				o := guard(func() (map[string]any, int, error) { return a.path(&f, tmp) })
				lines = append(lines, line{"k": "cut", "api": a.name, "at": k, "out": o})
			}
		}
		if f.Fmt == "pnode" {
			for i := range x.NodeOff {
				lines = append(lines, line{"k": "node", "i": i, "at": k, "short": false, "out": nodeCall(&f, x, i, pre, false)})
			}
		}
	}
	lines = append(lines, line{"k": "end", "n": len(lines), "sampled": maxCuts > 0 && len(cuts) < len(data) || only >= 0})
	return lines, nil
}

func cutPoints(n, maxCuts int, seed int64) []int {
	all := make([]int, n)
	for i := range all {
		all[i] = i
	}
	if maxCuts <= 0 || n <= maxCuts {
		return all
	}
	// deterministic sample: always the first and last 24 offsets, the rest strided with a seeded phase
	keep := map[int]bool{}
	for i := 0; i < 24; i++ {
		keep[i], keep[n-1-i] = true, true
	}
	step := (n + maxCuts - 49) / (maxCuts - 48)
	for i := int(seed % int64(step)); i < n; i += step {
		keep[i] = true
	}
	out := []int{}
	for i := 0; i < n; i++ {
		if keep[i] {
			out = append(out, i)
		}
	}
	return out
}

// RunCases executes abstract files (ndjson) and writes the trace.
func RunCases(inPath, outPath, dir string, j, maxCuts int, seed int64, only int) error {
	in, err := os.Open(inPath)
	if err != nil {
		return err
	}
	defer in.Close()
	raws := []json.RawMessage{}
	sc := bufio.NewScanner(in)
	sc.Buffer(make([]byte, 1<<20), 1<<28)
	for sc.Scan() {
		if len(bytes.TrimSpace(sc.Bytes())) > 0 {
			raws = append(raws, json.RawMessage(append([]byte{}, sc.Bytes()...)))
		}
	}
	if err := sc.Err(); err != nil {
		return err
	}
	if err := os.MkdirAll(dir, 0o755); err != nil {
		return err
	}
	results := make([][]line, len(raws))
	errs := make([]error, len(raws))
	var wg sync.WaitGroup
	sem := make(chan struct{}, max(1, j))
	for i := range raws {
		wg.Add(1)
		sem <- struct{}{}
		go func(i int) {
			defer wg.Done()
			defer func() { <-sem }()
			results[i], errs[i] = runFile(raws[i], dir, maxCuts, seed, only)
		}(i)
	}
	wg.Wait()
	out, err := os.Create(outPath)
	if err != nil {
		return err
	}
	defer out.Close()
	w := bufio.NewWriterSize(out, 1<<20)
	for i := range results {
		if errs[i] != nil {
			return errs[i]
		}
		for _, ln := range results[i] {
			b, err := json.Marshal(ln)
			if err != nil {
				return err
			}
			w.Write(orderKind(b, ln))
			w.WriteByte('\n')
		}
	}
	return w.Flush()
}

// orderKind puts the "k" field first (the check shards the trace at lines
// starting with {"k":"file").
func orderKind(b []byte, ln line) []byte {
	k, _ := ln["k"].(string)
	rest := make(line, len(ln))
	for key, v := range ln {
		if key != "k" {
			rest[key] = v
		}
	}
	rb, _ := json.Marshal(rest)
	if len(rb) <= 2 {
		return []byte(fmt.Sprintf(`{"k":%q}`, k))
	}
	return append([]byte(fmt.Sprintf(`{"k":%q,`, k)), rb[1:]...)
}
