// Package xanimfam is the executor/projector of the extra-coverage family X07
// (skinned and animated models in glTF).
//
// It EXTENDS the glTF family (harness/gltffam): a case is a gltffam scene
// descriptor plus a pool of skeleton descriptors, a per-model reference to a
// skeleton (pointer identity is under control) with animation sequences, and
// a per-mesh rigging class.  The harness
//
//  1. builds the real gltf.PolyformScene (gltffam.Build, then Joint / Weight
//     attributes, *animation.Skeleton pointers and animation.Sequence values),
//  2. projects the scene through public observers only (gltffam.ProjectScene
//     for "src"; Skeleton.JointCount / Children / RelativePosition /
//     WorldPosition / InverseBindMatrix / Lookup and Sequence.Joint / Frames
//     for "xs"), BEFORE the writer is called,
//  3. runs the real gltf.WriteBinary / gltf.WriteText,
//  4. reads the bytes back with the independent reader of gltffam ("out") and
//     with an independent reading of the "skins" / "animations" tables ("xo"),
//  5. writes one ndjson line {k:"doc", src, out, xs, xo}.
//
// No property logic here: specs/TraceGltfAnim.tla (TLC) judges every line.
package xanimfam

import (
	"strconv"

	"github.com/EliCDavis/polyform/formats/gltf"
	"github.com/EliCDavis/polyform/modeling"
	"github.com/EliCDavis/polyform/modeling/animation"
	"github.com/EliCDavis/vector/vector3"
	"github.com/EliCDavis/vector/vector4"
	"verifharness/gltffam"
)

// DSkel: joints in any order with parent pointers (1-based, 0 = the root; exactly one root,
// par[i] < i+1).  Positions are numerators over the descriptor's Div (vmode "lattice") or
// over 1000 (vmode "float": arbitrary decimals).
type DSkel struct {
	Par []int   `json:"par"`
	Pos [][]int `json:"pos"`
	Ori []int   `json:"ori"` // orientation class of the joint: 0 up=Y fwd=Z (identity), 1 up=X fwd=Z, 2 up=Z fwd=X
}

// DSeq: one animation.Sequence. J = joint of the descriptor (1-based) the sequence names by
// its path; 0 = a path the skeleton does not contain.  Fr = frames [t, x, y, z] (numerators).
type DSeq struct {
	J  int     `json:"j"`
	Fr [][]int `json:"fr"`
}

type DXModel struct {
	Skel  int    `json:"skel"` // 1-based skeleton pool index (pointer identity), 0 = nil
	Anims []DSeq `json:"anims"`
}

type XDesc struct {
	gltffam.Desc
	Skels []DSkel   `json:"skels"`
	XM    []DXModel `json:"xm"` // parallel to models
	JW    []int     `json:"jw"` // parallel to meshes: 0 = no Joint/Weight attributes, k = rigged for joints 0..k-1
	TDiv  int       `json:"tdiv"` // denominator of frame numerators (0 => Div)
	L2    L2Pred    `json:"l2"`   // what the L2 model (specs/GltfAnimWriter.tla) predicts; carried to the trace, compared by TLC
}

// L2Pred: status "" = no prediction (seeded scenes).
type L2Pred struct {
	Status string `json:"status"`
	Nodes  int    `json:"nodes"`
	Skins  int    `json:"skins"`
	Anims  int    `json:"anims"`
}

func (d XDesc) dv() float64 {
	if d.Div == 0 {
		return 8
	}
	return float64(d.Div)
}

func (d XDesc) tdv() float64 {
	if d.TDiv == 0 {
		return d.dv()
	}
	return float64(d.TDiv)
}

func oriDirs(k int) (up, fwd vector3.Float64) {
	switch k {
	case 1:
		return vector3.New(1., 0., 0.), vector3.New(0., 0., 1.)
	case 2:
		return vector3.New(0., 0., 1.), vector3.New(1., 0., 0.)
	}
	return vector3.New(0., 1., 0.), vector3.New(0., 0., 1.)
}

func jointName(i int) string { return "j" + strconv.Itoa(i+1) }

// JointPath is the path ("j1/j3/j4") of descriptor joint i (0-based).
func JointPath(s DSkel, i int) string {
	p := jointName(i)
	for s.Par[i] > 0 {
		i = s.Par[i] - 1
		p = jointName(i) + "/" + p
	}
	return p
}

func buildJoint(s DSkel, i int, dv float64) animation.Joint {
	children := []animation.Joint{}
	for c := range s.Par {
		if s.Par[c] == i+1 {
			children = append(children, buildJoint(s, c, dv))
		}
	}
	up, fwd := oriDirs(s.Ori[i])
	pos := vector3.New(float64(s.Pos[i][0])/dv, float64(s.Pos[i][1])/dv, float64(s.Pos[i][2])/dv)
	return animation.NewJoint(jointName(i), 1, pos, up, fwd, children...)
}

// BuildSkeleton constructs the real skeleton through the public constructors.
func BuildSkeleton(s DSkel, dv float64) *animation.Skeleton {
	sk := animation.NewSkeleton(buildJoint(s, 0, dv))
	return &sk
}

type Built struct {
	gltffam.Built
	Skels []*animation.Skeleton
}

// weight patterns on the quarter lattice, each sums to 1
var weightPatterns = [][4]float64{{1, 0, 0, 0}, {0.5, 0.5, 0, 0}, {0.5, 0.25, 0.25, 0}, {0.25, 0.25, 0.25, 0.25}, {0.75, 0.25, 0, 0}}

// Build constructs the real scene. Every skeleton pool entry is ONE *animation.Skeleton:
// models that name the same pool index share the pointer.
func Build(d XDesc) Built {
	b := Built{Built: gltffam.Build(d.Desc)}
	for mi, k := range d.JW {
		if k <= 0 || mi >= len(b.Meshes) || b.Meshes[mi] == nil {
			continue
		}
		nv := b.Meshes[mi].AttributeLength()
		joints := make([]vector4.Float64, nv)
		weights := make([]vector4.Float64, nv)
		for i := 0; i < nv; i++ {
			joints[i] = vector4.New(float64(i%k), float64((i+1)%k), float64((i+2)%k), float64((i+3)%k))
			w := weightPatterns[i%len(weightPatterns)]
			weights[i] = vector4.New(w[0], w[1], w[2], w[3])
		}
		// same Go object: the pointer identity the scene was built with is kept
		*b.Meshes[mi] = b.Meshes[mi].
			SetFloat4Attribute(modeling.JointAttribute, joints).
			SetFloat4Attribute(modeling.WeightAttribute, weights)
	}
	dv, tdv := d.dv(), d.tdv()
	for _, s := range d.Skels {
		b.Skels = append(b.Skels, BuildSkeleton(s, dv))
	}
	for i := range b.Scene.Models {
		if i >= len(d.XM) {
			break
		}
		xm := d.XM[i]
		if xm.Skel > 0 {
			b.Scene.Models[i].Skeleton = b.Skels[xm.Skel-1]
		}
		for _, q := range xm.Anims {
			path := "ghost"
			if q.J > 0 && xm.Skel > 0 && q.J <= len(d.Skels[xm.Skel-1].Par) {
				path = JointPath(d.Skels[xm.Skel-1], q.J-1)
			} else if q.J > 0 {
				path = jointName(q.J - 1)
			}
			frames := make([]animation.Frame[vector3.Float64], 0, len(q.Fr))
			for _, f := range q.Fr {
				frames = append(frames, animation.NewFrame(float64(f[0])/tdv,
					vector3.New(float64(f[1])/tdv, float64(f[2])/tdv, float64(f[3])/tdv)))
			}
			b.Scene.Models[i].Animations = append(b.Scene.Models[i].Animations, animation.NewSequence(path, frames))
		}
	}
	return b
}

var _ = gltf.PolyformScene{}
