package xanimfam

import (
	"bytes"
	"encoding/binary"
	"encoding/json"
	"math"
	"strconv"

	"github.com/EliCDavis/polyform/formats/gltf"
	"github.com/EliCDavis/polyform/modeling/animation"
	"github.com/EliCDavis/vector/vector3"
	"verifharness/gltffam"
)

// Q is the lattice of the integer images (1/1024); a value that is not on it is flagged.
const Q = 1024

// lat returns x*Q when that is an integer of modest size.
func lat(x float64) (int, bool) {
	v := x * Q
	if math.IsNaN(v) || math.Abs(v) > 1e8 || v != math.Trunc(v) {
		return 0, false
	}
	return int(v), true
}

func lat3(v vector3.Float64, exact *bool) []int {
	out := make([]int, 3)
	for i, x := range []float64{v.X(), v.Y(), v.Z()} {
		q, ok := lat(x)
		out[i] = q
		if !ok {
			*exact = false
		}
	}
	return out
}

// ---------------------------------------------------------------------------
// source side
// ---------------------------------------------------------------------------

type SSkel struct {
	N        int       `json:"n"`
	Children [][]int   `json:"children"` // Skeleton.Children(i), 0-based joint indices (a copy)
	Rel      [][][]int `json:"rel"`      // Skeleton.RelativePosition(i) as doubles (gltffam.F64 chunks per component)
	WorldQ   [][]int   `json:"worldq"`   // Skeleton.WorldPosition(i) * 1024
	NWorld32 [][]int   `json:"nworld32"` // float32 image of -WorldPosition(i)
	Exact    bool      `json:"exact"`    // every world position is on the 1/1024 lattice
	Ibm      [][]int   `json:"ibm"`      // float32 image of Skeleton.InverseBindMatrix(i), column-major (glTF order)
}

type SSeq struct {
	Joint  int     `json:"joint"`  // Skeleton.Lookup(seq.Joint()) ; -1: the skeleton has no such path / no skeleton
	T      []int   `json:"t"`      // float32 image of Frame.Time()
	TExact bool    `json:"texact"` // every time IS a float32 (order of the images = order of the doubles)
	V      [][]int `json:"v"`      // float32 image of Frame.Val()
}

type SXModel struct {
	Skel  int    `json:"skel"` // 1-based index into xs.skels (pointer identity, first occurrence), 0 = nil
	Anims []SSeq `json:"anims"`
}

type XSrc struct {
	Skels  []SSkel   `json:"skels"`
	Models []SXModel `json:"models"` // parallel to src.models
}

func colMajor32(m [16]float64) []int {
	// m is row-major X00..X33 ; glTF stores matrices column by column
	out := make([]int, 16)
	for c := 0; c < 4; c++ {
		for r := 0; r < 4; r++ {
			out[c*4+r] = gltffam.F32(m[r*4+c])
		}
	}
	return out
}

func projectSkeleton(s *animation.Skeleton) SSkel {
	p := SSkel{N: s.JointCount(), Children: [][]int{}, Rel: [][][]int{}, WorldQ: [][]int{}, NWorld32: [][]int{}, Ibm: [][]int{}, Exact: true}
	for i := 0; i < p.N; i++ {
		p.Children = append(p.Children, append([]int{}, s.Children(i)...))
		rel := s.RelativePosition(i)
		p.Rel = append(p.Rel, [][]int{gltffam.F64(rel.X()), gltffam.F64(rel.Y()), gltffam.F64(rel.Z())})
		w := s.WorldPosition(i)
		p.WorldQ = append(p.WorldQ, lat3(w, &p.Exact))
		p.NWorld32 = append(p.NWorld32, []int{gltffam.F32(-w.X()), gltffam.F32(-w.Y()), gltffam.F32(-w.Z())})
		m := s.InverseBindMatrix(i)
		p.Ibm = append(p.Ibm, colMajor32([16]float64{
			m.X00, m.X01, m.X02, m.X03,
			m.X10, m.X11, m.X12, m.X13,
			m.X20, m.X21, m.X22, m.X23,
			m.X30, m.X31, m.X32, m.X33}))
	}
	return p
}

func lookup(s *animation.Skeleton, path string) (idx int) {
	defer func() {
		if r := recover(); r != nil {
			idx = -1
		}
	}()
	if s == nil {
		return -1
	}
	return s.Lookup(path)
}

// ProjectX projects skeletons and sequences of the scene handed to the writer.
func ProjectX(sc gltf.PolyformScene) XSrc {
	x := XSrc{Skels: []SSkel{}, Models: []SXModel{}}
	ids := map[*animation.Skeleton]int{}
	for _, m := range sc.Models {
		xm := SXModel{Anims: []SSeq{}}
		if m.Skeleton != nil {
			id, ok := ids[m.Skeleton]
			if !ok {
				x.Skels = append(x.Skels, projectSkeleton(m.Skeleton))
				id = len(x.Skels)
				ids[m.Skeleton] = id
			}
			xm.Skel = id
		}
		for _, q := range m.Animations {
			sq := SSeq{Joint: lookup(m.Skeleton, q.Joint()), T: []int{}, V: [][]int{}, TExact: true}
			for _, f := range q.Frames() {
				sq.T = append(sq.T, gltffam.F32(f.Time()))
				if float64(float32(f.Time())) != f.Time() {
					sq.TExact = false
				}
				v := f.Val()
				sq.V = append(sq.V, []int{gltffam.F32(v.X()), gltffam.F32(v.Y()), gltffam.F32(v.Z())})
			}
			xm.Anims = append(xm.Anims, sq)
		}
		x.Models = append(x.Models, xm)
	}
	return x
}

// ---------------------------------------------------------------------------
// document side: the "skins" and "animations" tables, read independently
// ---------------------------------------------------------------------------

type OSkin struct {
	Ibm      int     `json:"ibm"`      // accessor index, -1 absent, -9 malformed
	Skeleton int     `json:"skeleton"` // node index, -1 absent
	Joints   []int   `json:"joints"`
	IbmQ     [][]int `json:"ibmq"` // decoded matrices * 1024 ([] when the accessor could not be decoded)
	IbmX     bool    `json:"ibmx"` // every decoded component is on the lattice
}

type OChannel struct {
	Sampler int    `json:"sampler"`
	Node    int    `json:"node"`
	Path    string `json:"path"`
}

type OSampler struct {
	Input  int    `json:"input"`
	Output int    `json:"output"`
	Interp string `json:"interp"` // "" absent (glTF default LINEAR)
}

type OAnim struct {
	Channels []OChannel `json:"channels"`
	Samplers []OSampler `json:"samplers"`
}

type ONodeQ struct {
	TQ []int `json:"tq"` // translation * 1024 (0,0,0 when absent)
	TX bool  `json:"tx"` // on the lattice
}

type XOut struct {
	Skins []OSkin  `json:"skins"`
	Anims []OAnim  `json:"anims"`
	Nodes []ONodeQ `json:"nodes"` // parallel to out.nodes
}

func emptyXOut() XOut { return XOut{Skins: []OSkin{}, Anims: []OAnim{}, Nodes: []ONodeQ{}} }

func obj(v any) map[string]any { m, _ := v.(map[string]any); return m }
func arr(v any) []any          { a, _ := v.([]any); return a }

func num(v any) (float64, bool) {
	n, ok := v.(json.Number)
	if !ok {
		return 0, false
	}
	f, err := strconv.ParseFloat(string(n), 64)
	return f, err == nil
}

func geti(m map[string]any, k string, def int) int {
	v, present := m[k]
	if !present {
		return def
	}
	f, ok := num(v)
	if !ok || f != math.Trunc(f) || math.Abs(f) > math.MaxInt32 {
		return -9
	}
	return int(f)
}

func ints(v any) []int {
	out := []int{}
	for _, e := range arr(v) {
		f, ok := num(e)
		if !ok || f != math.Trunc(f) || math.Abs(f) > math.MaxInt32 {
			out = append(out, -9)
		} else {
			out = append(out, int(f))
		}
	}
	return out
}

func gets(m map[string]any, k string) string { s, _ := m[k].(string); return s }

// jsonOf cuts the JSON text out of the file (GLB: first chunk).
func jsonOf(kind string, file []byte) []byte {
	if kind != "glb" {
		return file
	}
	if len(file) < 20 {
		return nil
	}
	n := int(binary.LittleEndian.Uint32(file[12:]))
	if n < 0 || 20+n > len(file) {
		return nil
	}
	return file[20 : 20+n]
}

// ParseX reads the skin / animation tables; base is what gltffam.Parse found in the same bytes
// (its decoded accessors are reused for the lattice images).
func ParseX(kind string, file []byte, base gltffam.Out) XOut {
	x := emptyXOut()
	dec := json.NewDecoder(bytes.NewReader(jsonOf(kind, file)))
	dec.UseNumber()
	var rootAny any
	if dec.Decode(&rootAny) != nil {
		return x
	}
	root := obj(rootAny)
	for _, sv := range arr(root["skins"]) {
		s := obj(sv)
		sk := OSkin{Ibm: geti(s, "inverseBindMatrices", -1), Skeleton: geti(s, "skeleton", -1), Joints: ints(s["joints"]), IbmQ: [][]int{}, IbmX: true}
		if sk.Ibm >= 0 && sk.Ibm < len(base.Accs) && base.Accs[sk.Ibm].Full && base.Accs[sk.Ibm].Comp == 5126 {
			for _, row := range base.Accs[sk.Ibm].Vals {
				q := make([]int, len(row))
				for i, b := range row {
					v, ok := lat(float64(math.Float32frombits(uint32(int32(b)))))
					q[i] = v
					if !ok {
						sk.IbmX = false
					}
				}
				sk.IbmQ = append(sk.IbmQ, q)
			}
		}
		x.Skins = append(x.Skins, sk)
	}
	for _, av := range arr(root["animations"]) {
		a := obj(av)
		oa := OAnim{Channels: []OChannel{}, Samplers: []OSampler{}}
		for _, cv := range arr(a["channels"]) {
			c := obj(cv)
			t := obj(c["target"])
			oa.Channels = append(oa.Channels, OChannel{Sampler: geti(c, "sampler", -1), Node: geti(t, "node", -1), Path: gets(t, "path")})
		}
		for _, sv := range arr(a["samplers"]) {
			s := obj(sv)
			oa.Samplers = append(oa.Samplers, OSampler{Input: geti(s, "input", -1), Output: geti(s, "output", -1), Interp: gets(s, "interpolation")})
		}
		x.Anims = append(x.Anims, oa)
	}
	for _, nv := range arr(root["nodes"]) {
		n := obj(nv)
		nq := ONodeQ{TQ: []int{0, 0, 0}, TX: true}
		if t := arr(n["translation"]); t != nil {
			if len(t) != 3 {
				nq.TX = false
			} else {
				for i, e := range t {
					f, ok := num(e)
					q, ok2 := lat(f)
					nq.TQ[i] = q
					if !ok || !ok2 {
						nq.TX = false
					}
				}
			}
		}
		x.Nodes = append(x.Nodes, nq)
	}
	return x
}
