package xanimfam

import (
	"bufio"
	"bytes"
	"encoding/json"
	"fmt"
	"os"

	"verifharness/gltffam"
)

type docLine struct {
	K    string      `json:"k"`
	C    int         `json:"c"`
	Tag  string      `json:"tag"`
	Kind string      `json:"kind"`
	Src  gltffam.Src `json:"src"`
	Out  gltffam.Out `json:"out"`
	XS   XSrc        `json:"xs"`
	XO   XOut        `json:"xo"`
	L2   L2Pred      `json:"l2"`
}

func emptyOut(status, msg, cont string) gltffam.Out {
	return gltffam.Out{Status: status, Err: msg, Buffers: []gltffam.OBuf{}, Views: []gltffam.OView{}, Accs: []gltffam.OAcc{},
		Meshes: []gltffam.OMesh{}, Nodes: []gltffam.ONode{}, Scene: -1, Scenes: [][]int{}, Mats: []gltffam.OMat{}, Texs: []gltffam.OTex{},
		Images: []gltffam.OImg{}, Samplers: []gltffam.OSamp{}, Lights: []gltffam.OLight{}, ExtUsed: []string{}, ExtReq: []string{},
		ExtSeen: []string{}, Cont: gltffam.Cont{BinLen: -1, Kind: cont}}
}

// RunOne executes one descriptor for one kind ("glb" | "text" | "glb-again" | "text-again":
// the "-again" kinds hand the SAME scene objects -- skeleton pointers included -- to the
// writer a second time and observe the second file).
func RunOne(c int, d XDesc, kind string) docLine {
	b := Build(d)
	cont, again := gltffam.Container(kind)
	// projected BEFORE any call into the writer: the scene as its owner built it
	line := docLine{K: "doc", C: c, Tag: d.Tag, Kind: kind, Src: gltffam.ProjectScene(b.Scene), XS: ProjectX(b.Scene), XO: emptyXOut(), L2: d.L2}
	if again {
		other := "glb"
		if cont == "glb" {
			other = "text"
		}
		gltffam.WriteReal(b.Scene, other)
	}
	data, status, msg := gltffam.WriteReal(b.Scene, cont)
	if status != "OK" {
		line.Out = emptyOut(status, msg, cont)
		return line
	}
	line.Out = gltffam.Parse(cont, data)
	if line.Out.Status == "OK" {
		line.XO = ParseX(cont, data, line.Out)
	}
	return line
}

func RunCases(in, out string) error {
	fi, err := os.Open(in)
	if err != nil {
		return err
	}
	defer fi.Close()
	fo, err := os.Create(out)
	if err != nil {
		return err
	}
	defer fo.Close()
	w := bufio.NewWriterSize(fo, 1<<20)
	defer w.Flush()
	enc := json.NewEncoder(w)
	sc := bufio.NewScanner(fi)
	sc.Buffer(make([]byte, 1<<20), 1<<28)
	c := 0
	for sc.Scan() {
		if len(sc.Bytes()) == 0 {
			continue
		}
		var d XDesc
		if err := json.Unmarshal(sc.Bytes(), &d); err != nil {
			return fmt.Errorf("case %d: %w", c, err)
		}
		kinds := d.Kinds
		if len(kinds) == 0 {
			kinds = []string{"glb", "text"}
		}
		for _, k := range kinds {
			if err := enc.Encode(RunOne(c, d, k)); err != nil {
				return err
			}
		}
		c++
	}
	return sc.Err()
}

// Dump writes the real bytes of one case (debugging / replay aid).
func Dump(in, kind, out string) error {
	raw, err := os.ReadFile(in)
	if err != nil {
		return err
	}
	var d XDesc
	if err := json.Unmarshal(bytes.TrimSpace(raw), &d); err != nil {
		return err
	}
	cont, _ := gltffam.Container(kind)
	data, status, msg := gltffam.WriteReal(Build(d).Scene, cont)
	if status != "OK" {
		return fmt.Errorf("%s: %s", status, msg)
	}
	return os.WriteFile(out, data, 0o644)
}
