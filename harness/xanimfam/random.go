package xanimfam

import (
	"bufio"
	"encoding/json"
	"math/rand"
	"os"

	"verifharness/gltffam"
)

// seeded scenes at sizes TLC does not enumerate: skeletons of up to maxj joints and any shape,
// up to maxf key frames, non-dyadic positions (div 1000), several skeletons / animated models.
// Nothing here knows what the writer should do with them.

func randSkel(r *rand.Rand, maxj int, oriented bool) DSkel {
	n := 1 + r.Intn(maxj)
	s := DSkel{Par: make([]int, n), Pos: make([][]int, n), Ori: make([]int, n)}
	shape := r.Intn(3) // 0 any tree, 1 chain, 2 star
	for i := 0; i < n; i++ {
		switch {
		case i == 0:
			s.Par[i] = 0
		case shape == 1:
			s.Par[i] = i
		case shape == 2:
			s.Par[i] = 1
		default:
			s.Par[i] = 1 + r.Intn(i)
		}
		s.Pos[i] = []int{r.Intn(161) - 80, r.Intn(161) - 80, r.Intn(161) - 80}
		if oriented && r.Intn(3) == 0 {
			s.Ori[i] = 1 + r.Intn(2)
		}
	}
	return s
}

func randSeq(r *rand.Rand, nj, maxf int) DSeq {
	q := DSeq{J: 1 + r.Intn(nj), Fr: [][]int{}}
	nf := 1 + r.Intn(maxf)
	if r.Intn(4) == 0 {
		nf = 1
	}
	t := r.Intn(3) * r.Intn(9)
	for k := 0; k < nf; k++ {
		q.Fr = append(q.Fr, []int{t, r.Intn(257) - 128, r.Intn(257) - 128, r.Intn(257) - 128})
		t += 1 + r.Intn(16)
	}
	return q
}

func noTrs() gltffam.DTrs { return gltffam.DTrs{T: []int{}, R: []int{}, S: []int{}, Sp: []gltffam.DSpecial{}} }

func randScene(r *rand.Rand, i, maxv, maxj, maxf int) XDesc {
	d := XDesc{Desc: gltffam.Desc{Tag: "seeded", VMode: "lattice", Div: 8, Meshes: []gltffam.DMesh{}, Texs: []gltffam.DTex{},
		Mats: []gltffam.DMat{}, Models: []gltffam.DModel{}, Lights: []gltffam.DLight{}, Kinds: []string{}, Risk: []string{}},
		Skels: []DSkel{}, XM: []DXModel{}, JW: []int{}, TDiv: 64}
	if r.Intn(3) == 0 {
		d.Div = 1000 // positions become decimals that are no float32
		d.VMode = "float"
	}
	oriented := r.Intn(8) == 0
	if oriented {
		d.Tag = "seeded-oriented"
	}
	for k, n := 0, 1+r.Intn(3); k < n; k++ {
		d.Skels = append(d.Skels, randSkel(r, maxj, oriented))
	}
	for k, n := 0, 1+r.Intn(4); k < n; k++ {
		m := gltffam.DMesh{Topo: "triangle", Nv: 3 + r.Intn(maxv-2), Idx: []int{}, Attrs: []gltffam.DAttr{{Ar: 3, Id: 1}}, VSeed: r.Intn(1000),
			Spec: []gltffam.DSpecial{}}
		if r.Intn(4) == 0 {
			m.Topo = "point"
			m.Ni = 1 + r.Intn(2*m.Nv)
		} else {
			m.Ni = 3 * (1 + r.Intn(m.Nv))
		}
		if r.Intn(2) == 0 {
			m.Attrs = append(m.Attrs, gltffam.DAttr{Ar: 3, Id: 2})
		}
		if r.Intn(3) == 0 {
			m.Attrs = append(m.Attrs, gltffam.DAttr{Ar: 2, Id: 4})
		}
		if r.Intn(12) == 0 {
			m.Ni = 0 // an empty mesh: the model is skipped, with whatever skeleton / sequences it carries
		}
		d.Meshes = append(d.Meshes, m)
		d.JW = append(d.JW, r.Intn(4))
	}
	invalid := r.Intn(12) == 0
	for k, n := 0, 1+r.Intn(5); k < n; k++ {
		mi := r.Intn(len(d.Meshes))
		dm := gltffam.DModel{Name: r.Intn(3), Mesh: mi + 1, Trs: noTrs(), Inst: []gltffam.DTrs{}}
		if r.Intn(3) == 0 {
			dm.Trs.T = []int{r.Intn(41) - 20, r.Intn(41) - 20, r.Intn(41) - 20}
		}
		xm := DXModel{Anims: []DSeq{}}
		if d.JW[mi] > 0 && r.Intn(4) != 0 {
			// a skeleton with at least as many joints as the mesh is rigged for
			cands := []int{}
			for si, s := range d.Skels {
				if len(s.Par) >= d.JW[mi] {
					cands = append(cands, si+1)
				}
			}
			if len(cands) > 0 {
				xm.Skel = cands[r.Intn(len(cands))]
			}
		}
		if xm.Skel > 0 && r.Intn(3) != 0 {
			for q, nq := 0, 1+r.Intn(3); q < nq; q++ {
				xm.Anims = append(xm.Anims, randSeq(r, len(d.Skels[xm.Skel-1].Par), maxf))
			}
		}
		d.Models = append(d.Models, dm)
		d.XM = append(d.XM, xm)
	}
	if invalid {
		d.Tag = "seeded-invalid"
		// one model gets a sequence the format cannot carry (or sequences without a skeleton)
		k := r.Intn(len(d.XM))
		xm := &d.XM[k]
		nj := 1
		if xm.Skel > 0 {
			nj = len(d.Skels[xm.Skel-1].Par)
		}
		q := randSeq(r, nj, 4)
		switch r.Intn(6) {
		case 0:
			q.J = 0 // a path the skeleton does not have
		case 1:
			q.Fr = [][]int{}
		case 2:
			q.Fr = append(q.Fr, append([]int{}, q.Fr[len(q.Fr)-1]...)) // the last time twice
		case 3:
			q.Fr = append(q.Fr, []int{q.Fr[0][0] - 1 - r.Intn(3), 1, 2, 3}) // goes back in time
			if q.Fr[len(q.Fr)-1][0] < 0 {
				q.Fr[len(q.Fr)-1][0] = 0
				q.Fr[0][0] = 5
			}
		case 4:
			q.Fr[0][0] = -1 - r.Intn(8)
		case 5:
			xm.Skel = 0 // sequences without a skeleton
		}
		xm.Anims = append(xm.Anims, q)
	}
	if r.Intn(20) == 0 {
		// a skeleton meets a mesh that is not rigged for it: no Joint / Weight at all, or joints it does not have
		d.Tag = "seeded-unrigged"
		k := r.Intn(len(d.XM))
		mi := d.Models[k].Mesh - 1
		if r.Intn(2) == 0 {
			d.JW[mi] = 0
		} else {
			d.JW[mi] = 3
			d.Skels = append(d.Skels, DSkel{Par: []int{0, 1}, Pos: [][]int{{0, 8, 0}, {8, 8, 0}}, Ori: []int{0, 0}})
		}
		if d.XM[k].Skel == 0 || d.JW[mi] == 3 {
			d.XM[k].Skel = len(d.Skels)
			d.XM[k].Anims = []DSeq{}
		}
	}
	if r.Intn(3) == 0 {
		d.Lights = append(d.Lights, gltffam.DLight{Type: 2, Col: 1, Inten: -1, Range: -1, Pos: []int{8, 0, -8}})
	}
	switch i % 8 {
	case 3:
		d.Kinds = []string{"glb", "text", "glb-again"}
	case 7:
		d.Kinds = []string{"glb", "text", "text-again"}
	}
	return d
}

// GenRandom writes n seeded scene descriptors.
func GenRandom(out string, seed int64, n, maxv, maxj, maxf int) error {
	f, err := os.Create(out)
	if err != nil {
		return err
	}
	defer f.Close()
	w := bufio.NewWriter(f)
	defer w.Flush()
	enc := json.NewEncoder(w)
	r := rand.New(rand.NewSource(seed*7919 + 17))
	for i := 0; i < n; i++ {
		if err := enc.Encode(randScene(r, i, maxv, maxj, maxf)); err != nil {
			return err
		}
	}
	return nil
}
