package httpfam

import (
	"archive/zip"
	"bufio"
	"bytes"
	"encoding/json"
	"fmt"
	"io"
	"math/rand"
	"net/http"
	"net/http/httptest"
	"os"
	"runtime"
	"strconv"
	"sync"
	"sync/atomic"
	"time"

	"github.com/EliCDavis/polyform/generator"
	"github.com/EliCDavis/polyform/generator/artifact"
	"github.com/EliCDavis/polyform/generator/parameter"
	"github.com/EliCDavis/polyform/nodes"
)

// --------------------------------------------------------------------------
// Response write phase (specs/HttpResp.tla, judged by TraceHttpResp.tla).
// Requests are served by the real mux into GATED ResponseWriters: every
// ResponseWriter.Write blocks on a cooperative scheduler before it looks at
// the bytes (as a socket whose peer reads late), so the TLC-generated schedule
// decides which request's pending Write proceeds next. Artifacts are streams
// of 16-byte records "<producer letter><version %04d><record %010d>\n", so a
// body is projected losslessly to runs (producer, version, first record,
// count): a complete unmixed artifact is exactly one run.
// --------------------------------------------------------------------------

const respRec = 16

type BlobArt struct{ P, V, Size, Wsz int }

func (BlobArt) Mime() string { return "application/octet-stream" }

func blobBytes(p, v, from, to int) []byte { // bytes [from, to) of the artifact
	out := make([]byte, 0, to-from)
	for off := from - from%respRec; off < to; off += respRec {
		rec := fmt.Sprintf("%c%04d%010d\n", 'a'+p-1, v%10000, off/respRec)
		lo, hi := 0, respRec
		if off < from {
			lo = from - off
		}
		if off+respRec > to {
			hi = to - off
		}
		out = append(out, rec[lo:hi]...)
	}
	return out
}

func (a BlobArt) Write(w io.Writer) error {
	step := a.Wsz
	if step <= 0 {
		step = a.Size
	}
	for off := 0; off < a.Size; off += step {
		end := off + step
		if end > a.Size {
			end = a.Size
		}
		if _, err := w.Write(blobBytes(a.P, a.V, off, end)); err != nil {
			return err
		}
	}
	return nil
}

type BlobData struct {
	P, Size, Wsz int
	Ver          nodes.NodeOutput[int]
}

func (d BlobData) Process() (artifact.Artifact, error) {
	return BlobArt{P: d.P, V: d.Ver.Value(), Size: d.Size, Wsz: d.Wsz}, nil
}

type BlobNode = nodes.Struct[artifact.Artifact, BlobData]

type RespOp struct {
	Op string `json:"op"` // upd | get | zip
	P  int    `json:"p"`
	V  int    `json:"v"`
}

type RespCase struct {
	Progs [][]RespOp `json:"progs"`
	Sched []int      `json:"sched"`
	Size  []int      `json:"size"` // bytes of producer 1, 2
	Wsz   int        `json:"wsz"`  // bytes per Write call of the artifact
	Mode  string     `json:"mode"` // directed | free
	Seed  int64      `json:"seed"`
	Tag   string     `json:"tag,omitempty"`
}

type respRun struct {
	P int `json:"p"` // producer, 0 = bytes that are no record
	V int `json:"v"`
	I int `json:"i"` // first record
	N int `json:"n"` // records (P = 0: bytes)
}

type respLine struct {
	K    string    `json:"k"`
	H    int       `json:"h"`
	C    int       `json:"c"`
	Op   string    `json:"op"`
	P    int       `json:"p"`
	V    int       `json:"v"`
	St   int       `json:"st"`
	Len  int       `json:"len"`
	CL   int       `json:"cl"`   // Content-Length header, -1 if absent / not a number
	Wr   int       `json:"wr"`   // Write calls seen by the ResponseWriter
	Runs []respRun `json:"runs"` // get: the body; zip: entry of producer 1 then entry of producer 2
	Size []int     `json:"size"`
	NC   int       `json:"nc"`
	Init int       `json:"init"`
	Note string    `json:"note"`
}

func projectRuns(b []byte) []respRun {
	runs := []respRun{}
	junk := func(n int) {
		if len(runs) > 0 && runs[len(runs)-1].P == 0 {
			runs[len(runs)-1].N += n
		} else {
			runs = append(runs, respRun{P: 0, N: n})
		}
	}
	for off := 0; off < len(b); {
		if off+respRec <= len(b) {
			r := b[off : off+respRec]
			v, e1 := strconv.Atoi(string(r[1:5]))
			i, e2 := strconv.Atoi(string(r[5:15]))
			if r[0] >= 'a' && r[0] <= 'z' && e1 == nil && e2 == nil && r[15] == '\n' {
				p := int(r[0]-'a') + 1
				if k := len(runs) - 1; k >= 0 && runs[k].P == p && runs[k].V == v && runs[k].I+runs[k].N == i {
					runs[k].N++
				} else {
					runs = append(runs, respRun{P: p, V: v, I: i, N: 1})
				}
				off += respRec
				continue
			}
		}
		junk(1)
		off++
	}
	return runs
}

// ---- gates ----

func respGoid() int64 {
	var buf [64]byte
	n := runtime.Stack(buf[:], false)
	var id int64
	for _, c := range buf[len("goroutine "):n] {
		if c < '0' || c > '9' {
			break
		}
		id = id*10 + int64(c-'0')
	}
	return id
}

type respEvent struct {
	client int
	kind   string
}

type respGates struct {
	mu      sync.Mutex
	open    bool
	jitter  *rand.Rand
	clients map[int64]int
	events  chan respEvent
	release map[int]chan struct{}
}

func (g *respGates) hit() {
	g.mu.Lock()
	if g.open {
		r := -1
		if g.jitter != nil {
			r = g.jitter.Intn(6)
		}
		g.mu.Unlock()
		switch r {
		case 0:
			time.Sleep(100 * time.Microsecond)
		case 1, 2:
			runtime.Gosched()
		}
		return
	}
	c, ok := g.clients[respGoid()]
	if !ok {
		g.mu.Unlock()
		return
	}
	ch := g.release[c]
	g.mu.Unlock()
	g.events <- respEvent{c, "gate"}
	<-ch
}

type gatedRW struct {
	g    *respGates
	mu   sync.Mutex
	hdr  http.Header
	code int
	body bytes.Buffer
	wr   int
}

func (w *gatedRW) Header() http.Header { return w.hdr }
func (w *gatedRW) WriteHeader(c int) {
	w.mu.Lock()
	if w.code == 0 {
		w.code = c
	}
	w.mu.Unlock()
}
func (w *gatedRW) Write(p []byte) (int, error) {
	w.g.hit() // the peer takes the bytes when the scheduler says so; p is read after that
	w.mu.Lock()
	defer w.mu.Unlock()
	if w.code == 0 {
		w.code = 200
	}
	w.wr++
	return w.body.Write(p)
}

type respSystem struct {
	h     http.Handler
	pid   string
	gates *respGates
}

func newRespSystem(cs RespCase) (*respSystem, error) {
	ver := &parameter.Value[int]{Name: "ver", DefaultValue: 1}
	files := map[string]nodes.NodeOutput[artifact.Artifact]{}
	for p := 1; p <= 2; p++ {
		n := &BlobNode{Data: BlobData{P: p, Size: cs.Size[p-1], Wsz: cs.Wsz, Ver: ver.Out()}}
		files[string(rune('a'+p-1))+".bin"] = n.Out()
	}
	app := &generator.App{Name: "verif", Version: "1", Description: "http responses", Files: files}
	h, err := app.VerifHandler("")
	if err != nil {
		return nil, err
	}
	g := &respGates{open: true, clients: map[int64]int{}, events: make(chan respEvent, 4096), release: map[int]chan struct{}{}}
	return &respSystem{h: h, pid: app.VerifGraph().NodeId(ver), gates: g}, nil
}

func (s *respSystem) call(op RespOp, ln *respLine) {
	var req *http.Request
	switch op.Op {
	case "upd":
		req = httptest.NewRequest("POST", "http://verif.local/parameter/value/"+s.pid, bytes.NewReader([]byte(strconv.Itoa(op.V))))
	case "get":
		req = httptest.NewRequest("GET", "http://verif.local/producer/value/"+string(rune('a'+op.P-1))+".bin", nil)
	default:
		req = httptest.NewRequest("GET", "http://verif.local/zip", nil)
	}
	w := &gatedRW{g: s.gates, hdr: http.Header{}}
	func() {
		defer func() {
			if r := recover(); r != nil {
				w.mu.Lock()
				w.code = -1
				w.mu.Unlock()
				ln.Note = fmt.Sprintf("panic: %.200v", r)
			}
		}()
		s.h.ServeHTTP(w, req)
	}()
	w.mu.Lock()
	defer w.mu.Unlock()
	body := append([]byte{}, w.body.Bytes()...)
	ln.St, ln.Len, ln.Wr, ln.CL = w.code, len(body), w.wr, -1
	if ln.St == 0 {
		ln.St = 200
	}
	if v := w.hdr.Get("Content-Length"); v != "" {
		if n, err := strconv.Atoi(v); err == nil {
			ln.CL = n
		} else {
			ln.CL = -2
		}
	}
	switch op.Op {
	case "get":
		ln.Runs = projectRuns(body)
	case "zip":
		ln.Runs = []respRun{}
		zr, err := zip.NewReader(bytes.NewReader(body), int64(len(body)))
		if err != nil {
			ln.Runs = append(ln.Runs, respRun{P: 0, N: len(body)})
			ln.Note = "not a zip archive"
			return
		}
		for p := 1; p <= 2; p++ {
			name := string(rune('a'+p-1)) + ".bin"
			found := false
			for _, f := range zr.File {
				if f.Name != name {
					continue
				}
				found = true
				rc, err := f.Open()
				if err != nil {
					ln.Runs = append(ln.Runs, respRun{P: 0, N: 1})
					continue
				}
				data, err := io.ReadAll(rc)
				rc.Close()
				ln.Runs = append(ln.Runs, projectRuns(data)...)
				if err != nil { // checksum / truncated entry
					ln.Runs = append(ln.Runs, respRun{P: 0, N: 1})
				}
			}
			if !found {
				ln.Runs = append(ln.Runs, respRun{P: 0, N: 0})
			}
		}
	}
}

type respRecorder struct {
	mu    sync.Mutex
	lines []respLine
}

func (r *respRecorder) add(l respLine) {
	r.mu.Lock()
	r.lines = append(r.lines, l)
	r.mu.Unlock()
}

func runRespCase(h int, cs RespCase) ([]respLine, error) {
	if len(cs.Size) != 2 {
		return nil, fmt.Errorf("case %d: size must name two producers", h)
	}
	sys, err := newRespSystem(cs)
	if err != nil {
		return nil, err
	}
	rec := &respRecorder{}
	nc := len(cs.Progs)
	rec.add(respLine{K: "reset", H: h, NC: nc, Size: cs.Size, Init: 1})
	g := sys.gates
	directed := cs.Mode != "free"
	g.mu.Lock()
	g.open = !directed
	if !directed {
		g.jitter = rand.New(rand.NewSource(cs.Seed))
	}
	g.mu.Unlock()
	start := make([]chan struct{}, nc+1)
	var freeRun atomic.Bool
	freeRun.Store(!directed)
	var wg sync.WaitGroup
	for c := 1; c <= nc; c++ {
		start[c] = make(chan struct{}, len(cs.Progs[c-1])+1)
		g.release[c] = make(chan struct{}, 256)
		wg.Add(1)
		go func(c int) {
			defer wg.Done()
			g.mu.Lock()
			g.clients[respGoid()] = c
			g.mu.Unlock()
			for _, op := range cs.Progs[c-1] {
				if !freeRun.Load() {
					<-start[c]
				}
				rec.add(respLine{K: "inv", H: h, C: c, Op: op.Op, P: op.P, V: op.V})
				ln := respLine{K: "resp", H: h, C: c, Op: op.Op, P: op.P, V: op.V}
				sys.call(op, &ln)
				rec.add(ln)
				if directed {
					g.events <- respEvent{c, "opdone"}
				}
			}
		}(c)
	}
	if directed {
		state := make([]string, nc+1)
		next := make([]int, nc+1)
		for c := 1; c <= nc; c++ {
			state[c] = "idle"
		}
		absorb := func(ev respEvent) {
			if ev.kind == "gate" {
				state[ev.client] = "gate"
			} else if next[ev.client] >= len(cs.Progs[ev.client-1]) {
				state[ev.client] = "fin"
			} else {
				state[ev.client] = "idle"
			}
		}
		waitFor := func(c int) {
			deadline := time.After(25 * time.Millisecond)
			for {
				select {
				case ev := <-g.events:
					absorb(ev)
					if ev.client == c {
						return
					}
				case <-deadline:
					return // c is blocked on a lock of the server: an outcome, not an error
				}
			}
		}
		for _, c := range cs.Sched {
			if c < 1 || c > nc {
				continue
			}
			for drained := false; !drained; {
				select {
				case ev := <-g.events:
					absorb(ev)
				default:
					drained = true
				}
			}
			switch state[c] {
			case "idle":
				if next[c] < len(cs.Progs[c-1]) {
					next[c]++
					state[c] = "running"
					start[c] <- struct{}{}
					waitFor(c)
				}
			case "gate":
				state[c] = "running"
				g.release[c] <- struct{}{}
				waitFor(c)
			}
		}
		freeRun.Store(true)
		g.mu.Lock()
		g.open = true
		g.mu.Unlock()
		for c := 1; c <= nc; c++ {
			for k := 0; k < len(cs.Progs[c-1])+1; k++ {
				select {
				case start[c] <- struct{}{}:
				default:
				}
			}
			for k := 0; k < 128; k++ {
				select {
				case g.release[c] <- struct{}{}:
				default:
				}
			}
		}
	}
	fin := make(chan struct{})
	go func() { wg.Wait(); close(fin) }()
	timeout := time.After(20 * time.Second)
	for done := false; !done; {
		select {
		case <-fin:
			done = true
		case <-g.events:
		case <-timeout:
			rec.add(respLine{K: "hang", H: h, Note: "requests did not finish after all gates were opened"})
			done = true
		}
	}
	rec.mu.Lock()
	defer rec.mu.Unlock()
	return append([]respLine{}, rec.lines...), nil
}

// RunResp executes response-phase cases (ndjson) and writes the histories.
func RunResp(in, out string) error {
	quiet()
	fi, err := os.Open(in)
	if err != nil {
		return err
	}
	defer fi.Close()
	fo, err := os.Create(out)
	if err != nil {
		return err
	}
	defer fo.Close()
	w := bufio.NewWriterSize(fo, 1<<20)
	defer w.Flush()
	enc := json.NewEncoder(w)
	sc := bufio.NewScanner(fi)
	sc.Buffer(make([]byte, 1<<20), 1<<26)
	h := 0
	for sc.Scan() {
		if len(sc.Bytes()) == 0 {
			continue
		}
		var cs RespCase
		if err := json.Unmarshal(sc.Bytes(), &cs); err != nil {
			return fmt.Errorf("case %d: %w", h, err)
		}
		lines, err := runRespCase(h, cs)
		if err != nil {
			return err
		}
		for _, l := range lines {
			if l.Runs == nil {
				l.Runs = []respRun{}
			}
			if l.Size == nil {
				l.Size = []int{}
			}
			if err := enc.Encode(l); err != nil {
				return err
			}
		}
		h++
	}
	return sc.Err()
}
