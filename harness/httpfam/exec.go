// Package httpfam drives the editor's HTTP API (generator.AppServer.Handler,
// obtained through the verif hook App.VerifHandler) in-process with
// net/http/httptest and projects what happened: status, response body,
// application graph, autosaved file. It only executes and projects; the
// judgement is specs/TraceHttpEdit.tla (X04).
package httpfam

import (
	"archive/zip"
	"bufio"
	"bytes"
	"encoding/json"
	"fmt"
	"io"
	"log"
	"net/http"
	"net/http/httptest"
	"os"
	"path/filepath"
	"sort"
	"strconv"
	"strings"

	"github.com/EliCDavis/polyform/generator"
	"github.com/EliCDavis/polyform/generator/graph"

	"verifharness/graphfam" // GraphEdit abstraction tables; registers the harness node types
)

// Req is a request of specs/HttpEdit.tla.
type Req struct {
	Kind string `json:"kind"`
	A    int    `json:"a"`
	B    int    `json:"b"`
	C    int    `json:"c"`
	Flaw string `json:"flaw"`
	Fv   int    `json:"fv"`
	M    string `json:"m"`
	Path string `json:"path"`
	// concurrent cases only: the node types (and array length) the generator assumed for a / b, so that the
	// body does not depend on harness-side state that other clients are changing (0 = take it from the view)
	Ta int `json:"ta"`
	Tb int `json:"tb"`
	N  int `json:"n"`
	// concurrent cases only: the issuing client
	Cl int `json:"cl"`
}

type History struct {
	Steps []Req  `json:"steps"`
	Tag   string `json:"tag,omitempty"`
	// Skip: the first Skip steps are executed but not logged (a prelude that another history of the same
	// run logs step by step); a "base" line then carries the state reached, on which the judge synchronises
	Skip int `json:"skip,omitempty"`
}

type pNode struct {
	Id     int   `json:"id"`
	Type   int   `json:"type"`
	Name   int   `json:"name"`
	Desc   int   `json:"desc"`
	Val    int   `json:"val"`
	Single []int `json:"single"`
	Arr    []int `json:"arr"`
}

type pArt struct {
	Name    int    `json:"name"`
	Content string `json:"content"`
}

// Proj is the projection of an application graph on the GraphEdit model.
type Proj struct {
	Nodes   []pNode `json:"nodes"`
	Prod    [][]int `json:"prod"`
	Meta    [][]int `json:"meta"`
	Arts    []pArt  `json:"arts"`
	Unknown int     `json:"unknown"` // nodes / ports / references the projection could not name
	Cyc     bool    `json:"cyc"`     // the wiring contains a cycle (never evaluated by the harness)
}

func emptyProj() Proj {
	return Proj{Nodes: []pNode{}, Prod: [][]int{}, Meta: [][]int{}, Arts: []pArt{}}
}

// Line is one trace line.
type Line struct {
	K      string `json:"k"`
	H      int    `json:"h"`
	I      int    `json:"i"`
	R      Req    `json:"r"`
	St     int    `json:"st"`     // status code; -1 a panic left the handler; -2 not sent (graph cyclic, would not return)
	Rk     string `json:"rk"`     // empty | json-error | json-object | json-value | raw
	Rid    int    `json:"rid"`    // create: number of the returned node id
	Rtype  int    `json:"rtype"`  // create: type number of the returned node
	Rval   int    `json:"rval"`   // getval / getname: model integer of the returned value
	Rtext  string `json:"rtext"`  // getart: content
	Rg     Proj   `json:"rg"`     // getgraph / getschema: the graph in the response; getzip: arts
	App    Proj   `json:"app"`    // application graph after the request
	Fh     []int  `json:"fh"`     // digest of the autosaved file
	Fok    bool   `json:"fok"`    // the file loads into a fresh application
	File   Proj   `json:"file"`   // that application's graph and artifacts
	Note   string `json:"note"`
	Nbytes int    `json:"nbytes"`
}

// --------------------------------------------------------------------------
// projection
// --------------------------------------------------------------------------

func nodeNumStrict(id string) int {
	if !strings.HasPrefix(id, "Node-") {
		return -7
	}
	return graphfam.GENodeNum(id)
}

func detectCycle(p *Proj) bool {
	adj := map[int][]int{}
	for _, n := range p.Nodes {
		for _, s := range n.Single {
			if s >= 0 {
				adj[n.Id] = append(adj[n.Id], s)
			}
		}
		for _, s := range n.Arr {
			if s >= 0 {
				adj[n.Id] = append(adj[n.Id], s)
			}
		}
	}
	color := map[int]int{}
	var visit func(int) bool
	visit = func(u int) bool {
		color[u] = 1
		for _, v := range adj[u] {
			if color[v] == 1 || (color[v] == 0 && visit(v)) {
				return true
			}
		}
		color[u] = 2
		return false
	}
	for _, n := range p.Nodes {
		if color[n.Id] == 0 && visit(n.Id) {
			return true
		}
	}
	return false
}

type depT struct{ name, id string }

// projectNode fills the wiring of one node from its dependency list.
func projectDeps(p *Proj, n *pNode, deps []depT) {
	type ae struct{ idx, s int }
	arr := []ae{}
	for _, d := range deps {
		s := nodeNumStrict(d.id)
		if s < 0 {
			p.Unknown++
		}
		if dot := strings.Index(d.name, "."); dot >= 0 {
			if d.name[:dot] != graphfam.GEArrPort(n.Type) || graphfam.GEArrPort(n.Type) == "" {
				p.Unknown++
				continue
			}
			k, err := strconv.Atoi(d.name[dot+1:])
			if err != nil {
				p.Unknown++
				continue
			}
			arr = append(arr, ae{k, s})
			continue
		}
		found := false
		for pi, pn := range graphfam.GEPorts(n.Type) {
			if pn == d.name {
				n.Single[pi] = s
				found = true
			}
		}
		if !found {
			p.Unknown++
		}
	}
	sort.SliceStable(arr, func(i, j int) bool { return arr[i].idx < arr[j].idx })
	for _, e := range arr {
		n.Arr = append(n.Arr, e.s)
	}
}

func metaLeaves(md map[string]any) [][]int {
	out := [][]int{}
	for pid := 1; pid <= 3; pid++ {
		cur := any(md)
		ok := true
		for _, part := range strings.Split(graphfam.GEMetaPath(pid), ".") {
			m, isMap := cur.(map[string]any)
			if !isMap {
				ok = false
				break
			}
			nxt, has := m[part]
			if !has {
				ok = false
				break
			}
			cur = nxt
		}
		if ok {
			if f, isNum := cur.(float64); isNum {
				out = append(out, []int{pid, int(f)})
			}
		}
	}
	return out
}

// ProjectApp projects a live application: node table, wiring, producers and metadata as App.Schema()
// describes them (the cheap description: Instance.Schema() also instantiates every registered type), parameter
// names / descriptions / values from the live nodes. No evaluation unless arts.
func ProjectApp(app *generator.App, arts bool) (p Proj) {
	p = emptyProj()
	defer func() {
		if r := recover(); r != nil {
			p.Unknown += 1000 // the application cannot even describe itself
		}
	}()
	inst := app.VerifGraph()
	var doc struct {
		Data struct {
			Producers map[string]struct {
				NodeID string `json:"nodeID"`
				Port   string `json:"port"`
			} `json:"producers"`
			Nodes map[string]struct {
				Type         string `json:"type"`
				Dependencies []struct {
					DependencyID string `json:"dependencyID"`
					Name         string `json:"name"`
				} `json:"dependencies"`
			} `json:"nodes"`
			Metadata map[string]any `json:"metadata"`
		} `json:"data"`
	}
	if err := json.Unmarshal(app.Schema(), &doc); err != nil {
		p.Unknown += 1000
		return p
	}
	ids := make([]string, 0, len(doc.Data.Nodes))
	for id := range doc.Data.Nodes {
		ids = append(ids, id)
	}
	sort.Slice(ids, func(i, j int) bool { return nodeNumStrict(ids[i]) < nodeNumStrict(ids[j]) })
	for _, id := range ids {
		ni := doc.Data.Nodes[id]
		t, ok := graphfam.GETypeId(ni.Type)
		if !ok || nodeNumStrict(id) < 0 {
			p.Unknown++
			continue
		}
		n := pNode{Id: nodeNumStrict(id), Type: t, Single: []int{-1, -1, -1, -1}, Arr: []int{}}
		node := inst.Node(id)
		if t <= 8 {
			if prm, ok := node.(graph.Parameter); ok {
				n.Name = graphfam.GEStrInv("nm", prm.DisplayName())
			}
			n.Desc = graphfam.GEDescInv(node)
			n.Val = graphfam.GEValueInv(node)
		}
		deps := []depT{}
		for _, d := range ni.Dependencies {
			deps = append(deps, depT{d.Name, d.DependencyID})
		}
		projectDeps(&p, &n, deps)
		p.Nodes = append(p.Nodes, n)
	}
	for name, pr := range doc.Data.Producers {
		f := graphfam.GEStrInv("file", strings.TrimSuffix(name, ".txt"))
		if f <= 0 || !strings.HasSuffix(name, ".txt") {
			p.Unknown++
		}
		k := nodeNumStrict(pr.NodeID)
		if k < 0 {
			p.Unknown++
		}
		p.Prod = append(p.Prod, []int{f, k})
	}
	sort.Slice(p.Prod, func(i, j int) bool { return p.Prod[i][0] < p.Prod[j][0] })
	p.Meta = metaLeaves(doc.Data.Metadata)
	p.Cyc = detectCycle(&p)
	if arts && !p.Cyc {
		for _, pr := range p.Prod {
			name := "file" + strconv.Itoa(pr[0]) + ".txt"
			p.Arts = append(p.Arts, pArt{Name: pr[0], Content: evalArt(inst, name)})
		}
	}
	return p
}

func evalArt(inst *graph.Instance, name string) (c string) {
	defer func() {
		if r := recover(); r != nil {
			c = "PANIC"
		}
	}()
	var buf bytes.Buffer
	if err := inst.Artifact(name).Write(&buf); err != nil {
		return "ERR:" + err.Error()
	}
	return buf.String()
}

func reloadApp(data []byte) (app *generator.App, ok bool) {
	defer func() {
		if r := recover(); r != nil {
			ok = false
		}
	}()
	app = &generator.App{}
	app.VerifGraph()
	if err := app.ApplySchema(data); err != nil {
		return app, false
	}
	return app, true
}

// projectSchemaJSON projects the body of GET /schema (schema.GraphInstance as JSON).
func projectSchemaJSON(body []byte) (p Proj, ok bool) {
	p = emptyProj()
	var sch struct {
		Producers map[string]struct {
			NodeID string `json:"nodeID"`
			Port   string `json:"port"`
		} `json:"producers"`
		Nodes map[string]struct {
			Type         string `json:"type"`
			Name         string `json:"name"`
			Dependencies []struct {
				DependencyID string `json:"dependencyID"`
				Name         string `json:"name"`
			} `json:"dependencies"`
			Parameter *struct {
				Name         string          `json:"name"`
				Description  string          `json:"description"`
				CurrentValue json.RawMessage `json:"currentValue"`
			} `json:"parameter"`
		} `json:"nodes"`
	}
	if err := json.Unmarshal(body, &sch); err != nil {
		return p, false
	}
	ids := make([]string, 0, len(sch.Nodes))
	for id := range sch.Nodes {
		ids = append(ids, id)
	}
	sort.Slice(ids, func(i, j int) bool { return nodeNumStrict(ids[i]) < nodeNumStrict(ids[j]) })
	for _, id := range ids {
		ni := sch.Nodes[id]
		t, known := graphfam.GETypeId(ni.Type)
		if !known || nodeNumStrict(id) < 0 {
			p.Unknown++
			continue
		}
		n := pNode{Id: nodeNumStrict(id), Type: t, Single: []int{-1, -1, -1, -1}, Arr: []int{}}
		if t <= 8 {
			if ni.Parameter == nil {
				p.Unknown++
			} else {
				n.Name = graphfam.GEStrInv("nm", ni.Parameter.Name)
				n.Desc = graphfam.GEStrInv("ds", ni.Parameter.Description)
				n.Val = valueFromJSON(t, ni.Parameter.CurrentValue)
			}
		}
		deps := []depT{}
		for _, d := range ni.Dependencies {
			deps = append(deps, depT{d.Name, d.DependencyID})
		}
		projectDeps(&p, &n, deps)
		p.Nodes = append(p.Nodes, n)
	}
	for name, pr := range sch.Producers {
		p.Prod = append(p.Prod, []int{graphfam.GEStrInv("file", strings.TrimSuffix(name, ".txt")), nodeNumStrict(pr.NodeID)})
	}
	sort.Slice(p.Prod, func(i, j int) bool { return p.Prod[i][0] < p.Prod[j][0] })
	p.Cyc = detectCycle(&p)
	return p, true
}

// valueFromJSON maps a parameter message of type t back to the model integer by applying it
// to a scratch parameter node of that type (the same inverse the live projection uses).
func valueFromJSON(t int, raw []byte) (v int) {
	defer func() {
		if r := recover(); r != nil {
			v = -1
		}
	}()
	scratch := &generator.App{}
	inst := scratch.VerifGraph()
	node, _, err := inst.CreateNode(graphfam.GETypeKey(t))
	if err != nil {
		return -1
	}
	prm, ok := node.(graph.Parameter)
	if !ok {
		return -1
	}
	if _, err := prm.ApplyMessage(raw); err != nil {
		return -1
	}
	return graphfam.GEValueInv(node)
}

// --------------------------------------------------------------------------
// one application behind its HTTP handler
// --------------------------------------------------------------------------

type session struct {
	app      *generator.App
	h        http.Handler
	savePath string
	lastGet  []byte // body of the last successful GET /graph (initially the initial file)
	view     Proj   // application graph after the previous request (input construction only)
	fixed    map[int]int // concurrent mode: node -> assumed type for the body under construction
	fixedN   int
}

func newSession(savePath string) (*session, error) {
	app := &generator.App{Name: "verif", Version: "1", Description: "http edit"}
	h, err := app.VerifHandler(savePath)
	if err != nil {
		return nil, err
	}
	s := &session{app: app, h: h, savePath: savePath}
	init := app.Schema()
	if savePath != "" {
		if err := os.WriteFile(savePath, init, 0o666); err != nil {
			return nil, err
		}
	}
	s.lastGet = init
	s.view = ProjectApp(app, false)
	return s, nil
}

func (s *session) typeOf(k int) int {
	if s.fixed != nil {
		return s.fixed[k]
	}
	for _, n := range s.view.Nodes {
		if n.Id == k {
			return n.Type
		}
	}
	return 0
}

func (s *session) arrLen(k int) int {
	if s.fixed != nil {
		return s.fixedN
	}
	for _, n := range s.view.Nodes {
		if n.Id == k {
			return len(n.Arr)
		}
	}
	return 0
}

func portName(t, c int) string {
	ps := graphfam.GEPorts(t)
	if c >= 1 && c <= len(ps) {
		return ps[c-1]
	}
	return "NoSuchPort"
}

func arrPortName(t int) string {
	if p := graphfam.GEArrPort(t); p != "" {
		return p
	}
	return "Values"
}

func mustJSON(v any) []byte {
	b, err := json.Marshal(v)
	if err != nil {
		panic(err)
	}
	return b
}

// routeFallback is used for histories that do not come from TLC (seeded generator): the
// trace specification checks every request line against its own table anyway (RouteOK).
func routeFallback(r *Req) {
	if r.Flaw == "" {
		r.Flaw = "none"
	}
	if r.M != "" {
		return
	}
	switch r.Kind {
	case "delete", "disconnect", "disconnectarr", "delmeta":
		r.M = "DELETE"
	case "getgraph", "getschema", "getval", "getname", "getart", "getstarted", "getzip", "getmermaid", "getswagger":
		r.M = "GET"
	default:
		r.M = "POST"
	}
	metaURL := func(i int) string { return strings.ReplaceAll(graphfam.GEMetaPath(i), ".", "/") }
	switch r.Kind {
	case "create", "delete":
		r.Path = "/node"
	case "connect", "connectarr", "disconnect", "disconnectarr":
		r.Path = "/node/connection"
	case "setval", "getval":
		r.Path = "/parameter/value/" + graphfam.GENodeId(r.A)
	case "setname", "getname":
		r.Path = "/parameter/name/" + graphfam.GENodeId(r.A)
	case "setdesc":
		r.Path = "/parameter/description/" + graphfam.GENodeId(r.A)
	case "setproducer":
		r.Path = "/producer/name/" + graphfam.GENodeId(r.A)
	case "setmeta", "delmeta":
		r.Path = "/graph/metadata/" + metaURL(r.A)
	case "putgraph", "getgraph":
		r.Path = "/graph"
	case "getart":
		r.Path = "/producer/value/file" + strconv.Itoa(r.A) + ".txt"
	default:
		r.Path = "/" + strings.TrimPrefix(r.Kind, "get")
	}
}

// body builds the request body of r (the concrete side of the abstraction: type keys, port
// names, typed parameter messages), including the malformed variants.
func (s *session) body(r Req) ([]byte, error) {
	var proper []byte
	switch r.Kind {
	case "create":
		key := graphfam.GETypeKey(r.A)
		if key == "" {
			key = "verif.NoSuchType"
		}
		proper = mustJSON(map[string]any{"nodeType": key})
		if r.Flaw == "body" && r.Fv == 2 {
			return []byte(`{"nodeType": 5}`), nil
		}
	case "delete":
		proper = mustJSON(map[string]any{"nodeID": graphfam.GENodeId(r.A)})
		if r.Flaw == "body" && r.Fv == 2 {
			return []byte(`{"nodeID": 5}`), nil
		}
	case "connect", "connectarr":
		tb := s.typeOf(r.B)
		in := portName(tb, r.C)
		if r.Kind == "connectarr" {
			in = arrPortName(tb) + "." + strconv.Itoa(s.arrLen(r.B))
		}
		m := map[string]any{"nodeOutId": graphfam.GENodeId(r.A), "outPortName": "Out", "nodeInId": graphfam.GENodeId(r.B), "inPortName": in}
		proper = mustJSON(m)
		if r.Flaw == "body" && r.Fv == 2 {
			m["nodeInId"] = 5
			return mustJSON(m), nil
		}
	case "disconnect", "disconnectarr":
		tb := s.typeOf(r.B)
		in := portName(tb, r.C)
		if r.Kind == "disconnectarr" {
			in = arrPortName(tb) + "." + strconv.Itoa(r.C-1)
		}
		m := map[string]any{"nodeId": graphfam.GENodeId(r.B), "inPortName": in}
		proper = mustJSON(m)
		if r.Flaw == "body" && r.Fv == 2 {
			m["nodeId"] = 5
			return mustJSON(m), nil
		}
	case "setval":
		t := s.typeOf(r.A)
		if t < 1 || t > 8 {
			t = 1
		}
		proper = graphfam.GEValueJSON(t, r.B)
		if r.Flaw == "body" && r.Fv == 2 {
			if t <= 4 {
				return []byte(`{"k":1}`), nil
			}
			return []byte(`true`), nil
		}
	case "setname":
		return []byte(graphfam.GEStrName("nm", r.B)), nil
	case "setdesc":
		return []byte(graphfam.GEStrName("ds", r.B)), nil
	case "setproducer":
		return []byte("file" + strconv.Itoa(r.B) + ".txt"), nil
	case "setmeta":
		proper = []byte(strconv.Itoa(r.B))
	case "putgraph":
		return s.putBody(r)
	default:
		return nil, nil
	}
	if r.Flaw != "body" {
		return proper, nil
	}
	switch r.Fv {
	case 1: // cut
		last := proper[len(proper)-1]
		if last == '}' || last == ']' || last == '"' {
			return proper[:len(proper)-1], nil
		}
		return append([]byte("["), append(proper, ',')...), nil
	case 3:
		return []byte{}, nil
	case 4:
		return []byte("<not json>"), nil
	}
	return nil, fmt.Errorf("no body variant %d for %s", r.Fv, r.Kind)
}

func (s *session) putBody(r Req) ([]byte, error) {
	if r.Flaw != "body" {
		return s.lastGet, nil
	}
	switch r.Fv {
	case 1:
		return s.lastGet[:len(s.lastGet)/2], nil
	case 3:
		return []byte{}, nil
	case 4:
		return []byte("<not json>"), nil
	}
	var doc map[string]any
	if err := json.Unmarshal(s.lastGet, &doc); err != nil {
		return nil, err
	}
	data, _ := doc["data"].(map[string]any)
	nodesM, _ := data["nodes"].(map[string]any)
	ids := make([]string, 0, len(nodesM))
	for id := range nodesM {
		ids = append(ids, id)
	}
	sort.Strings(ids)
	done := false
	for _, id := range ids {
		n, _ := nodesM[id].(map[string]any)
		switch r.Fv {
		case 5: // a node of a type nobody registered
			n["type"] = "verif.NoSuchType"
			done = true
		case 6: // a dependency on a node that is not in the file
			if deps, ok := n["dependencies"].([]any); ok && len(deps) > 0 {
				deps[len(deps)-1].(map[string]any)["dependencyID"] = "Node-777"
				done = true
			}
		case 7: // parameter data of the wrong JSON type
			t, _ := graphfam.GETypeId(fmt.Sprint(n["type"]))
			if d, ok := n["data"].(map[string]any); ok && t >= 1 && t <= 4 {
				d["currentValue"] = map[string]any{"k": 1}
				done = true
			}
		}
		if done {
			break
		}
	}
	if !done {
		return nil, fmt.Errorf("putgraph variant %d not constructible from the last fetched graph", r.Fv)
	}
	return mustJSON(doc), nil
}

func typeIdOf(key string) (int, bool) { return graphfam.GETypeId(key) }
func strInvNm(s string) int           { return graphfam.GEStrInv("nm", s) }

func classifyBody(b []byte) string {
	if len(b) == 0 {
		return "empty"
	}
	var v any
	if err := json.Unmarshal(b, &v); err != nil {
		return "raw"
	}
	if m, ok := v.(map[string]any); ok {
		if e, has := m["error"]; has {
			if _, isStr := e.(string); isStr {
				return "json-error"
			}
		}
		return "json-object"
	}
	return "json-value"
}

// serve sends one request through the handler; a panic leaving the handler is an observation.
func serve(h http.Handler, method, path string, body []byte) (status int, out []byte, note string) {
	defer func() {
		if r := recover(); r != nil {
			status = -1
			out = nil
			note = fmt.Sprintf("panic: %v", r)
			if len(note) > 300 {
				note = note[:300]
			}
		}
	}()
	req := httptest.NewRequest(method, "http://verif.local"+path, bytes.NewReader(body))
	rec := httptest.NewRecorder()
	h.ServeHTTP(rec, req)
	return rec.Code, rec.Body.Bytes(), ""
}

func evaluates(kind string) bool {
	return kind == "getart" || kind == "getzip" || kind == "getswagger"
}

// do executes request r and fills the response part of the line.
func (s *session) do(r Req, ln *Line) error {
	body, err := s.body(r)
	if err != nil {
		return err
	}
	ln.Nbytes = len(body)
	if s.view.Cyc && evaluates(r.Kind) && r.Flaw == "none" {
		ln.St = -2
		ln.Rk = "empty"
		ln.Note = "not sent: the graph is cyclic, an evaluation would not return"
		return nil
	}
	st, out, note := serve(s.h, r.M, r.Path, body)
	ln.St, ln.Note = st, note
	ln.Rk = classifyBody(out)
	if st >= 200 && st < 300 && r.Flaw == "none" {
		fillResponse(ln, r, out, s.typeOf(r.A))
		switch r.Kind {
		case "getgraph":
			s.lastGet = append([]byte{}, out...)
		case "getschema":
			p, parsed := projectSchemaJSON(out)
			if !parsed {
				p.Unknown = 1000
			}
			ln.Rg = p
		case "getzip":
			zr, err := zip.NewReader(bytes.NewReader(out), int64(len(out)))
			if err != nil {
				ln.Rg.Unknown = 1000
				break
			}
			for _, f := range zr.File {
				rc, err := f.Open()
				if err != nil {
					ln.Rg.Unknown++
					continue
				}
				data, _ := io.ReadAll(rc)
				rc.Close()
				ln.Rg.Arts = append(ln.Rg.Arts, pArt{Name: graphfam.GEStrInv("file", strings.TrimSuffix(f.Name, ".txt")), Content: string(data)})
			}
			sort.Slice(ln.Rg.Arts, func(i, j int) bool { return ln.Rg.Arts[i].Name < ln.Rg.Arts[j].Name })
		}
	}
	return nil
}

// observe projects the application and the autosaved file after a request.
func (s *session) observe(ln *Line) {
	ln.App = ProjectApp(s.app, false)
	s.view = ln.App
	data, err := os.ReadFile(s.savePath)
	if err != nil {
		ln.Fh = []int{-1, -1, -1}
		return
	}
	ln.Fh = graphfam.GEHash3(data)
	if app2, ok := reloadApp(data); ok {
		ln.Fok = true
		ln.File = ProjectApp(app2, true)
	}
}

func newLine(k string, h, i int) Line {
	return Line{K: k, H: h, I: i, Rk: "empty", Rg: emptyProj(), App: emptyProj(), File: emptyProj(), Fh: []int{0, 0, 0}}
}

func quiet() {
	log.SetOutput(io.Discard)
	if f, err := os.OpenFile(os.DevNull, os.O_WRONLY, 0); err == nil {
		os.Stdout = f // the endpoint package prints recovered panics with their stacks
	}
}

// RunHistories executes request histories sequentially, one fresh application per history.
func RunHistories(in, out string, base int) error {
	quiet()
	fi, err := os.Open(in)
	if err != nil {
		return err
	}
	defer fi.Close()
	fo, err := os.Create(out)
	if err != nil {
		return err
	}
	defer fo.Close()
	w := bufio.NewWriterSize(fo, 1<<20)
	defer w.Flush()
	enc := json.NewEncoder(w)
	saveDir := out + ".save"
	if err := os.MkdirAll(saveDir, 0o777); err != nil {
		return err
	}
	defer os.RemoveAll(saveDir)
	sc := bufio.NewScanner(fi)
	sc.Buffer(make([]byte, 1<<20), 1<<26)
	h := base
	for sc.Scan() {
		if len(sc.Bytes()) == 0 {
			continue
		}
		var hist History
		if err := json.Unmarshal(sc.Bytes(), &hist); err != nil {
			return fmt.Errorf("history %d: %w", h, err)
		}
		s, err := newSession(filepath.Join(saveDir, "graph.json"))
		if err != nil {
			return err
		}
		rl := newLine("reset", h, 0)
		s.observe(&rl)
		_ = enc.Encode(rl)
		for i, r := range hist.Steps {
			routeFallback(&r)
			ln := newLine("req", h, i)
			ln.R = r
			if err := s.do(r, &ln); err != nil {
				return fmt.Errorf("history %d step %d: %w", h, i, err)
			}
			if i < hist.Skip {
				s.view = ProjectApp(s.app, false)
				if i == hist.Skip-1 {
					bl := newLine("base", h, i)
					s.observe(&bl)
					if app2, loaded := reloadApp(s.lastGet); loaded { // the graph a POST /graph would send
						bl.Rg = ProjectApp(app2, false)
					} else {
						bl.Rg.Unknown = 1000
					}
					_ = enc.Encode(bl)
				}
				continue
			}
			s.observe(&ln)
			_ = enc.Encode(ln)
		}
		h++
	}
	return sc.Err()
}
