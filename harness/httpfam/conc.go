package httpfam

import (
	"bufio"
	"encoding/json"
	"fmt"
	"os"
	"os/exec"
	"path/filepath"
	"sort"
	"strings"
	"sync"
	"sync/atomic"
	"time"
)

// --------------------------------------------------------------------------
// Concurrent mode: several clients issue requests in parallel goroutines
// against ONE handler. Invocations and responses are stamped from one atomic
// counter; specs/TraceHttpConc.tla looks for a serial order of the requests
// that explains every response and the final application / file state.
// The code under test may die with a fatal runtime error (concurrent map
// writes, stack overflow) that no recover() catches: cases are therefore run
// in a child process and a death is recorded as a "crash" line.
// --------------------------------------------------------------------------

type ConcCase struct {
	Pre   []Req   `json:"pre"`
	Progs [][]Req `json:"progs"`
	Tag   string  `json:"tag,omitempty"`
}

type concEvent struct {
	stamp int64
	line  Line
}

func (s *session) bodyFixed(r Req) ([]byte, error) {
	s.fixed = map[int]int{r.A: r.Ta, r.B: r.Tb}
	if r.Kind == "connect" || r.Kind == "connectarr" || r.Kind == "disconnect" || r.Kind == "disconnectarr" {
		s.fixed[r.B] = r.Tb // a == b: the input side decides the port name
	}
	s.fixedN = r.N
	defer func() { s.fixed = nil }()
	return s.body(r)
}

func runConcCase(enc *json.Encoder, h int, c ConcCase, savePath string, deadline time.Duration) (hung bool, err error) {
	s, err := newSession(savePath)
	if err != nil {
		return false, err
	}
	for i, r := range c.Pre {
		routeFallback(&r)
		ln := newLine("req", h, i)
		if err := s.do(r, &ln); err != nil {
			return false, fmt.Errorf("case %d prelude step %d: %w", h, i, err)
		}
		s.view = ProjectApp(s.app, false)
	}
	// the graph every client may re-post
	if st, out, _ := serve(s.h, "GET", "/graph", nil); st == 200 {
		s.lastGet = append([]byte{}, out...)
	}
	rl := newLine("reset", h, 0)
	s.observe(&rl)
	rl.Rval = len(c.Progs)
	if err := enc.Encode(rl); err != nil {
		return false, err
	}
	// bodies are built before the clients start: nothing harness-side is shared between them
	type prepared struct {
		r    Req
		body []byte
	}
	progs := make([][]prepared, len(c.Progs))
	for ci, prog := range c.Progs {
		for _, r := range prog {
			routeFallback(&r)
			r.Cl = ci + 1
			b, err := s.bodyFixed(r)
			if err != nil {
				return false, fmt.Errorf("case %d client %d: %w", h, ci+1, err)
			}
			progs[ci] = append(progs[ci], prepared{r, b})
		}
	}
	var counter int64
	var mu sync.Mutex
	events := []concEvent{}
	add := func(e concEvent) { mu.Lock(); events = append(events, e); mu.Unlock() }
	start := make(chan struct{})
	var wg sync.WaitGroup
	typeAt := map[int]int{}
	for _, n := range s.view.Nodes {
		typeAt[n.Id] = n.Type
	}
	for ci := range progs {
		wg.Add(1)
		go func(ci int) {
			defer wg.Done()
			<-start
			for i, p := range progs[ci] {
				inv := newLine("inv", h, i)
				inv.R = p.r
				inv.Nbytes = len(p.body)
				add(concEvent{atomic.AddInt64(&counter, 1), inv})
				st, out, note := serve(s.h, p.r.M, p.r.Path, p.body)
				stamp := atomic.AddInt64(&counter, 1)
				resp := newLine("resp", h, i)
				resp.R = p.r
				resp.St, resp.Note = st, note
				resp.Rk = classifyBody(out)
				if st >= 200 && st < 300 && p.r.Flaw == "none" {
					t := p.r.Ta
					if t == 0 {
						t = typeAt[p.r.A]
					}
					fillResponse(&resp, p.r, out, t)
				}
				add(concEvent{stamp, resp})
			}
		}(ci)
	}
	done := make(chan struct{})
	go func() { wg.Wait(); close(done) }()
	close(start)
	select {
	case <-done:
	case <-time.After(deadline):
		hung = true
	}
	mu.Lock()
	evs := append([]concEvent{}, events...)
	mu.Unlock()
	sort.Slice(evs, func(i, j int) bool { return evs[i].stamp < evs[j].stamp })
	for _, e := range evs {
		if err := enc.Encode(e.line); err != nil {
			return hung, err
		}
	}
	if hung {
		hl := newLine("hang", h, 0)
		hl.Note = "clients did not finish within the deadline"
		return true, enc.Encode(hl)
	}
	fl := newLine("final", h, 0)
	s.observe(&fl)
	return false, enc.Encode(fl)
}

// fillResponse projects a successful response body (shared with the sequential mode's do()).
func fillResponse(ln *Line, r Req, out []byte, paramType int) {
	switch r.Kind {
	case "create":
		var resp struct {
			NodeID string `json:"nodeID"`
			Data   struct {
				Type string `json:"type"`
			} `json:"data"`
		}
		if json.Unmarshal(out, &resp) == nil {
			ln.Rid = nodeNumStrict(resp.NodeID)
			ln.Rtype = -1
			if t, known := typeIdOf(resp.Data.Type); known {
				ln.Rtype = t
			}
		}
	case "getval":
		ln.Rval = valueFromJSON(paramType, out)
	case "getname":
		var name string
		if json.Unmarshal(out, &name) != nil {
			name = string(out)
		}
		ln.Rval = strInvNm(name)
	case "getgraph":
		if app2, loaded := reloadApp(out); loaded {
			ln.Rg = ProjectApp(app2, false)
		} else {
			ln.Rg.Unknown = 1000
		}
	case "getart":
		ln.Rtext = string(out)
	}
}

// RunConcWorker executes cases [from, ...) in this process; progress is the number of cases finished.
func RunConcWorker(in, out, progress string, from int, deadlineMs int) error {
	quiet()
	cases, err := readCases(in)
	if err != nil {
		return err
	}
	fo, err := os.OpenFile(out, os.O_CREATE|os.O_WRONLY|os.O_APPEND, 0o666)
	if err != nil {
		return err
	}
	defer fo.Close()
	saveDir := out + ".save"
	if err := os.MkdirAll(saveDir, 0o777); err != nil {
		return err
	}
	for h := from; h < len(cases); h++ {
		w := bufio.NewWriterSize(fo, 1<<20)
		enc := json.NewEncoder(w)
		hung, err := runConcCase(enc, h, cases[h], filepath.Join(saveDir, "graph.json"), time.Duration(deadlineMs)*time.Millisecond)
		if err != nil {
			return err
		}
		if err := w.Flush(); err != nil {
			return err
		}
		if err := os.WriteFile(progress, []byte(fmt.Sprint(h+1)), 0o666); err != nil {
			return err
		}
		if hung {
			os.Exit(7) // goroutines of the hung case cannot be stopped: let the parent restart us
		}
	}
	return nil
}

func readCases(in string) ([]ConcCase, error) {
	fi, err := os.Open(in)
	if err != nil {
		return nil, err
	}
	defer fi.Close()
	sc := bufio.NewScanner(fi)
	sc.Buffer(make([]byte, 1<<20), 1<<26)
	cases := []ConcCase{}
	for sc.Scan() {
		if len(sc.Bytes()) == 0 {
			continue
		}
		var c ConcCase
		if err := json.Unmarshal(sc.Bytes(), &c); err != nil {
			return nil, fmt.Errorf("case %d: %w", len(cases), err)
		}
		cases = append(cases, c)
	}
	return cases, sc.Err()
}

// RunConc runs all cases in child processes (this binary, xh-conc-worker) and records a child's
// death while a case was in flight as {"k":"reset"} + {"k":"crash"} for that case.
func RunConc(in, out string, deadlineMs int) error {
	cases, err := readCases(in)
	if err != nil {
		return err
	}
	_ = os.Remove(out)
	progress := out + ".progress"
	defer os.Remove(progress)
	defer os.RemoveAll(out + ".save")
	from := 0
	for from < len(cases) {
		_ = os.WriteFile(progress, []byte(fmt.Sprint(from)), 0o666)
		var sizeBefore int64
		if st, err := os.Stat(out); err == nil {
			sizeBefore = st.Size()
		}
		errPath := out + ".stderr"
		ef, _ := os.Create(errPath)
		cmd := exec.Command(os.Args[0], "xh-conc-worker", "-in", in, "-out", out, "-progress", progress,
			"-from", fmt.Sprint(from), "-deadline", fmt.Sprint(deadlineMs))
		cmd.Stderr = ef
		cmd.Stdout = nil
		runErr := cmd.Run()
		ef.Close()
		if runErr == nil {
			os.Remove(errPath)
			return nil
		}
		done := from
		if b, err := os.ReadFile(progress); err == nil {
			fmt.Sscan(string(b), &done)
		}
		code := -1
		if ee, ok := runErr.(*exec.ExitError); ok {
			code = ee.ExitCode()
		}
		if code == 7 { // hang already recorded by the worker
			from = done
			os.Remove(errPath)
			continue
		}
		if code == 3 { // harness error, not the code under test
			b, _ := os.ReadFile(errPath)
			return fmt.Errorf("worker failed: %s", tail(string(b), 2000))
		}
		// the worker died inside case `done`: drop its partial lines, record the crash
		b, _ := os.ReadFile(errPath)
		os.Remove(errPath)
		if err := truncateToCase(out, sizeBefore, done); err != nil {
			return err
		}
		fo, err := os.OpenFile(out, os.O_CREATE|os.O_WRONLY|os.O_APPEND, 0o666)
		if err != nil {
			return err
		}
		enc := json.NewEncoder(fo)
		rl := newLine("reset", done, 0)
		rl.Rval = len(cases[done].Progs)
		rl.Note = "worker died"
		_ = enc.Encode(rl)
		cl := newLine("crash", done, 0)
		cl.Note = crashNote(string(b), code)
		_ = enc.Encode(cl)
		fo.Close()
		from = done + 1
	}
	return nil
}

func tail(s string, n int) string {
	if len(s) > n {
		return s[len(s)-n:]
	}
	return s
}

// crashNote keeps the runtime's reason and the first polyform frames.
func crashNote(stderr string, code int) string {
	lines := strings.Split(stderr, "\n")
	reason := ""
	frames := []string{}
	for _, l := range lines {
		t := strings.TrimSpace(l)
		if reason == "" && (strings.HasPrefix(t, "fatal error:") || strings.HasPrefix(t, "panic:") || strings.HasPrefix(t, "runtime:")) {
			reason = t
		}
		if strings.HasPrefix(t, "github.com/EliCDavis/polyform/") && len(frames) < 4 {
			if i := strings.Index(t, "("); i > 0 {
				t = t[:i]
			}
			frames = append(frames, strings.TrimPrefix(t, "github.com/EliCDavis/polyform/"))
		}
	}
	if reason == "" {
		reason = fmt.Sprintf("exit %d", code)
	}
	return reason + " @ " + strings.Join(frames, " < ")
}

// truncateToCase removes lines of case h written after offset `from` (a partially written case).
func truncateToCase(path string, from int64, h int) error {
	b, err := os.ReadFile(path)
	if err != nil {
		if os.IsNotExist(err) {
			return nil
		}
		return err
	}
	keep := int64(len(b))
	pos := from
	for pos < int64(len(b)) {
		nl := int64(strings.IndexByte(string(b[pos:]), '\n'))
		if nl < 0 {
			keep = pos
			break
		}
		var probe struct {
			H int `json:"h"`
		}
		if json.Unmarshal(b[pos:pos+nl], &probe) != nil || probe.H == h {
			keep = pos
			break
		}
		pos += nl + 1
	}
	return os.Truncate(path, keep)
}
