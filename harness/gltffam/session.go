package gltffam

import (
	"bufio"
	"bytes"
	"encoding/json"
	"fmt"
	"os"
	"path/filepath"
	"sync"
	"time"

	"github.com/EliCDavis/polyform/formats/gltf"
)

// Export histories (specs/GltfSession.tla): a history is a sequence of exports that are
// executed one after the other IN THIS PROCESS, on one goroutine, each through the entry
// point the history names.  Whatever the package keeps between two calls is therefore part
// of what is observed.  Nothing is judged here: one trace line per export, the line of a
// valid export carries exactly what the per-scene line carries (src, out).

type SExport struct {
	Entry  string `json:"entry"`
	Expect string `json:"expect"` // what the model says: "OK" | "FAIL" (echoed for the judge)
	Fk     string `json:"fk"`     // failure kind of the model ("none" ...), echoed
	Fd     int    `json:"fd"`     // failure depth of the model, echoed
	Scene  Desc   `json:"scene"`
}

type SHistory struct {
	Session    []SExport `json:"session"`
	Concurrent bool      `json:"concurrent"` // all exports at once, one goroutine each (valid scenes only)
}

type sessLine struct {
	K      string `json:"k"`
	H      int    `json:"h"` // history
	P      int    `json:"p"` // position in the history (1-based)
	Entry  string `json:"entry"`
	Expect string `json:"expect"`
	Fk     string `json:"fk"`
	Fd     int    `json:"fd"`
	C      int    `json:"c"`
	Tag    string `json:"tag"`
	Kind   string `json:"kind"`
	Src    Src    `json:"src"`
	Out    Out    `json:"out"`
}

// EntryContainer is the container an entry point produces.
func EntryContainer(entry string) string {
	switch entry {
	case "WriteText", "SaveText", "FromScene+ToGLTF":
		return "text"
	}
	return "glb"
}

// exportThrough calls the entry point on the calling goroutine.
func exportThrough(entry string, sc gltf.PolyformScene, dir string) (data []byte, status, msg string) {
	defer func() {
		if r := recover(); r != nil {
			data, status, msg = nil, "PANIC", fmt.Sprint("panic: ", r)
		}
	}()
	var buf bytes.Buffer
	var err error
	file := ""
	switch entry {
	case "WriteBinary":
		err = gltf.WriteBinary(sc, &buf)
	case "WriteText":
		err = gltf.WriteText(sc, &buf)
	case "SaveBinary":
		file = filepath.Join(dir, "s.glb")
		err = gltf.SaveBinary(file, sc)
	case "SaveText":
		file = filepath.Join(dir, "s.gltf")
		err = gltf.SaveText(file, sc)
	case "Save":
		file = filepath.Join(dir, "t.glb")
		err = gltf.Save(file, sc)
	case "FromScene+WriteGLB":
		var w *gltf.Writer
		if w, err = gltf.NewWriterFromScene(sc); err == nil {
			err = w.WriteGLB(&buf)
		}
	case "FromScene+ToGLTF":
		var w *gltf.Writer
		if w, err = gltf.NewWriterFromScene(sc); err == nil {
			var b []byte
			if b, err = json.Marshal(w.ToGLTF(gltf.BufferEmbeddingStrategy_Base64Encode)); err == nil {
				buf.Write(b)
			}
		}
	case "AddScene+WriteGLB":
		w := gltf.NewWriter()
		if err = w.AddScene(sc); err == nil {
			err = w.WriteGLB(&buf)
		}
	default:
		return nil, "HARNESS", "unknown entry point " + entry
	}
	if err != nil {
		return nil, "FAIL", err.Error()
	}
	if file != "" {
		b, rerr := os.ReadFile(file)
		if rerr != nil {
			return nil, "HARNESS", rerr.Error()
		}
		return b, "OK", ""
	}
	return buf.Bytes(), "OK", ""
}

type pending struct {
	line   sessLine
	scene  gltf.PolyformScene
	data   []byte
	status string
	msg    string
}

// prepare builds and projects the scene of an export (before any export of the history runs).
func prepare(h, p int, e SExport) *pending {
	b := Build(e.Scene)
	cont := EntryContainer(e.Entry)
	return &pending{scene: b.Scene, line: sessLine{K: "exp", H: h, P: p, Entry: e.Entry, Expect: e.Expect, Fk: e.Fk, Fd: e.Fd, C: h,
		Tag: e.Scene.Tag, Kind: cont, Src: ProjectScene(b.Scene)}}
}

// observe parses what the export returned (after all exports of the history ran).
func (q *pending) observe() sessLine {
	if q.status != "OK" {
		q.line.Out = emptyOut(q.status, q.msg)
		q.line.Out.Cont.Kind = q.line.Kind
		return q.line
	}
	q.line.Out = Parse(q.line.Kind, q.data)
	return q.line
}

// runHistory executes the exports of one history sequentially on ONE goroutine (a hang of
// the code under test is a TIMEOUT observation of the exports that did not return).
func runHistory(h int, hist SHistory, dir string) []sessLine {
	lines := make([]sessLine, len(hist.Session))
	done := make([]bool, len(hist.Session))
	var mu sync.Mutex
	fin := make(chan struct{})
	if hist.Concurrent {
		var wg sync.WaitGroup
		for i := range hist.Session {
			wg.Add(1)
			go func(i int) {
				defer wg.Done()
				q := prepare(h, i+1, hist.Session[i])
				sub := filepath.Join(dir, fmt.Sprint("g", i))
				_ = os.MkdirAll(sub, 0o755)
				q.data, q.status, q.msg = exportThrough(hist.Session[i].Entry, q.scene, sub)
				ln := q.observe()
				mu.Lock()
				lines[i], done[i] = ln, true
				mu.Unlock()
			}(i)
		}
		go func() { wg.Wait(); close(fin) }()
	} else {
		go func() {
			// scenes are built first and documents parsed last: the exports follow each other directly
			qs := make([]*pending, len(hist.Session))
			for i, e := range hist.Session {
				qs[i] = prepare(h, i+1, e)
			}
			for i, e := range hist.Session {
				qs[i].data, qs[i].status, qs[i].msg = exportThrough(e.Entry, qs[i].scene, dir)
			}
			for i := range qs {
				ln := qs[i].observe()
				mu.Lock()
				lines[i], done[i] = ln, true
				mu.Unlock()
			}
			close(fin)
		}()
	}
	select {
	case <-fin:
	case <-time.After(120 * time.Second):
	}
	mu.Lock()
	defer mu.Unlock()
	out := make([]sessLine, len(lines))
	for i, e := range hist.Session {
		if done[i] {
			out[i] = lines[i]
			continue
		}
		cont := EntryContainer(e.Entry)
		out[i] = sessLine{K: "exp", H: h, P: i + 1, Entry: e.Entry, Expect: e.Expect, Fk: e.Fk, Fd: e.Fd, C: h, Tag: e.Scene.Tag, Kind: cont,
			Src: ProjectScene(Build(e.Scene).Scene), Out: emptyOut("TIMEOUT", "history did not finish within 120s")}
		out[i].Out.Cont.Kind = cont
	}
	return out
}

// RunSessions executes the histories of `in` (ndjson, one history per line) in this one
// process, in file order, and writes one trace line per export.
func RunSessions(in, out string) error {
	fi, err := os.Open(in)
	if err != nil {
		return err
	}
	defer fi.Close()
	fo, err := os.Create(out)
	if err != nil {
		return err
	}
	defer fo.Close()
	dir, err := os.MkdirTemp("", "gltfsession")
	if err != nil {
		return err
	}
	defer os.RemoveAll(dir)
	w := bufio.NewWriterSize(fo, 1<<20)
	defer w.Flush()
	enc := json.NewEncoder(w)
	sc := bufio.NewScanner(fi)
	sc.Buffer(make([]byte, 1<<20), 1<<28)
	h := 0
	for sc.Scan() {
		if len(sc.Bytes()) == 0 {
			continue
		}
		var hist SHistory
		if err := json.Unmarshal(sc.Bytes(), &hist); err != nil {
			return fmt.Errorf("history %d: %w", h, err)
		}
		for _, ln := range runHistory(h, hist, dir) {
			if err := enc.Encode(ln); err != nil {
				return err
			}
		}
		h++
	}
	return sc.Err()
}
