package gltffam

// Independent reader of .glb / .gltf bytes. It shares no code with
// formats/gltf: the container is cut by hand, the JSON is decoded into generic
// maps with encoding/json, data URIs are decoded with encoding/base64 and
// accessors are decoded from the payload bytes.  The result is a projection
// (tables of integers / strings); nothing here decides whether it is valid.

import (
	"bytes"
	"encoding/base64"
	"encoding/binary"
	"encoding/json"
	"math"
	"sort"
	"strconv"
	"strings"
)

type Cont struct {
	Kind       string `json:"kind"`
	FileLen    int    `json:"fileLen"`
	Magic      int    `json:"magic"`
	Version    int    `json:"version"`
	Total      int    `json:"total"`
	NChunks    int    `json:"nchunks"`
	JsonLen    int    `json:"jsonLen"`
	JsonType   int    `json:"jsonType"`
	BinLen     int    `json:"binLen"` // -1: no BIN chunk
	BinType    int    `json:"binType"`
	Rest       int    `json:"rest"`       // bytes after the last complete chunk
	JsonOK     bool   `json:"jsonOK"`     // the JSON text parsed as one object
	JsonPadBad int    `json:"jsonPadBad"` // bytes after the JSON value that are not 0x20
}

type OBuf struct {
	Len     int    `json:"len"`
	Uri     string `json:"uri"`     // "bin" (no uri), "data" (base64 data URI), "ext", "baddata"
	Payload int    `json:"payload"` // bytes actually available, -1 if none
	PadBad  int    `json:"padBad"`  // non-zero bytes between byteLength and the end of the payload
}

type OView struct {
	Buf    int `json:"buf"`
	Off    int `json:"off"`
	Len    int `json:"len"`
	Stride int `json:"stride"`
	Target int `json:"target"`
}

type OSum struct {
	Min  []int `json:"min"` // per component over the values that are not NaN (0 when there is none)
	Max  []int `json:"max"`
	Nan  []int `json:"nan"`  // per component: how many values are NaN
	EMin []int `json:"emin"` // per component over the ELEMENTS without any NaN component (0 when there is none)
	EMax []int `json:"emax"`
	ENan int   `json:"enan"` // elements with at least one NaN component
	Fp   []int `json:"fp"`   // of all decoded elements (NaNs canonical)
}

type OAcc struct {
	View    int     `json:"view"`
	Off     int     `json:"off"`
	Comp    int     `json:"comp"`
	Type    string  `json:"type"`
	Count   int     `json:"count"`
	Norm    bool    `json:"norm"`
	HasMin  bool    `json:"hasMin"`
	HasMax  bool    `json:"hasMax"`
	Min     []int   `json:"min"` // declared, in the component domain (float: int32 view of float32(x))
	Max     []int   `json:"max"`
	MMExact bool    `json:"mmExact"` // every declared bound is exactly representable in the component type
	Dec     bool    `json:"dec"`     // the harness could decode the elements from the payload
	Full    bool    `json:"full"`    // vals carries every element
	Vals    [][]int `json:"vals"`
	Sum     OSum    `json:"sum"` // of the decoded elements (min/max per component, fingerprint)
	raw     [][]int
}

type OPAttr struct {
	Sem string `json:"sem"`
	Acc int    `json:"acc"`
	Cfp []int  `json:"cfp"` // big only: fingerprint of the corner view
}

type OPrim struct {
	Attrs    []OPAttr `json:"attrs"`
	Idx      int      `json:"idx"`
	Mat      int      `json:"mat"`
	Mode     int      `json:"mode"`
	NTargets int      `json:"ntargets"`
}

type OMesh struct {
	Name  string  `json:"name"`
	Prims []OPrim `json:"prims"`
}

type ONode struct {
	Name     string   `json:"name"`
	Mesh     int      `json:"mesh"`
	Skin     int      `json:"skin"`
	T        [][]int  `json:"t"`
	R        [][]int  `json:"r"`
	S        [][]int  `json:"s"`
	HasM     bool     `json:"hasM"`
	Children []int    `json:"children"`
	Inst     []OPAttr `json:"inst"`
	Light    int      `json:"light"`
}

type OMat struct {
	Leaves []Leaf `json:"leaves"`
}

type OTex struct {
	Src  int    `json:"src"`
	Samp int    `json:"samp"`
	Ext  []Leaf `json:"ext"`
}

type OImg struct {
	Uri  string `json:"uri"`
	View int    `json:"view"`
}

type OSamp struct {
	V    []int  `json:"v"`
	Name string `json:"name"`
}

type OLight struct {
	Type  string `json:"type"`
	Col   []Leaf `json:"col"`
	Inten []Leaf `json:"inten"`
	Range []Leaf `json:"range"`
	Spot  bool   `json:"spot"`
}

type Out struct {
	Status   string   `json:"status"`
	Err      string   `json:"err"`
	Cont     Cont     `json:"cont"`
	Buffers  []OBuf   `json:"buffers"`
	Views    []OView  `json:"views"`
	Accs     []OAcc   `json:"accs"`
	Meshes   []OMesh  `json:"meshes"`
	Nodes    []ONode  `json:"nodes"`
	Scene    int      `json:"scene"`
	Scenes   [][]int  `json:"scenes"`
	Mats     []OMat   `json:"mats"`
	Texs     []OTex   `json:"texs"`
	Images   []OImg   `json:"images"`
	Samplers []OSamp  `json:"samplers"`
	Lights   []OLight `json:"lights"`
	ExtUsed  []string `json:"extUsed"`
	ExtReq   []string `json:"extReq"`
	ExtSeen  []string `json:"extSeen"`
	NSkins   int      `json:"nskins"`
	NAnims   int      `json:"nanims"`
	Version  string   `json:"version"`
}

func emptyOut(status, err string) Out {
	return Out{Status: status, Err: err, Buffers: []OBuf{}, Views: []OView{}, Accs: []OAcc{}, Meshes: []OMesh{}, Nodes: []ONode{},
		Scene: -1, Scenes: [][]int{}, Mats: []OMat{}, Texs: []OTex{}, Images: []OImg{}, Samplers: []OSamp{}, Lights: []OLight{},
		ExtUsed: []string{}, ExtReq: []string{}, ExtSeen: []string{}, Cont: Cont{BinLen: -1}}
}

func clampU32(v uint32) int {
	if v > math.MaxInt32 {
		return -2
	}
	return int(v)
}

// ---------------------------------------------------------------------------
// generic JSON helpers
// ---------------------------------------------------------------------------

func asObj(v any) map[string]any {
	m, _ := v.(map[string]any)
	return m
}

func asArr(v any) []any {
	a, _ := v.([]any)
	return a
}

func asNum(v any) (float64, bool) {
	n, ok := v.(json.Number)
	if !ok {
		return 0, false
	}
	f, err := strconv.ParseFloat(string(n), 64)
	return f, err == nil
}

func getInt(m map[string]any, k string, def int) int {
	v, present := m[k]
	if !present {
		return def
	}
	f, ok := asNum(v)
	if !ok || f != math.Trunc(f) || math.Abs(f) > math.MaxInt32 {
		return -9 // present but not an integer
	}
	return int(f)
}

func getStr(m map[string]any, k string) string {
	s, _ := m[k].(string)
	return s
}

func intList(v any) []int {
	out := []int{}
	for _, e := range asArr(v) {
		f, ok := asNum(e)
		if !ok || f != math.Trunc(f) || math.Abs(f) > math.MaxInt32 {
			out = append(out, -9)
		} else {
			out = append(out, int(f))
		}
	}
	return out
}

func strList(v any) []string {
	out := []string{}
	for _, e := range asArr(v) {
		s, _ := e.(string)
		out = append(out, s)
	}
	return out
}

func toGeneric(v any) any {
	b, err := json.Marshal(v)
	if err != nil {
		return "unmarshalable"
	}
	d := json.NewDecoder(bytes.NewReader(b))
	d.UseNumber()
	var g any
	if d.Decode(&g) != nil {
		return "unmarshalable"
	}
	return g
}

// flatten appends the scalar leaves of v (under path p) to out.
func flatten(out *[]Leaf, p string, v any) {
	switch x := v.(type) {
	case map[string]any:
		if len(x) == 0 {
			*out = append(*out, Leaf{P: p, K: 3, S: "{}"})
			return
		}
		keys := make([]string, 0, len(x))
		for k := range x {
			keys = append(keys, k)
		}
		sort.Strings(keys)
		for _, k := range keys {
			q := k
			if p != "" {
				q = p + "." + k
			}
			flatten(out, q, x[k])
		}
	case []any:
		if len(x) == 0 {
			*out = append(*out, Leaf{P: p, K: 3, S: "[]"})
			return
		}
		for i, e := range x {
			flatten(out, p+"."+strconv.Itoa(i), e)
		}
	case json.Number:
		f, _ := strconv.ParseFloat(string(x), 64)
		if strings.HasSuffix(p, "Texture.index") && f == math.Trunc(f) && math.Abs(f) < math.MaxInt32 {
			*out = append(*out, Leaf{P: p, K: 1, V: int(f)})
		} else {
			*out = append(*out, numLeaf(p, f))
		}
	case string:
		*out = append(*out, Leaf{P: p, K: 3, S: x})
	case bool:
		*out = append(*out, Leaf{P: p, K: 3, S: strconv.FormatBool(x)})
	default:
		*out = append(*out, Leaf{P: p, K: 3, S: "null"})
	}
}

func one(v float64) json.Number { return json.Number(strconv.FormatFloat(v, 'g', -1, 64)) }

func setDefault(m map[string]any, k string, v any) {
	if _, ok := m[k]; !ok {
		m[k] = v
	}
}

// materialLeaves flattens a glTF material with the glTF 2.0 defaults made
// explicit, so that "absent" and "present with the default value" denote the
// same material.
func materialLeaves(mv any) []Leaf {
	src := asObj(mv)
	m := map[string]any{}
	for k, v := range src {
		m[k] = v
	}
	setDefault(m, "name", "")
	pbr := map[string]any{}
	for k, v := range asObj(m["pbrMetallicRoughness"]) {
		pbr[k] = v
	}
	setDefault(pbr, "baseColorFactor", []any{one(1), one(1), one(1), one(1)})
	setDefault(pbr, "metallicFactor", one(1))
	setDefault(pbr, "roughnessFactor", one(1))
	m["pbrMetallicRoughness"] = pbr
	setDefault(m, "emissiveFactor", []any{one(0), one(0), one(0)})
	setDefault(m, "alphaMode", "OPAQUE")
	setDefault(m, "alphaCutoff", one(0.5))
	if nt := asObj(m["normalTexture"]); nt != nil {
		c := map[string]any{}
		for k, v := range nt {
			c[k] = v
		}
		setDefault(c, "scale", one(1))
		m["normalTexture"] = c
	}
	if ot := asObj(m["occlusionTexture"]); ot != nil {
		c := map[string]any{}
		for k, v := range ot {
			c[k] = v
		}
		setDefault(c, "strength", one(1))
		m["occlusionTexture"] = c
	}
	if ds, ok := m["doubleSided"].(bool); ok && !ds {
		delete(m, "doubleSided")
	}
	l := []Leaf{}
	flatten(&l, "", m)
	return sortLeaves(dropNeutral(l))
}

// dropNeutral removes leaves that denote nothing: texCoord 0 on a textureInfo,
// empty "extensions"/"extras" containers.
func dropNeutral(l []Leaf) []Leaf {
	out := l[:0]
	for _, x := range l {
		if strings.HasSuffix(x.P, "Texture.texCoord") && x.K == 0 && x.V == 0 {
			continue
		}
		if x.K == 3 && x.S == "{}" && (x.P == "extensions" || x.P == "extras" || strings.HasSuffix(x.P, ".extensions") || strings.HasSuffix(x.P, ".extras")) {
			continue
		}
		out = append(out, x)
	}
	return out
}

func collectExt(v any, seen map[string]bool) {
	switch x := v.(type) {
	case map[string]any:
		for k, e := range x {
			if k == "extensions" {
				for name := range asObj(e) {
					seen[name] = true
				}
			}
			collectExt(e, seen)
		}
	case []any:
		for _, e := range x {
			collectExt(e, seen)
		}
	}
}

func chunks(v any, n int) [][]int {
	a := asArr(v)
	if len(a) != n {
		if v == nil {
			return [][]int{}
		}
		return [][]int{{-1, -1, -1}} // malformed: wrong length
	}
	out := make([][]int, n)
	for i, e := range a {
		f, ok := asNum(e)
		if !ok {
			return [][]int{{-1, -1, -1}}
		}
		out[i] = F64(f)
	}
	return out
}

// ---------------------------------------------------------------------------
// container
// ---------------------------------------------------------------------------

func compSize(c int) int {
	switch c {
	case 5120, 5121:
		return 1
	case 5122, 5123:
		return 2
	case 5125, 5126:
		return 4
	}
	return 0
}

func numComp(t string) int {
	switch t {
	case "SCALAR":
		return 1
	case "VEC2":
		return 2
	case "VEC3":
		return 3
	case "VEC4":
		return 4
	case "MAT2":
		return 4
	case "MAT3":
		return 9
	case "MAT4":
		return 16
	}
	return 0
}

// Parse reads file bytes of the given container kind ("glb" | "text").
func Parse(kind string, file []byte) Out {
	o := emptyOut("OK", "")
	o.Cont.Kind = kind
	o.Cont.FileLen = len(file)
	var jsonBytes, binBytes []byte
	hasBin := false
	if kind == "glb" {
		if len(file) < 12 {
			o.Status = "PARSEFAIL"
			o.Err = "shorter than a GLB header"
			return o
		}
		o.Cont.Magic = clampU32(binary.LittleEndian.Uint32(file[0:]))
		o.Cont.Version = clampU32(binary.LittleEndian.Uint32(file[4:]))
		o.Cont.Total = clampU32(binary.LittleEndian.Uint32(file[8:]))
		pos := 12
		for pos+8 <= len(file) {
			cl := int(binary.LittleEndian.Uint32(file[pos:]))
			ct := clampU32(binary.LittleEndian.Uint32(file[pos+4:]))
			if cl < 0 || pos+8+cl > len(file) {
				break
			}
			data := file[pos+8 : pos+8+cl]
			switch o.Cont.NChunks {
			case 0:
				jsonBytes, o.Cont.JsonLen, o.Cont.JsonType = data, cl, ct
			case 1:
				binBytes, o.Cont.BinLen, o.Cont.BinType, hasBin = data, cl, ct, true
			}
			o.Cont.NChunks++
			pos += 8 + cl
		}
		o.Cont.Rest = len(file) - pos
	} else {
		jsonBytes = file
		o.Cont.JsonLen = len(file)
	}

	dec := json.NewDecoder(bytes.NewReader(jsonBytes))
	dec.UseNumber()
	var rootAny any
	if err := dec.Decode(&rootAny); err != nil {
		o.Status = "PARSEFAIL"
		o.Err = "json: " + err.Error()
		return o
	}
	root := asObj(rootAny)
	if root == nil {
		o.Status = "PARSEFAIL"
		o.Err = "json root is not an object"
		return o
	}
	o.Cont.JsonOK = true
	consumed := int(dec.InputOffset())
	for _, c := range jsonBytes[consumed:] {
		if c != 0x20 {
			o.Cont.JsonPadBad++
		}
	}

	o.Version = getStr(asObj(root["asset"]), "version")
	o.ExtUsed = strList(root["extensionsUsed"])
	o.ExtReq = strList(root["extensionsRequired"])
	seen := map[string]bool{}
	collectExt(root, seen)
	for k := range seen {
		o.ExtSeen = append(o.ExtSeen, k)
	}
	sort.Strings(o.ExtSeen)
	o.NSkins = len(asArr(root["skins"]))
	o.NAnims = len(asArr(root["animations"]))

	// buffers and their payloads
	payloads := [][]byte{}
	for i, bv := range asArr(root["buffers"]) {
		b := asObj(bv)
		ob := OBuf{Len: getInt(b, "byteLength", -1), Payload: -1}
		var pl []byte
		uri, hasURI := b["uri"].(string)
		switch {
		case !hasURI:
			ob.Uri = "bin"
			if kind == "glb" && i == 0 && hasBin {
				pl = binBytes
				ob.Payload = len(pl)
			}
		case strings.HasPrefix(uri, "data:"):
			ob.Uri = "baddata"
			if c := strings.IndexByte(uri, ','); c >= 0 && strings.HasSuffix(uri[:c], ";base64") {
				if d, err := base64.StdEncoding.DecodeString(uri[c+1:]); err == nil {
					ob.Uri = "data"
					pl = d
					ob.Payload = len(d)
				}
			}
		default:
			ob.Uri = "ext"
		}
		if pl != nil && ob.Len >= 0 && ob.Len <= len(pl) {
			for _, c := range pl[ob.Len:] {
				if c != 0 {
					ob.PadBad++
				}
			}
		}
		payloads = append(payloads, pl)
		o.Buffers = append(o.Buffers, ob)
	}

	for _, vv := range asArr(root["bufferViews"]) {
		v := asObj(vv)
		o.Views = append(o.Views, OView{Buf: getInt(v, "buffer", -1), Off: getInt(v, "byteOffset", 0), Len: getInt(v, "byteLength", -1),
			Stride: getInt(v, "byteStride", 0), Target: getInt(v, "target", 0)})
	}

	for _, av := range asArr(root["accessors"]) {
		a := asObj(av)
		oa := OAcc{View: getInt(a, "bufferView", -1), Off: getInt(a, "byteOffset", 0), Comp: getInt(a, "componentType", 0),
			Type: getStr(a, "type"), Count: getInt(a, "count", -1), Min: []int{}, Max: []int{}, Vals: [][]int{}, MMExact: true,
			Sum: OSum{Min: []int{}, Max: []int{}, Nan: []int{}, EMin: []int{}, EMax: []int{}, Fp: []int{}}}
		oa.Norm, _ = a["normalized"].(bool)
		bound := func(v any) ([]int, bool) {
			if v == nil {
				return []int{}, false
			}
			out := []int{}
			for _, e := range asArr(v) {
				f, ok := asNum(e)
				if !ok {
					oa.MMExact = false
					out = append(out, 0)
					continue
				}
				if oa.Comp == 5126 {
					out = append(out, F32(f))
					if float64(float32(f)) != f {
						oa.MMExact = false
					}
				} else {
					if f != math.Trunc(f) || math.Abs(f) > math.MaxInt32 {
						oa.MMExact = false
						out = append(out, 0)
					} else {
						out = append(out, int(f))
					}
				}
			}
			return out, true
		}
		oa.Min, oa.HasMin = bound(a["min"])
		oa.Max, oa.HasMax = bound(a["max"])
		decodeAccessor(&oa, o.Views, payloads)
		o.Accs = append(o.Accs, oa)
	}

	for _, mv := range asArr(root["meshes"]) {
		m := asObj(mv)
		om := OMesh{Name: getStr(m, "name"), Prims: []OPrim{}}
		for _, pv := range asArr(m["primitives"]) {
			p := asObj(pv)
			op := OPrim{Attrs: []OPAttr{}, Idx: getInt(p, "indices", -1), Mat: getInt(p, "material", -1), Mode: getInt(p, "mode", 4),
				NTargets: len(asArr(p["targets"]))}
			at := asObj(p["attributes"])
			for sem := range at {
				op.Attrs = append(op.Attrs, OPAttr{Sem: sem, Acc: getInt(at, sem, -1), Cfp: []int{}})
			}
			sort.Slice(op.Attrs, func(i, j int) bool { return op.Attrs[i].Sem < op.Attrs[j].Sem })
			cornerPrints(&op, o.Accs)
			om.Prims = append(om.Prims, op)
		}
		o.Meshes = append(o.Meshes, om)
	}

	for _, nv := range asArr(root["nodes"]) {
		n := asObj(nv)
		on := ONode{Name: getStr(n, "name"), Mesh: getInt(n, "mesh", -1), Skin: getInt(n, "skin", -1), T: chunks(n["translation"], 3),
			R: chunks(n["rotation"], 4), S: chunks(n["scale"], 3), Children: intList(n["children"]), Inst: []OPAttr{}, Light: -1}
		_, on.HasM = n["matrix"]
		ext := asObj(n["extensions"])
		if gi := asObj(ext["EXT_mesh_gpu_instancing"]); gi != nil {
			at := asObj(gi["attributes"])
			for sem := range at {
				on.Inst = append(on.Inst, OPAttr{Sem: sem, Acc: getInt(at, sem, -1), Cfp: []int{}})
			}
			sort.Slice(on.Inst, func(i, j int) bool { return on.Inst[i].Sem < on.Inst[j].Sem })
		}
		if lp := asObj(ext["KHR_lights_punctual"]); lp != nil {
			on.Light = getInt(lp, "light", -9)
		}
		o.Nodes = append(o.Nodes, on)
	}

	o.Scene = getInt(root, "scene", -1)
	for _, sv := range asArr(root["scenes"]) {
		o.Scenes = append(o.Scenes, intList(asObj(sv)["nodes"]))
	}

	for _, mv := range asArr(root["materials"]) {
		o.Mats = append(o.Mats, OMat{Leaves: materialLeaves(mv)})
	}
	for _, tv := range asArr(root["textures"]) {
		t := asObj(tv)
		l := []Leaf{}
		if e, ok := t["extensions"]; ok {
			flatten(&l, "extensions", e)
		}
		o.Texs = append(o.Texs, OTex{Src: getInt(t, "source", -1), Samp: getInt(t, "sampler", -1), Ext: sortLeaves(dropNeutral(l))})
	}
	for _, iv := range asArr(root["images"]) {
		im := asObj(iv)
		o.Images = append(o.Images, OImg{Uri: getStr(im, "uri"), View: getInt(im, "bufferView", -1)})
	}
	for _, sv := range asArr(root["samplers"]) {
		s := asObj(sv)
		o.Samplers = append(o.Samplers, OSamp{Name: getStr(s, "name"),
			V: []int{getInt(s, "magFilter", 0), getInt(s, "minFilter", 0), getInt(s, "wrapS", 10497), getInt(s, "wrapT", 10497)}})
	}
	if lp := asObj(asObj(root["extensions"])["KHR_lights_punctual"]); lp != nil {
		for _, lv := range asArr(lp["lights"]) {
			l := asObj(lv)
			ol := OLight{Type: getStr(l, "type"), Col: []Leaf{}, Inten: []Leaf{}, Range: []Leaf{}}
			if c, ok := l["color"]; ok {
				flatten(&ol.Col, "color", c)
			}
			if f, ok := asNum(l["intensity"]); ok {
				ol.Inten = []Leaf{numLeaf("intensity", f)}
			}
			if f, ok := asNum(l["range"]); ok {
				ol.Range = []Leaf{numLeaf("range", f)}
			}
			_, ol.Spot = l["spot"]
			o.Lights = append(o.Lights, ol)
		}
	}
	return o
}

// decodeAccessor fills Dec/Full/Vals/Sum when every byte the accessor names is
// physically present in the payload.
func decodeAccessor(a *OAcc, views []OView, payloads [][]byte) {
	cs, nc := compSize(a.Comp), numComp(a.Type)
	if a.View < 0 || a.View >= len(views) || cs == 0 || nc == 0 || a.Count < 1 || a.Count > 1<<24 || a.Off < 0 {
		return
	}
	v := views[a.View]
	if v.Buf < 0 || v.Buf >= len(payloads) || payloads[v.Buf] == nil || v.Off < 0 {
		return
	}
	pl := payloads[v.Buf]
	es := cs * nc
	stride := v.Stride
	if stride == 0 {
		stride = es
	}
	base := v.Off + a.Off
	if stride < es || base+(a.Count-1)*stride+es > len(pl) {
		return
	}
	raw := make([][]int, a.Count)
	isF := a.Comp == 5126
	// order key of a component value: floats by value (never NaN here), integers as they are
	key := func(iv int) float64 {
		if isF {
			return float64(math.Float32frombits(uint32(int32(iv))))
		}
		return float64(iv)
	}
	type bound struct {
		seen     bool
		min, max int
	}
	upd := func(b *bound, iv int) {
		if !b.seen || key(iv) < key(b.min) {
			b.min = iv
		}
		if !b.seen || key(iv) > key(b.max) {
			b.max = iv
		}
		b.seen = true
	}
	all := make([]bound, nc)  // over the non-NaN values of a component
	elem := make([]bound, nc) // over the elements without a NaN component
	nan := make([]int, nc)
	for i := 0; i < a.Count; i++ {
		row := make([]int, nc)
		rowNaN := false
		for c := 0; c < nc; c++ {
			p := base + i*stride + c*cs
			var iv int
			switch a.Comp {
			case 5120:
				iv = int(int8(pl[p]))
			case 5121:
				iv = int(pl[p])
			case 5122:
				iv = int(int16(binary.LittleEndian.Uint16(pl[p:])))
			case 5123:
				iv = int(binary.LittleEndian.Uint16(pl[p:]))
			case 5125:
				iv = clampU32(binary.LittleEndian.Uint32(pl[p:]))
				if iv == -2 {
					iv = math.MaxInt32
				}
			case 5126:
				iv = int(int32(binary.LittleEndian.Uint32(pl[p:])))
			}
			row[c] = iv
			if isF && NaN32(iv) {
				nan[c]++
				rowNaN = true
			} else {
				upd(&all[c], iv)
			}
		}
		if rowNaN {
			a.Sum.ENan++
		} else {
			for c := 0; c < nc; c++ {
				upd(&elem[c], row[c])
			}
		}
		raw[i] = row
	}
	a.Dec = true
	a.raw = raw
	for c := 0; c < nc; c++ {
		a.Sum.Min = append(a.Sum.Min, all[c].min)
		a.Sum.Max = append(a.Sum.Max, all[c].max)
		a.Sum.Nan = append(a.Sum.Nan, nan[c])
		a.Sum.EMin = append(a.Sum.EMin, elem[c].min)
		a.Sum.EMax = append(a.Sum.EMax, elem[c].max)
	}
	a.Sum.Fp = fingerprint(func(emit func(int)) {
		for _, r := range raw {
			for _, v := range r {
				if isF {
					v = CanonNaN(v)
				}
				emit(v)
			}
		}
	})
	if a.Count <= BigLimit {
		a.Full = true
		a.Vals = raw
	}
}

// cornerPrints fills the corner-view fingerprints of a primitive whose
// accessors are too big to be logged element by element.
func cornerPrints(p *OPrim, accs []OAcc) {
	big := false
	for _, at := range p.Attrs {
		if at.Acc >= 0 && at.Acc < len(accs) && accs[at.Acc].Dec && !accs[at.Acc].Full {
			big = true
		}
	}
	if p.Idx >= 0 && p.Idx < len(accs) && accs[p.Idx].Dec && !accs[p.Idx].Full {
		big = true
	}
	if !big {
		return
	}
	for k := range p.Attrs {
		at := &p.Attrs[k]
		if at.Acc < 0 || at.Acc >= len(accs) || !accs[at.Acc].Dec {
			continue
		}
		vals := accs[at.Acc].raw
		isF := accs[at.Acc].Comp == 5126
		at.Cfp = fingerprint(func(emit func(int)) {
			row := func(i int) {
				if i >= 0 && i < len(vals) {
					for _, v := range vals[i] {
						if isF {
							v = CanonNaN(v)
						}
						emit(v)
					}
				} else {
					emit(-1)
				}
			}
			if p.Idx >= 0 && p.Idx < len(accs) && accs[p.Idx].Dec {
				for _, r := range accs[p.Idx].raw {
					row(r[0])
				}
			} else if p.Idx == -1 {
				for i := range vals {
					row(i)
				}
			}
		})
	}
}
