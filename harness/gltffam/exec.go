package gltffam

import (
	"bufio"
	"bytes"
	"encoding/json"
	"fmt"
	"os"
	"time"

	"github.com/EliCDavis/polyform/formats/gltf"
)

type docLine struct {
	K    string `json:"k"`
	C    int    `json:"c"`   // case number
	Tag  string `json:"tag"` // which generator produced the case
	Kind string `json:"kind"`
	Src  Src    `json:"src"`
	Out  Out    `json:"out"`
}

// WriteReal runs the real writer; a returned error ("FAIL"), a panic ("PANIC") or a hang
// ("TIMEOUT") is an observation.
func WriteReal(sc gltf.PolyformScene, kind string) (data []byte, status, msg string) {
	type res struct {
		b      []byte
		status string
		msg    string
	}
	ch := make(chan res, 1)
	go func() {
		defer func() {
			if r := recover(); r != nil {
				ch <- res{nil, "PANIC", fmt.Sprint("panic: ", r)}
			}
		}()
		var buf bytes.Buffer
		var err error
		if kind == "glb" {
			err = gltf.WriteBinary(sc, &buf)
		} else {
			err = gltf.WriteText(sc, &buf)
		}
		if err != nil {
			ch <- res{nil, "FAIL", err.Error()}
			return
		}
		ch <- res{buf.Bytes(), "OK", ""}
	}()
	select {
	case r := <-ch:
		return r.b, r.status, r.msg
	case <-time.After(60 * time.Second):
		return nil, "TIMEOUT", "writer did not return within 60s"
	}
}

// Container is the container a kind produces: "glb" | "text".  The kinds "glb-again" and
// "text-again" hand the SAME scene objects to the writer a second time (first to the other
// entry point, whose output is dropped) and observe the second file: whatever the first call
// left behind in the scene (textures, materials, meshes) is carried into it.
func Container(kind string) (container string, again bool) {
	switch kind {
	case "glb-again":
		return "glb", true
	case "text-again":
		return "text", true
	}
	return kind, false
}

// RunOne executes one descriptor for one kind.
func RunOne(c int, d Desc, kind string) docLine {
	b := Build(d)
	cont, again := Container(kind)
	// projected BEFORE any call: the scene as its owner built it (a writer that edits the scene it
	// is handed shows up as a second file that no longer denotes it)
	line := docLine{K: "doc", C: c, Tag: d.Tag, Kind: kind, Src: ProjectScene(b.Scene)}
	if again {
		other := "glb"
		if cont == "glb" {
			other = "text"
		}
		WriteReal(b.Scene, other)
	}
	data, status, msg := WriteReal(b.Scene, cont)
	if status != "OK" {
		line.Out = emptyOut(status, msg)
		line.Out.Cont.Kind = cont
		return line
	}
	line.Out = Parse(cont, data)
	return line
}

// RunCases executes descriptors read from `in` (ndjson) and writes the
// observed trace to `out` (ndjson), one line per (case, container).
func RunCases(in, out string) error {
	fi, err := os.Open(in)
	if err != nil {
		return err
	}
	defer fi.Close()
	fo, err := os.Create(out)
	if err != nil {
		return err
	}
	defer fo.Close()
	w := bufio.NewWriterSize(fo, 1<<20)
	defer w.Flush()
	enc := json.NewEncoder(w)
	sc := bufio.NewScanner(fi)
	sc.Buffer(make([]byte, 1<<20), 1<<28)
	c := 0
	for sc.Scan() {
		if len(sc.Bytes()) == 0 {
			continue
		}
		var d Desc
		if err := json.Unmarshal(sc.Bytes(), &d); err != nil {
			return fmt.Errorf("case %d: %w", c, err)
		}
		kinds := d.Kinds
		if len(kinds) == 0 {
			kinds = []string{"glb", "text"}
		}
		for _, k := range kinds {
			if err := enc.Encode(RunOne(c, d, k)); err != nil {
				return err
			}
		}
		c++
	}
	return sc.Err()
}

// Dump writes the real bytes of one case (debugging / replay aid).
func Dump(in string, kind, out string) error {
	b, err := os.ReadFile(in)
	if err != nil {
		return err
	}
	var d Desc
	if err := json.Unmarshal(bytes.TrimSpace(b), &d); err != nil {
		return err
	}
	cont, _ := Container(kind)
	data, status, msg := WriteReal(Build(d).Scene, cont)
	if status != "OK" {
		return fmt.Errorf("%s: %s", status, msg)
	}
	return os.WriteFile(out, data, 0o644)
}
