// Package gltffam is the executor/projector of the glTF family (property C06).
//
// A case is a *scene descriptor* (printed by the TLA+ generator
// specs/GltfWriter.tla or by the seeded generator in random.go).  The harness
//
//  1. builds the real gltf.PolyformScene from the descriptor (pools of mesh /
//     material / texture objects so that pointer identity is under control),
//  2. projects that scene through public observers only ("src"),
//  3. runs the real gltf.WriteBinary / gltf.WriteText,
//  4. parses the produced bytes with an independent reader (parse.go: GLB
//     header and chunks, encoding/json on generic maps, base64 data URIs,
//     accessor decoding) and projects the document ("out"),
//  5. writes one ndjson line {k:"doc", src, out}.
//
// It contains no property logic: specs/TraceGltf.tla (TLC) judges every line.
package gltffam

import (
	"fmt"
	"image/color"
	"math"
	"math/rand"
	"strconv"

	"github.com/EliCDavis/polyform/formats/gltf"
	"github.com/EliCDavis/polyform/math/quaternion"
	"github.com/EliCDavis/polyform/math/trs"
	"github.com/EliCDavis/polyform/modeling"
	"github.com/EliCDavis/polyform/modeling/animation"
	"github.com/EliCDavis/vector/vector2"
	"github.com/EliCDavis/vector/vector3"
	"github.com/EliCDavis/vector/vector4"
	"verifharness/project"
)

// ---------------------------------------------------------------------------
// descriptor (JSON produced by TLC / random.go)
// ---------------------------------------------------------------------------

type DAttr struct {
	Ar int `json:"ar"`
	Id int `json:"id"`
}

// DSpecial overrides ONE component with a special IEEE-754 value (SpecialValue).
type DSpecial struct {
	A int `json:"a"` // mesh: index into attrs ; GPU instance: 0 translation, 1 rotation, 2 scale
	I int `json:"i"` // mesh: vertex (taken modulo nv) ; instance: unused
	C int `json:"c"` // component (taken modulo the arity)
	K int `json:"k"` // kind of value, see SpecialValue
}

type DMesh struct {
	Topo  string     `json:"topo"`
	Nv    int        `json:"nv"`
	Ni    int        `json:"ni"`  // number of indices
	Idx   []int      `json:"idx"` // explicit indices; empty with ni>0 => pattern nv-1-(j mod nv)
	Attrs []DAttr    `json:"attrs"`
	VSeed int        `json:"vseed"`
	Spec  []DSpecial `json:"spec"` // special values written over the generated data (absent = none)
}

type DTex struct {
	Uri  int `json:"uri"`  // image URI "img<k>.png"
	Samp int `json:"samp"` // 0 nil ; k sampler value class
	Xf   int `json:"xf"`   // 0 none ; k KHR_texture_transform variant
}

type DExt struct {
	K    string `json:"k"`
	F    int    `json:"f"`  // first factor in 1/8 (-1 = nil where optional)
	F2   int    `json:"f2"` // second factor in 1/8
	Tex  int    `json:"tex"`
	Tex2 int    `json:"tex2"`
	Col  int    `json:"col"`
}

type DMat struct {
	Name   int    `json:"name"`
	Pbr    int    `json:"pbr"`   // 0 nil ; 1 present
	Met    int    `json:"met"`   // -1 nil ; k/8
	Rough  int    `json:"rough"` // -1 nil ; k/8
	Bc     int    `json:"bc"`    // colour id, 0 nil
	BTex   int    `json:"btex"`  // texture pool index (1-based), 0 none
	MrTex  int    `json:"mrtex"`
	NTex   int    `json:"ntex"`
	NScale int    `json:"nscale"` // -1 nil ; k/8
	OTex   int    `json:"otex"`
	OStr   int    `json:"ostr"`
	Emis   int    `json:"emis"`
	AMode  int    `json:"amode"`  // 0 nil 1 OPAQUE 2 MASK 3 BLEND
	Cutoff int    `json:"cutoff"` // -1 nil ; k/8
	Exts   []DExt `json:"exts"`
	Extras int    `json:"extras"` // 0 none ; k => {"tag": k}
}

type DTrs struct {
	T  []int      `json:"t"` // empty = absent (models) ; numerators over Div
	R  []int      `json:"r"`
	S  []int      `json:"s"`
	Sp []DSpecial `json:"sp"` // GPU instances only: special values written over t / r / s
}

type DModel struct {
	Name int    `json:"name"`
	Mesh int    `json:"mesh"` // 1-based mesh pool index ; 0 = nil mesh pointer (invalid input)
	Mat  int    `json:"mat"`  // 1-based material pool index ; 0 = none
	Trs  DTrs   `json:"trs"`
	Inst []DTrs `json:"inst"`
	Anim int    `json:"anim"` // session histories: 1 = one animation sequence and NO skeleton (invalid input); absent = none
}

type DLight struct {
	Type  int   `json:"type"` // 0 "" 1 directional 2 point 3 spot
	Col   int   `json:"col"`
	Inten int   `json:"inten"` // -1 nil ; k/8
	Range int   `json:"range"`
	Pos   []int `json:"pos"`
}

type Desc struct {
	Tag    string   `json:"tag"`
	VMode  string   `json:"vmode"` // "lattice" (dyadic eighths) | "float" (seeded arbitrary finite doubles)
	Div    int      `json:"div"`   // denominator of TRS / light numerators (0 => 8)
	Meshes []DMesh  `json:"meshes"`
	Texs   []DTex   `json:"texs"`
	Mats   []DMat   `json:"mats"`
	Models []DModel `json:"models"`
	Lights []DLight `json:"lights"`
	Kinds  []string `json:"kinds"` // containers to produce; empty => both
	Risk   []string `json:"risk"`  // what the L2 writer model predicts (informational only)
}

// ---------------------------------------------------------------------------
// deterministic value tables
// ---------------------------------------------------------------------------

func colorOf(id int) color.Color {
	switch id {
	case 0:
		return nil
	case 1:
		return color.RGBA{255, 0, 0, 255}
	case 2:
		return color.RGBA{255, 100, 80, 255}
	case 3:
		return color.RGBA{0, 128, 255, 128}
	case 4:
		return color.RGBA{1, 2, 3, 4}
	case 5:
		return color.NRGBA{200, 100, 50, 255} // equal by RGBA() to nothing else in the table
	}
	return color.RGBA{uint8(id * 37), uint8(id * 91), uint8(id * 53), 255}
}

func samplerOf(class int) *gltf.Sampler {
	switch class {
	case 0:
		return nil
	case 1:
		return &gltf.Sampler{MagFilter: gltf.SamplerMagFilter_LINEAR, MinFilter: gltf.SamplerMinFilter_LINEAR_MIPMAP_LINEAR,
			WrapS: gltf.SamplerWrap_REPEAT, WrapT: gltf.SamplerWrap_REPEAT}
	case 2:
		return &gltf.Sampler{MagFilter: gltf.SamplerMagFilter_NEAREST, MinFilter: gltf.SamplerMinFilter_NEAREST,
			WrapS: gltf.SamplerWrap_CLAMP_TO_EDGE, WrapT: gltf.SamplerWrap_CLAMP_TO_EDGE}
	case 3:
		return &gltf.Sampler{WrapS: gltf.SamplerWrap_MIRRORED_REPEAT}
	}
	return &gltf.Sampler{MagFilter: gltf.SamplerMagFilter_LINEAR, WrapT: gltf.SamplerWrap_MIRRORED_REPEAT}
}

func eighth(k int) *float64 {
	if k < 0 {
		return nil
	}
	v := float64(k) / 8
	return &v
}

func xfOf(k int) []gltf.TextureExtension {
	switch k {
	case 0:
		return nil
	case 1:
		o := vector2.New(0.5, 0.25)
		return []gltf.TextureExtension{gltf.PolyformTextureTransform{Offset: &o}}
	case 2:
		s := vector2.New(2., 2.)
		r := 0.5
		return []gltf.TextureExtension{gltf.PolyformTextureTransform{Scale: &s, Rotation: &r}}
	case 3:
		tc := 1
		return []gltf.TextureExtension{gltf.PolyformTextureTransform{TexCoord: &tc, Required: true}}
	}
	o := vector2.New(float64(k)/8, 0)
	return []gltf.TextureExtension{gltf.PolyformTextureTransform{Offset: &o}}
}

// Value returns component c of vertex i of attribute id.
func value(vmode string, vseed, id, ar, i, c int, rng *rand.Rand) float64 {
	if id == 7 { // Joint: unsigned bytes
		return float64((vseed*3 + i*5 + c*11 + 250) % 256)
	}
	if vmode == "float" {
		switch rng.Intn(6) {
		case 0:
			return float64(rng.Intn(2001)-1000) * 0.1
		case 1:
			return float64(rng.Intn(2001)-1000) / 3
		case 2:
			return (rng.Float64() - 0.5) * 1e-3
		case 3:
			return 1e5 + rng.Float64()
		case 4:
			return math.Ldexp(rng.Float64()-0.5, rng.Intn(60)-30)
		}
		return float64(rng.Intn(17) - 8)
	}
	k := ((vseed*131+id*31+i*17+c*7)%97+97)%97 - 48
	return float64(k) / 8
}

// NSpecial is the number of kinds SpecialValue knows (1..NSpecial).
const NSpecial = 14

// SpecialValue: the doubles the ordinary value tables never produce. What the
// writer has to do with them is said by GltfDoc.tla, not here.
func SpecialValue(k int) float64 {
	switch k {
	case 1:
		return math.NaN()
	case 2:
		return math.Inf(1)
	case 3:
		return math.Inf(-1)
	case 4:
		return math.Copysign(0, -1)
	case 5:
		return math.MaxFloat32
	case 6:
		return -math.MaxFloat32
	case 7:
		return math.SmallestNonzeroFloat32 // subnormal single
	case 8:
		return 1e39 // finite double, +Inf as a single
	case 9:
		return -1e39
	case 10:
		return 1e-50 // finite double, +0 as a single
	case 11:
		return math.MaxFloat64
	case 12:
		return math.Float64frombits(0xFFF8000000ABCDEF) // NaN with sign and payload
	case 13:
		return math.MaxFloat32 * (1 + 1.0/(1<<30)) // not a single; rounds DOWN to MaxFloat32
	case 14:
		return -math.SmallestNonzeroFloat32 / 4 // rounds to -0
	}
	panic("unknown special value kind " + strconv.Itoa(k))
}

// ---------------------------------------------------------------------------
// building the real scene
// ---------------------------------------------------------------------------

type Built struct {
	Scene  gltf.PolyformScene
	Meshes []*modeling.Mesh
	Texs   []*gltf.PolyformTexture
	Mats   []*gltf.PolyformMaterial
}

func buildMesh(d DMesh, vmode string) modeling.Mesh {
	idx := make([]int, 0, d.Ni)
	if len(d.Idx) > 0 {
		idx = append(idx, d.Idx...)
	} else {
		for j := 0; j < d.Ni; j++ {
			idx = append(idx, d.Nv-1-(j%d.Nv))
		}
	}
	m := modeling.NewMesh(project.TopoOf(d.Topo), idx)
	for ai, a := range d.Attrs {
		rng := rand.New(rand.NewSource(int64(d.VSeed)*1000003 + int64(a.Id)*101 + int64(a.Ar)))
		name := project.AttrName(a.Id)
		if a.Ar < 1 || a.Ar > 4 {
			panic(fmt.Sprintf("bad arity %d", a.Ar))
		}
		comp := make([][4]float64, d.Nv)
		for i := range comp {
			for c := 0; c < a.Ar; c++ {
				comp[i][c] = value(vmode, d.VSeed, a.Id, a.Ar, i, c, rng)
			}
		}
		for _, sp := range d.Spec {
			if sp.A == ai && d.Nv > 0 {
				comp[((sp.I%d.Nv)+d.Nv)%d.Nv][((sp.C%a.Ar)+a.Ar)%a.Ar] = SpecialValue(sp.K)
			}
		}
		switch a.Ar {
		case 1:
			data := make([]float64, d.Nv)
			for i := range data {
				data[i] = comp[i][0]
			}
			m = m.SetFloat1Attribute(name, data)
		case 2:
			data := make([]vector2.Float64, d.Nv)
			for i := range data {
				data[i] = vector2.New(comp[i][0], comp[i][1])
			}
			m = m.SetFloat2Attribute(name, data)
		case 3:
			data := make([]vector3.Float64, d.Nv)
			for i := range data {
				data[i] = vector3.New(comp[i][0], comp[i][1], comp[i][2])
			}
			m = m.SetFloat3Attribute(name, data)
		case 4:
			data := make([]vector4.Float64, d.Nv)
			for i := range data {
				data[i] = vector4.New(comp[i][0], comp[i][1], comp[i][2], comp[i][3])
			}
			m = m.SetFloat4Attribute(name, data)
		}
	}
	return m
}

func alphaMode(k int) *gltf.MaterialAlphaMode {
	var m gltf.MaterialAlphaMode
	switch k {
	case 0:
		return nil
	case 1:
		m = gltf.MaterialAlphaMode_OPAQUE
	case 2:
		m = gltf.MaterialAlphaMode_MASK
	default:
		m = gltf.MaterialAlphaMode_BLEND
	}
	return &m
}

func f8(k int) float64 { return float64(k) / 8 }

func buildExt(e DExt, tex func(int) *gltf.PolyformTexture) gltf.MaterialExtension {
	switch e.K {
	case "transmission":
		return gltf.PolyformTransmission{Factor: f8(e.F), Texture: tex(e.Tex)}
	case "volume":
		return gltf.PolyformVolume{ThicknessFactor: f8(e.F), ThicknessTexture: tex(e.Tex), AttenuationDistance: eighth(e.F2),
			AttenuationColor: colorOf(e.Col)}
	case "ior":
		return gltf.PolyformIndexOfRefraction{IOR: eighth(e.F)}
	case "unlit":
		return gltf.PolyformUnlit{}
	case "clearcoat":
		return gltf.PolyformClearcoat{ClearcoatFactor: f8(e.F), ClearcoatTexture: tex(e.Tex),
			ClearcoatRoughnessFactor: f8(e.F2), ClearcoatRoughnessTexture: tex(e.Tex2)}
	case "specular":
		return gltf.PolyformSpecular{Factor: eighth(e.F), Texture: tex(e.Tex), ColorFactor: colorOf(e.Col), ColorTexture: tex(e.Tex2)}
	case "emissive_strength":
		return gltf.PolyformEmissiveStrength{EmissiveStrength: eighth(e.F)}
	case "dispersion":
		return gltf.PolyformDispersion{Dispersion: f8(e.F)}
	case "sheen":
		return gltf.PolyformSheen{SheenColorFactor: colorOf(e.Col), SheenColorTexture: tex(e.Tex),
			SheenRoughnessFactor: f8(e.F), SheenRoughnessTexture: tex(e.Tex2)}
	case "anisotropy":
		return gltf.PolyformAnisotropy{AnisotropyStrength: f8(e.F), AnisotropyRotation: f8(e.F2), AnisotropyTexture: tex(e.Tex)}
	}
	panic("unknown material extension kind " + e.K)
}

func div(d Desc) float64 {
	if d.Div == 0 {
		return 8
	}
	return float64(d.Div)
}

func v3of(v []int, dv float64) vector3.Float64 {
	return vector3.New(float64(v[0])/dv, float64(v[1])/dv, float64(v[2])/dv)
}

func fracs(v []int, dv float64) []float64 {
	out := make([]float64, len(v))
	for i, x := range v {
		out[i] = float64(x) / dv
	}
	return out
}

func quatOf(v []int, dv float64) quaternion.Quaternion {
	return quaternion.New(vector3.New(float64(v[0])/dv, float64(v[1])/dv, float64(v[2])/dv), float64(v[3])/dv)
}

// Build constructs the real scene. Every pool entry is one Go object; models
// that name the same pool index share the pointer.
func Build(d Desc) Built {
	b := Built{}
	// only meshes a model names are built (a pool may hold 65 536-vertex entries)
	b.Meshes = make([]*modeling.Mesh, len(d.Meshes))
	for _, dm := range d.Models {
		if dm.Mesh > 0 && b.Meshes[dm.Mesh-1] == nil {
			m := buildMesh(d.Meshes[dm.Mesh-1], d.VMode)
			b.Meshes[dm.Mesh-1] = &m
		}
	}
	for _, dt := range d.Texs {
		b.Texs = append(b.Texs, &gltf.PolyformTexture{URI: "img" + strconv.Itoa(dt.Uri) + ".png", Sampler: samplerOf(dt.Samp),
			Extensions: xfOf(dt.Xf)})
	}
	tex := func(i int) *gltf.PolyformTexture {
		if i <= 0 {
			return nil
		}
		return b.Texs[i-1]
	}
	for _, dm := range d.Mats {
		m := &gltf.PolyformMaterial{AlphaMode: alphaMode(dm.AMode), AlphaCutoff: eighth(dm.Cutoff), EmissiveFactor: colorOf(dm.Emis)}
		if dm.Name > 0 {
			m.Name = "mat" + strconv.Itoa(dm.Name)
		}
		if dm.Pbr > 0 {
			m.PbrMetallicRoughness = &gltf.PolyformPbrMetallicRoughness{
				BaseColorFactor: colorOf(dm.Bc), BaseColorTexture: tex(dm.BTex),
				MetallicFactor: eighth(dm.Met), RoughnessFactor: eighth(dm.Rough), MetallicRoughnessTexture: tex(dm.MrTex)}
		}
		if dm.NTex > 0 {
			m.NormalTexture = &gltf.PolyformNormal{PolyformTexture: tex(dm.NTex), Scale: eighth(dm.NScale)}
		}
		if dm.OTex > 0 {
			m.OcclusionTexture = &gltf.PolyformOcclusion{PolyformTexture: tex(dm.OTex), Strength: eighth(dm.OStr)}
		}
		for _, e := range dm.Exts {
			m.Extensions = append(m.Extensions, buildExt(e, tex))
		}
		if dm.Extras > 0 {
			m.Extras = map[string]any{"tag": dm.Extras}
		}
		b.Mats = append(b.Mats, m)
	}
	dv := div(d)
	for _, dm := range d.Models {
		pm := gltf.PolyformModel{}
		if dm.Name > 0 {
			pm.Name = "model" + strconv.Itoa(dm.Name)
		}
		if dm.Mesh > 0 {
			pm.Mesh = b.Meshes[dm.Mesh-1]
		}
		if dm.Mat > 0 {
			pm.Material = b.Mats[dm.Mat-1]
		}
		if len(dm.Trs.T) == 3 {
			v := v3of(dm.Trs.T, dv)
			pm.Translation = &v
		}
		if len(dm.Trs.R) == 4 {
			q := quatOf(dm.Trs.R, dv)
			pm.Rotation = &q
		}
		if len(dm.Trs.S) == 3 {
			v := v3of(dm.Trs.S, dv)
			pm.Scale = &v
		}
		for _, in := range dm.Inst {
			t := [][]float64{fracs(in.T, dv), fracs(in.R, dv), fracs(in.S, dv)}
			for _, sp := range in.Sp {
				part := t[((sp.A%3)+3)%3]
				part[((sp.C%len(part))+len(part))%len(part)] = SpecialValue(sp.K)
			}
			pm.GpuInstances = append(pm.GpuInstances, trs.New(vector3.New(t[0][0], t[0][1], t[0][2]),
				quaternion.New(vector3.New(t[1][0], t[1][1], t[1][2]), t[1][3]), vector3.New(t[2][0], t[2][1], t[2][2])))
		}
		if dm.Anim > 0 {
			pm.Animations = []animation.Sequence{animation.NewSequence("joint", []animation.Frame[vector3.Float64]{
				animation.NewFrame(0, vector3.New(0., 0., 0.)), animation.NewFrame(1, vector3.New(1., 0., 0.))})}
		}
		b.Scene.Models = append(b.Scene.Models, pm)
	}
	for _, dl := range d.Lights {
		l := gltf.KHR_LightsPunctual{Color: colorOf(dl.Col), Intensity: eighth(dl.Inten), Range: eighth(dl.Range), Position: v3of(dl.Pos, dv)}
		switch dl.Type {
		case 1:
			l.Type = gltf.KHR_LightsPunctualType_Directional
		case 2:
			l.Type = gltf.KHR_LightsPunctualType_Point
		case 3:
			l.Type = gltf.KHR_LightsPunctualType_Spot
		}
		b.Scene.Lights = append(b.Scene.Lights, l)
	}
	return b
}
