package gltffam

import (
	"bufio"
	"encoding/json"
	"math/rand"
	"os"
)

// attribute menu of the seeded generator: id -> arity (names via project.AttrName)
var attrMenu = []DAttr{
	{Ar: 3, Id: 1}, {Ar: 3, Id: 2}, {Ar: 3, Id: 3}, {Ar: 2, Id: 4}, {Ar: 4, Id: 7}, {Ar: 4, Id: 8},
	{Ar: 3, Id: 9}, {Ar: 4, Id: 10}, {Ar: 3, Id: 13}, {Ar: 2, Id: 14}, {Ar: 1, Id: 6},
}

func randTrs(r *rand.Rand, dv int, all bool) DTrs {
	t := DTrs{T: []int{}, R: []int{}, S: []int{}}
	if all || r.Intn(2) == 0 {
		t.T = []int{r.Intn(20*dv) - 10*dv, r.Intn(20*dv) - 10*dv, r.Intn(20*dv) - 10*dv}
	}
	if all || r.Intn(2) == 0 {
		t.R = []int{r.Intn(2*dv) - dv, r.Intn(2*dv) - dv, r.Intn(2*dv) - dv, r.Intn(2*dv) - dv}
	}
	if all || r.Intn(2) == 0 {
		t.S = []int{1 + r.Intn(4*dv), 1 + r.Intn(4*dv), 1 + r.Intn(4*dv)}
	}
	return t
}

func randMat(r *rand.Rand, ntex int) DMat {
	pick := func() int {
		if ntex == 0 || r.Intn(2) == 0 {
			return 0
		}
		return 1 + r.Intn(ntex)
	}
	opt := func(n int) int { return r.Intn(n+1) - 1 }
	m := DMat{Name: r.Intn(3), Pbr: r.Intn(2), Met: opt(8), Rough: opt(8), Bc: r.Intn(6), BTex: pick(), MrTex: pick(),
		NScale: -1, OStr: -1, Emis: r.Intn(4), AMode: r.Intn(4), Cutoff: -1, Exts: []DExt{}, Extras: r.Intn(5) / 4 * (1 + r.Intn(2))}
	if r.Intn(3) == 0 {
		m.NTex, m.NScale = pick(), opt(16)
	}
	if r.Intn(3) == 0 {
		m.OTex, m.OStr = pick(), opt(8)
	}
	if m.AMode == 2 && r.Intn(2) == 0 {
		m.Cutoff = r.Intn(9)
	}
	kinds := []string{"transmission", "volume", "ior", "unlit", "clearcoat", "specular", "emissive_strength", "dispersion", "sheen", "anisotropy"}
	r.Shuffle(len(kinds), func(i, j int) { kinds[i], kinds[j] = kinds[j], kinds[i] })
	for _, k := range kinds[:r.Intn(3)] {
		m.Exts = append(m.Exts, DExt{K: k, F: opt(12), F2: opt(12), Tex: pick(), Tex2: pick(), Col: r.Intn(5)})
		e := &m.Exts[len(m.Exts)-1]
		switch k { // factors that are not optional in the Go struct
		case "transmission", "volume", "clearcoat", "dispersion", "sheen", "anisotropy":
			if e.F < 0 {
				e.F = 0
			}
			if e.F2 < 0 && (k == "clearcoat" || k == "anisotropy") {
				e.F2 = 0
			}
		}
	}
	return m
}

func randScene(r *rand.Rand, maxv int) Desc {
	d := Desc{Tag: "random", VMode: "lattice", Div: 8, Meshes: []DMesh{}, Texs: []DTex{}, Mats: []DMat{}, Models: []DModel{},
		Lights: []DLight{}, Kinds: []string{}, Risk: []string{}}
	if r.Intn(2) == 0 {
		d.VMode = "float"
		d.Div = 1000
	}
	nmesh := 1 + r.Intn(4)
	for i := 0; i < nmesh; i++ {
		m := DMesh{Topo: "triangle", Nv: 1 + r.Intn(maxv), Attrs: []DAttr{}, VSeed: r.Intn(1000), Idx: []int{}}
		var np int
		if r.Intn(3) == 0 {
			m.Topo = "point"
			np = 1 + r.Intn(2*m.Nv)
			m.Ni = np
		} else {
			np = 1 + r.Intn(m.Nv+2)
			m.Ni = 3 * np
		}
		if r.Intn(12) == 0 { // an empty mesh: the model must be skipped
			m.Ni = 0
		}
		for j := 0; j < m.Ni; j++ {
			m.Idx = append(m.Idx, r.Intn(m.Nv))
		}
		if m.Ni > 0 && r.Intn(2) == 0 {
			m.Idx[r.Intn(m.Ni)] = m.Nv - 1
		}
		perm := r.Perm(len(attrMenu))
		na := 1 + r.Intn(5)
		if r.Intn(4) != 0 {
			m.Attrs = append(m.Attrs, attrMenu[0]) // Position most of the time
		}
		for _, k := range perm[:na] {
			if attrMenu[k].Id == 1 && len(m.Attrs) > 0 {
				continue
			}
			m.Attrs = append(m.Attrs, attrMenu[k])
		}
		d.Meshes = append(d.Meshes, m)
	}
	ntex := r.Intn(5)
	for i := 0; i < ntex; i++ {
		if i > 0 && r.Intn(3) == 0 {
			d.Texs = append(d.Texs, d.Texs[r.Intn(i)]) // equal-by-value duplicate under a new pointer
			continue
		}
		if i > 0 && r.Intn(3) == 0 { // same image and sampler value, another texture transform
			t := d.Texs[r.Intn(i)]
			t.Xf = (t.Xf + 1 + r.Intn(3)) % 4
			d.Texs = append(d.Texs, t)
			continue
		}
		d.Texs = append(d.Texs, DTex{Uri: 1 + r.Intn(3), Samp: r.Intn(4), Xf: r.Intn(4) * r.Intn(2)})
	}
	nmat := r.Intn(5)
	for i := 0; i < nmat; i++ {
		if i > 0 && r.Intn(3) == 0 {
			d.Mats = append(d.Mats, d.Mats[r.Intn(i)]) // equal-by-value duplicate under a new pointer
			continue
		}
		if i > 0 && r.Intn(3) == 0 { // near duplicate: one member differs
			m := d.Mats[r.Intn(i)]
			m.Exts = append([]DExt{}, m.Exts...)
			switch r.Intn(8) {
			case 6:
				if ntex > 0 {
					m.Pbr, m.BTex = 1, 1+r.Intn(ntex)
				}
			case 7:
				if ntex > 0 && len(m.Exts) > 0 {
					m.Exts[0].Tex = 1 + r.Intn(ntex)
				}
			case 0:
				if ntex > 0 {
					m.NTex = 1 + r.Intn(ntex)
				}
			case 1:
				if ntex > 0 {
					m.OTex = 1 + r.Intn(ntex)
				}
			case 2:
				m.Extras = 3 - m.Extras
			case 3:
				m.Emis = (m.Emis + 1) % 4
			case 4:
				m.Name = (m.Name + 1) % 3
			case 5:
				m.NScale = (m.NScale+2)%8 - 1
			}
			d.Mats = append(d.Mats, m)
			continue
		}
		d.Mats = append(d.Mats, randMat(r, ntex))
	}
	nmodel := 1 + r.Intn(6)
	for i := 0; i < nmodel; i++ {
		m := DModel{Name: r.Intn(4), Mesh: 1 + r.Intn(nmesh), Trs: randTrs(r, d.Div, false), Inst: []DTrs{}}
		if nmat > 0 && r.Intn(4) != 0 {
			m.Mat = 1 + r.Intn(nmat)
		}
		if r.Intn(4) == 0 {
			for k := 1 + r.Intn(3); k > 0; k-- {
				m.Inst = append(m.Inst, randTrs(r, d.Div, true))
			}
		}
		d.Models = append(d.Models, m)
	}
	for k := r.Intn(3); k > 0; k-- {
		d.Lights = append(d.Lights, DLight{Type: r.Intn(4), Col: r.Intn(4), Inten: r.Intn(10) - 1, Range: r.Intn(10) - 1,
			Pos: []int{r.Intn(100) - 50, r.Intn(100) - 50, r.Intn(100) - 50}})
	}
	return d
}

// bigScene exercises the 16/32-bit index threshold with real meshes of
// nv vertices whose indices reference vertex nv-1.
func bigScene(r *rand.Rand, nv int, kinds []string) Desc {
	d := Desc{Tag: "big", VMode: "lattice", Div: 8, Meshes: []DMesh{}, Texs: []DTex{}, Mats: []DMat{}, Models: []DModel{},
		Lights: []DLight{}, Kinds: kinds, Risk: []string{}}
	attrs := []DAttr{{Ar: 3, Id: 1}}
	if r.Intn(2) == 0 {
		attrs = append(attrs, DAttr{Ar: 2, Id: 4})
	}
	topo, ni := "triangle", 3*(1+r.Intn(3))
	if r.Intn(3) == 0 {
		topo, ni = "point", nv
	}
	d.Meshes = append(d.Meshes, DMesh{Topo: topo, Nv: nv, Ni: ni, Idx: []int{}, Attrs: attrs, VSeed: r.Intn(1000)})
	d.Meshes = append(d.Meshes, DMesh{Topo: "triangle", Nv: 3, Ni: 3, Idx: []int{2, 0, 1}, Attrs: []DAttr{{Ar: 3, Id: 1}}, VSeed: 5})
	d.Models = append(d.Models, DModel{Name: 1, Mesh: 1, Trs: DTrs{T: []int{}, R: []int{}, S: []int{}}, Inst: []DTrs{}})
	d.Models = append(d.Models, DModel{Name: 2, Mesh: 2, Trs: DTrs{T: []int{}, R: []int{}, S: []int{}}, Inst: []DTrs{}})
	if r.Intn(2) == 0 {
		d.Models[0], d.Models[1] = d.Models[1], d.Models[0]
	}
	return d
}

// GenRandom writes n seeded scene descriptors plus `big` threshold scenes.
func GenRandom(out string, seed int64, n, maxv, big int) error {
	fo, err := os.Create(out)
	if err != nil {
		return err
	}
	defer fo.Close()
	w := bufio.NewWriter(fo)
	defer w.Flush()
	enc := json.NewEncoder(w)
	r := rand.New(rand.NewSource(seed))
	for i := 0; i < n; i++ {
		if err := enc.Encode(randScene(r, maxv)); err != nil {
			return err
		}
	}
	sizes := []int{65535, 65536, 65534, 65537, 70001}
	for i := 0; i < big; i++ {
		kinds := []string{"glb"}
		if i%4 == 1 {
			kinds = []string{"text"}
		}
		if err := enc.Encode(bigScene(r, sizes[i%len(sizes)], kinds)); err != nil {
			return err
		}
	}
	return nil
}
