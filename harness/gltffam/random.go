package gltffam

import (
	"bufio"
	"encoding/json"
	"math/rand"
	"os"
)

// attribute menu of the seeded generator: id -> arity (names via project.AttrName)
var attrMenu = []DAttr{
	{Ar: 3, Id: 1}, {Ar: 3, Id: 2}, {Ar: 3, Id: 3}, {Ar: 2, Id: 4}, {Ar: 4, Id: 7}, {Ar: 4, Id: 8},
	{Ar: 3, Id: 9}, {Ar: 4, Id: 10}, {Ar: 3, Id: 13}, {Ar: 2, Id: 14}, {Ar: 1, Id: 6},
}

func randTrs(r *rand.Rand, dv int, all bool) DTrs {
	t := DTrs{T: []int{}, R: []int{}, S: []int{}}
	if all || r.Intn(2) == 0 {
		t.T = []int{r.Intn(20*dv) - 10*dv, r.Intn(20*dv) - 10*dv, r.Intn(20*dv) - 10*dv}
	}
	if all || r.Intn(2) == 0 {
		t.R = []int{r.Intn(2*dv) - dv, r.Intn(2*dv) - dv, r.Intn(2*dv) - dv, r.Intn(2*dv) - dv}
	}
	if all || r.Intn(2) == 0 {
		t.S = []int{1 + r.Intn(4*dv), 1 + r.Intn(4*dv), 1 + r.Intn(4*dv)}
	}
	return t
}

func randMat(r *rand.Rand, ntex int) DMat {
	pick := func() int {
		if ntex == 0 || r.Intn(2) == 0 {
			return 0
		}
		return 1 + r.Intn(ntex)
	}
	opt := func(n int) int { return r.Intn(n+1) - 1 }
	m := DMat{Name: r.Intn(3), Pbr: r.Intn(2), Met: opt(8), Rough: opt(8), Bc: r.Intn(6), BTex: pick(), MrTex: pick(),
		NScale: -1, OStr: -1, Emis: r.Intn(4), AMode: r.Intn(4), Cutoff: -1, Exts: []DExt{}, Extras: r.Intn(5) / 4 * (1 + r.Intn(2))}
	if r.Intn(3) == 0 {
		m.NTex, m.NScale = pick(), opt(16)
	}
	if r.Intn(3) == 0 {
		m.OTex, m.OStr = pick(), opt(8)
	}
	if m.AMode == 2 && r.Intn(2) == 0 {
		m.Cutoff = r.Intn(9)
	}
	kinds := []string{"transmission", "volume", "ior", "unlit", "clearcoat", "specular", "emissive_strength", "dispersion", "sheen", "anisotropy"}
	r.Shuffle(len(kinds), func(i, j int) { kinds[i], kinds[j] = kinds[j], kinds[i] })
	for _, k := range kinds[:r.Intn(3)] {
		m.Exts = append(m.Exts, DExt{K: k, F: opt(12), F2: opt(12), Tex: pick(), Tex2: pick(), Col: r.Intn(5)})
		e := &m.Exts[len(m.Exts)-1]
		switch k { // factors that are not optional in the Go struct
		case "transmission", "volume", "clearcoat", "dispersion", "sheen", "anisotropy":
			if e.F < 0 {
				e.F = 0
			}
			if e.F2 < 0 && (k == "clearcoat" || k == "anisotropy") {
				e.F2 = 0
			}
		}
	}
	return m
}

func randScene(r *rand.Rand, maxv int) Desc {
	d := Desc{Tag: "random", VMode: "lattice", Div: 8, Meshes: []DMesh{}, Texs: []DTex{}, Mats: []DMat{}, Models: []DModel{},
		Lights: []DLight{}, Kinds: []string{}, Risk: []string{}}
	if r.Intn(2) == 0 {
		d.VMode = "float"
		d.Div = 1000
	}
	nmesh := 1 + r.Intn(4)
	for i := 0; i < nmesh; i++ {
		m := DMesh{Topo: "triangle", Nv: 1 + r.Intn(maxv), Attrs: []DAttr{}, VSeed: r.Intn(1000), Idx: []int{}}
		var np int
		if r.Intn(3) == 0 {
			m.Topo = "point"
			np = 1 + r.Intn(2*m.Nv)
			m.Ni = np
		} else {
			np = 1 + r.Intn(m.Nv+2)
			m.Ni = 3 * np
		}
		if r.Intn(12) == 0 { // an empty mesh: the model must be skipped
			m.Ni = 0
		}
		for j := 0; j < m.Ni; j++ {
			m.Idx = append(m.Idx, r.Intn(m.Nv))
		}
		if m.Ni > 0 && r.Intn(2) == 0 {
			m.Idx[r.Intn(m.Ni)] = m.Nv - 1
		}
		perm := r.Perm(len(attrMenu))
		na := 1 + r.Intn(5)
		if r.Intn(4) != 0 {
			m.Attrs = append(m.Attrs, attrMenu[0]) // Position most of the time
		}
		for _, k := range perm[:na] {
			if attrMenu[k].Id == 1 && len(m.Attrs) > 0 {
				continue
			}
			m.Attrs = append(m.Attrs, attrMenu[k])
		}
		d.Meshes = append(d.Meshes, m)
	}
	ntex := r.Intn(5)
	for i := 0; i < ntex; i++ {
		if i > 0 && r.Intn(3) == 0 {
			d.Texs = append(d.Texs, d.Texs[r.Intn(i)]) // equal-by-value duplicate under a new pointer
			continue
		}
		if i > 0 && r.Intn(3) == 0 { // same image and sampler value, another texture transform
			t := d.Texs[r.Intn(i)]
			t.Xf = (t.Xf + 1 + r.Intn(3)) % 4
			d.Texs = append(d.Texs, t)
			continue
		}
		d.Texs = append(d.Texs, DTex{Uri: 1 + r.Intn(3), Samp: r.Intn(4), Xf: r.Intn(4) * r.Intn(2)})
	}
	nmat := r.Intn(5)
	for i := 0; i < nmat; i++ {
		if i > 0 && r.Intn(3) == 0 {
			d.Mats = append(d.Mats, d.Mats[r.Intn(i)]) // equal-by-value duplicate under a new pointer
			continue
		}
		if i > 0 && r.Intn(3) == 0 { // near duplicate: one member differs
			m := d.Mats[r.Intn(i)]
			m.Exts = append([]DExt{}, m.Exts...)
			switch r.Intn(8) {
			case 6:
				if ntex > 0 {
					m.Pbr, m.BTex = 1, 1+r.Intn(ntex)
				}
			case 7:
				if ntex > 0 && len(m.Exts) > 0 {
					m.Exts[0].Tex = 1 + r.Intn(ntex)
				}
			case 0:
				if ntex > 0 {
					m.NTex = 1 + r.Intn(ntex)
				}
			case 1:
				if ntex > 0 {
					m.OTex = 1 + r.Intn(ntex)
				}
			case 2:
				m.Extras = 3 - m.Extras
			case 3:
				m.Emis = (m.Emis + 1) % 4
			case 4:
				m.Name = (m.Name + 1) % 3
			case 5:
				m.NScale = (m.NScale+2)%8 - 1
			}
			d.Mats = append(d.Mats, m)
			continue
		}
		d.Mats = append(d.Mats, randMat(r, ntex))
	}
	nmodel := 1 + r.Intn(6)
	for i := 0; i < nmodel; i++ {
		m := DModel{Name: r.Intn(4), Mesh: 1 + r.Intn(nmesh), Trs: randTrs(r, d.Div, false), Inst: []DTrs{}}
		if nmat > 0 && r.Intn(4) != 0 {
			m.Mat = 1 + r.Intn(nmat)
		}
		if r.Intn(4) == 0 {
			for k := 1 + r.Intn(3); k > 0; k-- {
				m.Inst = append(m.Inst, randTrs(r, d.Div, true))
			}
		}
		d.Models = append(d.Models, m)
	}
	for k := r.Intn(3); k > 0; k-- {
		d.Lights = append(d.Lights, DLight{Type: r.Intn(4), Col: r.Intn(4), Inten: r.Intn(10) - 1, Range: r.Intn(10) - 1,
			Pos: []int{r.Intn(100) - 50, r.Intn(100) - 50, r.Intn(100) - 50}})
	}
	return d
}

// addSpecials writes special IEEE values (SpecialValue) over the data of a scene: into vector
// attributes of meshes a model names (never Joint: NaN has no integer image) and into GPU
// instances.  Roughly: half of the values are NaN; a quarter of the NaN hits blank a whole
// element; +-Inf (which no glTF document can declare as a bound) is kept to one hit in eight.
func addSpecials(r *rand.Rand, d *Desc) {
	kind := func() int {
		switch r.Intn(8) {
		case 0, 1, 2:
			return 1
		case 3:
			return 12
		case 4:
			return 2 + r.Intn(2)
		}
		return 4 + r.Intn(NSpecial-3) // 4..NSpecial
	}
	used := map[int]bool{}
	for _, m := range d.Models {
		used[m.Mesh-1] = true
	}
	hits := 0
	for mi := range d.Meshes {
		m := &d.Meshes[mi]
		var cand []int
		for ai, a := range m.Attrs {
			if a.Ar >= 2 && a.Id != 7 {
				cand = append(cand, ai)
			}
		}
		if !used[mi] || len(cand) == 0 || m.Nv == 0 || (hits > 0 && r.Intn(2) == 0) {
			continue
		}
		for n := 1 + r.Intn(3); n > 0; n-- {
			ai := cand[r.Intn(len(cand))]
			ar, vi, k := m.Attrs[ai].Ar, r.Intn(m.Nv), kind()
			if len(m.Idx) > 0 && r.Intn(2) == 0 { // a vertex some corner really names
				vi = m.Idx[r.Intn(len(m.Idx))]
			}
			if (k == 1 || k == 12) && r.Intn(4) == 0 {
				for c := 0; c < ar; c++ {
					m.Spec = append(m.Spec, DSpecial{A: ai, I: vi, C: c, K: k})
				}
			} else {
				m.Spec = append(m.Spec, DSpecial{A: ai, I: vi, C: r.Intn(ar), K: k})
			}
			hits++
		}
	}
	for mi := range d.Models {
		for ii := range d.Models[mi].Inst {
			if r.Intn(3) == 0 {
				in := &d.Models[mi].Inst[ii]
				in.Sp = append(in.Sp, DSpecial{A: r.Intn(3), C: r.Intn(4), K: kind()})
			}
		}
	}
}

// specialScene: a seeded scene as randScene makes them, with special values written over it.
func specialScene(r *rand.Rand, maxv int) Desc {
	d := randScene(r, maxv)
	d.Tag = "special"
	addSpecials(r, &d)
	return d
}

// bigScene exercises the 16/32-bit index threshold with real meshes of
// nv vertices whose indices reference vertex nv-1.
func bigScene(r *rand.Rand, nv int, kinds []string, special bool) Desc {
	d := Desc{Tag: "big", VMode: "lattice", Div: 8, Meshes: []DMesh{}, Texs: []DTex{}, Mats: []DMat{}, Models: []DModel{},
		Lights: []DLight{}, Kinds: kinds, Risk: []string{}}
	attrs := []DAttr{{Ar: 3, Id: 1}}
	if r.Intn(2) == 0 {
		attrs = append(attrs, DAttr{Ar: 2, Id: 4})
	}
	topo, ni := "triangle", 3*(1+r.Intn(3))
	if r.Intn(3) == 0 {
		topo, ni = "point", nv
	}
	d.Meshes = append(d.Meshes, DMesh{Topo: topo, Nv: nv, Ni: ni, Idx: []int{}, Attrs: attrs, VSeed: r.Intn(1000)})
	if special {
		// NaNs in a mesh that is judged on summaries: one component, a whole element, the last vertex
		for ai, a := range attrs {
			d.Meshes[0].Spec = append(d.Meshes[0].Spec, DSpecial{A: ai, I: r.Intn(nv), C: r.Intn(a.Ar), K: 1},
				DSpecial{A: ai, I: nv - 1, C: r.Intn(a.Ar), K: 12})
			vi := r.Intn(nv)
			for c := 0; c < a.Ar; c++ {
				d.Meshes[0].Spec = append(d.Meshes[0].Spec, DSpecial{A: ai, I: vi, C: c, K: 1})
			}
			d.Meshes[0].Spec = append(d.Meshes[0].Spec, DSpecial{A: ai, I: r.Intn(nv), C: r.Intn(a.Ar), K: 4 + r.Intn(NSpecial-3)})
		}
	}
	d.Meshes = append(d.Meshes, DMesh{Topo: "triangle", Nv: 3, Ni: 3, Idx: []int{2, 0, 1}, Attrs: []DAttr{{Ar: 3, Id: 1}}, VSeed: 5})
	d.Models = append(d.Models, DModel{Name: 1, Mesh: 1, Trs: DTrs{T: []int{}, R: []int{}, S: []int{}}, Inst: []DTrs{}})
	d.Models = append(d.Models, DModel{Name: 2, Mesh: 2, Trs: DTrs{T: []int{}, R: []int{}, S: []int{}}, Inst: []DTrs{}})
	if r.Intn(2) == 0 {
		d.Models[0], d.Models[1] = d.Models[1], d.Models[0]
	}
	return d
}

// pairScenes: for every member of a material (and of the textures it names) one
// scene with two models whose materials differ in exactly that member, in both
// orders, plus scenes with equal-by-value copies under different pointers.
// They pin down what "equal by value" has to look at.
func pairScenes() []Desc {
	texs := []DTex{
		{Uri: 1, Samp: 1, Xf: 0}, // 1 base colour
		{Uri: 2, Samp: 2, Xf: 1}, // 2 metallic-roughness
		{Uri: 3, Samp: 0, Xf: 0}, // 3 normal
		{Uri: 1, Samp: 3, Xf: 2}, // 4 occlusion
		{Uri: 2, Samp: 1, Xf: 0}, // 5 extension texture
		{Uri: 1, Samp: 1, Xf: 0}, // 6 = 1 by value
		{Uri: 1, Samp: 2, Xf: 0}, // 7 = 1 with another sampler
		{Uri: 3, Samp: 1, Xf: 0}, // 8 = 1 with another image
		{Uri: 1, Samp: 1, Xf: 3}, // 9 = 1 with a (required) transform
		{Uri: 2, Samp: 1, Xf: 0}, // 10 = 5 by value
	}
	base := DMat{Name: 1, Pbr: 1, Met: 4, Rough: 2, Bc: 2, BTex: 1, MrTex: 2, NTex: 3, NScale: 4, OTex: 4, OStr: 6, Emis: 1, AMode: 2,
		Cutoff: 3, Extras: 1, Exts: []DExt{{K: "transmission", F: 4, F2: -1, Tex: 5}, {K: "specular", F: 6, F2: -1, Tex: 0, Tex2: 5, Col: 3}}}
	clone := func(m DMat) DMat { m.Exts = append([]DExt{}, m.Exts...); return m }
	type mut struct {
		name string
		f    func(m *DMat)
	}
	muts := []mut{
		{"name", func(m *DMat) { m.Name = 2 }}, {"noname", func(m *DMat) { m.Name = 0 }},
		{"nopbr", func(m *DMat) { m.Pbr = 0 }}, {"met", func(m *DMat) { m.Met = 5 }}, {"nomet", func(m *DMat) { m.Met = -1 }},
		{"rough", func(m *DMat) { m.Rough = 7 }}, {"bc", func(m *DMat) { m.Bc = 3 }}, {"nobc", func(m *DMat) { m.Bc = 0 }},
		{"btex-sampler", func(m *DMat) { m.BTex = 7 }}, {"btex-image", func(m *DMat) { m.BTex = 8 }},
		{"btex-transform", func(m *DMat) { m.BTex = 9 }}, {"nobtex", func(m *DMat) { m.BTex = 0 }},
		{"mrtex", func(m *DMat) { m.MrTex = 5 }}, {"ntex", func(m *DMat) { m.NTex = 5 }}, {"nontex", func(m *DMat) { m.NTex = 0 }},
		{"nscale", func(m *DMat) { m.NScale = 8 }}, {"otex", func(m *DMat) { m.OTex = 3 }}, {"nootex", func(m *DMat) { m.OTex = 0 }},
		{"ostr", func(m *DMat) { m.OStr = -1 }}, {"emis", func(m *DMat) { m.Emis = 2 }}, {"noemis", func(m *DMat) { m.Emis = 0 }},
		{"amode", func(m *DMat) { m.AMode, m.Cutoff = 3, -1 }}, {"cutoff", func(m *DMat) { m.Cutoff = 5 }},
		{"nocutoff", func(m *DMat) { m.Cutoff = -1 }}, {"extras", func(m *DMat) { m.Extras = 2 }}, {"noextras", func(m *DMat) { m.Extras = 0 }},
		{"ext-factor", func(m *DMat) { m.Exts[0].F = 5 }}, {"ext-tex", func(m *DMat) { m.Exts[0].Tex = 1 }},
		{"ext-ptr-factor", func(m *DMat) { m.Exts[1].F = 7 }}, {"ext-colour", func(m *DMat) { m.Exts[1].Col = 1 }},
		{"ext-tex2", func(m *DMat) { m.Exts[1].Tex2 = 0 }}, {"ext-dropped", func(m *DMat) { m.Exts = m.Exts[:1] }},
		{"ext-order", func(m *DMat) { m.Exts[0], m.Exts[1] = m.Exts[1], m.Exts[0] }},
		{"ext-added", func(m *DMat) { m.Exts = append(m.Exts, DExt{K: "unlit"}) }},
	}
	tri := DMesh{Topo: "triangle", Nv: 4, Ni: 6, Idx: []int{0, 1, 2, 2, 1, 3}, Attrs: []DAttr{{Ar: 3, Id: 1}, {Ar: 2, Id: 4}}, VSeed: 21}
	pts := DMesh{Topo: "point", Nv: 2, Ni: 2, Idx: []int{1, 0}, Attrs: []DAttr{{Ar: 3, Id: 1}}, VSeed: 22}
	noTrs := DTrs{T: []int{}, R: []int{}, S: []int{}}
	scene := func(tag string, mats []DMat, models []DModel) Desc {
		return Desc{Tag: tag, VMode: "lattice", Div: 8, Meshes: []DMesh{tri, pts}, Texs: texs, Mats: mats, Models: models,
			Lights: []DLight{}, Kinds: []string{}, Risk: []string{}}
	}
	var out []Desc
	// alpha mode alone (a cutoff is only legal with MASK, so both sides drop it)
	noCut := func(m *DMat) { m.AMode, m.Cutoff = 3, -1 }
	pre := map[string]func(m *DMat){"amode-only": noCut, "amode-nil": noCut}
	muts = append(muts, mut{"amode-only", func(m *DMat) { m.AMode = 1 }}, mut{"amode-nil", func(m *DMat) { m.AMode = 0 }})
	for i, mu := range muts {
		base := clone(base)
		if f, ok := pre[mu.name]; ok {
			f(&base)
		}
		other := clone(base)
		mu.f(&other)
		first, second := 1, 2
		if i%2 == 1 {
			first, second = 2, 1
		}
		// same mesh pointer for both models, a third model repeats the first material
		out = append(out, scene("pair-"+mu.name, []DMat{clone(base), other}, []DModel{
			{Name: 1, Mesh: 1, Mat: first, Trs: noTrs, Inst: []DTrs{}}, {Name: 2, Mesh: 1 + i%2, Mat: second, Trs: noTrs, Inst: []DTrs{}},
			{Name: 3, Mesh: 2, Mat: first, Trs: noTrs, Inst: []DTrs{}}}))
	}
	// equal by value under different pointers: same members, textures 6 and 10 instead of 1 and 5
	twin := clone(base)
	twin.BTex = 6
	twin.Exts[0].Tex = 10
	twin.Exts[1].Tex2 = 10
	out = append(out, scene("twin", []DMat{clone(base), twin, clone(base)}, []DModel{
		{Name: 1, Mesh: 1, Mat: 1, Trs: noTrs, Inst: []DTrs{}}, {Name: 2, Mesh: 1, Mat: 2, Trs: noTrs, Inst: []DTrs{}},
		{Name: 3, Mesh: 2, Mat: 3, Trs: noTrs, Inst: []DTrs{}}, {Name: 4, Mesh: 2, Mat: 0, Trs: noTrs, Inst: []DTrs{}}}))
	return out
}

// againKinds: every fourth scene is also written a second time from the same objects
// (see Container), alternating which entry point goes second.
func againKinds(i int) []string {
	switch i % 8 {
	case 0:
		return []string{"glb", "text", "glb-again"}
	case 4:
		return []string{"glb", "text", "text-again"}
	}
	return []string{}
}

// MidSizes: vertex counts around powers of two (and 65 536 / 3) between the element-wise
// judged meshes and the index-width threshold.  Nothing in the writer is known to depend on
// them; they are there so that a size-dependent path would not go unexercised.
var MidSizes = []int{4095, 4096, 4097, 16383, 16384, 16385, 21845, 21846, 32767, 32768, 32769}

// GenRandom writes the material pair scenes, n seeded scene descriptors, nsp seeded scenes with
// special IEEE values, `big` threshold scenes (every second one with NaNs) and `mid` scenes of
// the MidSizes (rotated by the seed).
func GenRandom(out string, seed int64, n, maxv, big, nsp, mid int) error {
	fo, err := os.Create(out)
	if err != nil {
		return err
	}
	defer fo.Close()
	w := bufio.NewWriter(fo)
	defer w.Flush()
	enc := json.NewEncoder(w)
	r := rand.New(rand.NewSource(seed))
	if n > 0 {
		for _, d := range pairScenes() {
			if err := enc.Encode(d); err != nil {
				return err
			}
		}
	}
	for i := 0; i < n; i++ {
		d := randScene(r, maxv)
		d.Kinds = againKinds(i + int(seed))
		if err := enc.Encode(d); err != nil {
			return err
		}
	}
	sizes := []int{65535, 65536, 65534, 65537, 70001}
	for i := 0; i < big; i++ {
		kinds := []string{"glb"}
		if i%4 == 1 {
			kinds = []string{"text"}
		}
		if err := enc.Encode(bigScene(r, sizes[i%len(sizes)], kinds, false)); err != nil {
			return err
		}
	}
	// Round 2 (own random streams: the scenes above are the ones they always were)
	rs := rand.New(rand.NewSource(seed*7919 + 17))
	for i := 0; i < nsp; i++ {
		d := specialScene(rs, maxv)
		d.Kinds = againKinds(i + int(seed) + 2)
		if err := enc.Encode(d); err != nil {
			return err
		}
	}
	rb := rand.New(rand.NewSource(seed*104729 + 3))
	for i := 0; i < big && nsp > 0; i += 2 { // the threshold sizes again, with NaNs
		kinds := []string{"glb"}
		if i%4 == 2 {
			kinds = []string{"text"}
		}
		d := bigScene(rb, sizes[(i/2+int(seed))%len(sizes)], kinds, true)
		d.Tag = "big-special"
		if err := enc.Encode(d); err != nil {
			return err
		}
	}
	for i := 0; i < mid; i++ {
		kinds := []string{"glb"}
		if (i+int(seed))%3 == 0 {
			kinds = []string{"text"}
		}
		d := bigScene(rb, MidSizes[(i+int(seed)*mid)%len(MidSizes)], kinds, i%2 == 1)
		d.Tag = "mid"
		if err := enc.Encode(d); err != nil {
			return err
		}
	}
	return nil
}
