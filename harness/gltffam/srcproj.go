package gltffam

import (
	"encoding/binary"
	"hash/fnv"
	"image/color"
	"math"
	"sort"
	"strconv"

	"github.com/EliCDavis/polyform/formats/gltf"
	"github.com/EliCDavis/polyform/modeling"
	"github.com/EliCDavis/vector/vector3"
)

// BigLimit: accessors / meshes with more elements than this are logged as
// counts, min/max, ranges and fingerprints only.
const BigLimit = 3000

// Leaf is one scalar leaf of a JSON-like tree (materials, extension payloads).
//
//	k=0 number  v = round(x*1000), x = "x*1000 is integral"
//	k=1 texture reference (path ends in ".index"); v = texture index
//	    (src: 1-based into src.texs ; out: 0-based into out.texs)
//	k=2 colour component, source side only; v = 16-bit channel of color.RGBA()
//	k=3 string / bool / empty container; s holds the text
type Leaf struct {
	P string `json:"p"`
	K int    `json:"k"`
	V int    `json:"v"`
	X bool   `json:"x"`
	S string `json:"s"`
}

func sortLeaves(l []Leaf) []Leaf {
	sort.SliceStable(l, func(i, j int) bool { return l[i].P < l[j].P })
	if l == nil {
		return []Leaf{}
	}
	return l
}

func numLeaf(p string, x float64) Leaf {
	r := math.Round(x * 1000)
	if math.IsNaN(x) || math.Abs(r) > 2e9 {
		return Leaf{P: p, K: 0, V: 0, X: false}
	}
	return Leaf{P: p, K: 0, V: int(r), X: math.Abs(x*1000-r) <= 1e-9}
}

// F32 is the int32 view of the IEEE-754 single closest to x (the "float32
// image" of the statement).
func F32(x float64) int { return int(int32(math.Float32bits(float32(x)))) }

// F64 splits the bits of a double into three non-negative chunks (22/21/21).
func F64(x float64) []int {
	b := math.Float64bits(x)
	return []int{int(b >> 42), int((b >> 21) & 0x1FFFFF), int(b & 0x1FFFFF)}
}

// NonFinite32 / NaN32: classes of an int32 view of a float32 (projection helpers: the
// specification classifies the logged bit patterns itself wherever they are logged).
func NonFinite32(v int) bool { return uint32(int32(v))&0x7F800000 == 0x7F800000 }
func NaN32(v int) bool       { return NonFinite32(v) && uint32(int32(v))&0x007FFFFF != 0 }

// CanonNaN: sign and payload of a NaN are not part of "the float32 image" of a value;
// fingerprints (big meshes only) are taken over images with every NaN replaced by one.
func CanonNaN(v int) int {
	if NaN32(v) {
		return 0x7FC00000
	}
	return v
}

func fingerprint(f func(emit func(int))) []int {
	h := fnv.New64a()
	var b [4]byte
	f(func(v int) {
		binary.LittleEndian.PutUint32(b[:], uint32(int32(v)))
		h.Write(b[:])
	})
	s := h.Sum64()
	return []int{int(s & 0xFFFFF), int((s >> 20) & 0xFFFFF), int((s >> 40) & 0xFFFFF)}
}

// ---------------------------------------------------------------------------

type SAttr struct {
	Name   string  `json:"name"`
	Ar     int     `json:"ar"`
	Data   [][]int `json:"data"`   // float32 image (int32 bit patterns) per vertex; [] when big
	IData  [][]int `json:"idata"`  // integer image, Joint only
	IExact bool    `json:"iexact"` // every Joint component is an integer in 0..255
	Nnf    int     `json:"nnf"`    // components whose float32 image is NaN or +-Inf (all vertices)
	Cfp    []int   `json:"cfp"`    // big only: fingerprint of the corner view of Data (NaNs canonical)
	ICfp   []int   `json:"icfp"`   // big only: same for IData
}

type SMesh struct {
	Topo  string   `json:"topo"`
	Nv    int      `json:"nv"`
	Ni    int      `json:"ni"`
	Prims int      `json:"prims"`
	Idx   []int    `json:"idx"` // [] when big
	IMin  int      `json:"imin"`
	IMax  int      `json:"imax"`
	Attrs []SAttr  `json:"attrs"` // arity 2..4, sorted by name
	F1    []string `json:"f1"`    // names of scalar attributes
	Big   bool     `json:"big"`
}

type STex struct {
	Uri   string `json:"uri"`
	Samp  []int  `json:"samp"` // [] = no sampler ; [mag,min,wrapS,wrapT] with wrap 0 -> 10497
	SName string `json:"sname"`
}

type SMat struct {
	Leaves   []Leaf `json:"leaves"`
	ExtOrder string `json:"extorder"` // extension ids in slice order (part of the Go value, not of the glTF material)
	Shape    string `json:"shape"`    // which optional members are nil (part of the Go value: nil and "explicit default" differ)
}

type STrs struct {
	T [][]int `json:"t"` // F64 chunks per component; [] = absent
	R [][]int `json:"r"`
	S [][]int `json:"s"`
}

type SInst struct {
	T []int `json:"t"` // float32 images
	R []int `json:"r"`
	S []int `json:"s"`
}

type SModel struct {
	Name  string  `json:"name"`
	Mesh  int     `json:"mesh"` // 1-based index into src.meshes (pointer identity), 0 = nil
	Mat   int     `json:"mat"`  // 1-based index into src.mats (pointer identity), 0 = none
	Empty bool    `json:"empty"`
	Trs   STrs    `json:"trs"`
	Inst  []SInst `json:"inst"`
}

type SLight struct {
	Type  string  `json:"type"`
	Col   []int   `json:"col"`   // 16-bit channels or []
	Inten []Leaf  `json:"inten"` // [] or one number leaf
	Range []Leaf  `json:"range"`
	Pos   [][]int `json:"pos"`
}

type Src struct {
	Meshes []SMesh  `json:"meshes"`
	Texs   []STex   `json:"texs"`
	Mats   []SMat   `json:"mats"`
	Models []SModel `json:"models"`
	Lights []SLight `json:"lights"`
}

func projectMesh(m *modeling.Mesh) SMesh {
	p := SMesh{Topo: m.Topology().String(), Nv: m.AttributeLength(), Prims: m.PrimitiveCount(), Idx: []int{}, Attrs: []SAttr{}, F1: []string{}}
	idx := m.Indices()
	p.Ni = idx.Len()
	p.Big = p.Ni > BigLimit || p.Nv > BigLimit
	raw := make([]int, p.Ni)
	for i := range raw {
		raw[i] = idx.At(i)
		if i == 0 || raw[i] < p.IMin {
			p.IMin = raw[i]
		}
		if i == 0 || raw[i] > p.IMax {
			p.IMax = raw[i]
		}
	}
	if !p.Big {
		p.Idx = raw
	}
	add := func(name string, ar, n int, at func(i int) []float64) {
		a := SAttr{Name: name, Ar: ar, Data: [][]int{}, IData: [][]int{}, IExact: true, Cfp: []int{}, ICfp: []int{}}
		isJoint := name == modeling.JointAttribute
		data := make([][]int, n)
		var idata [][]int
		if isJoint {
			idata = make([][]int, n)
		}
		for i := 0; i < n; i++ {
			vals := at(i)
			row := make([]int, len(vals))
			for c, x := range vals {
				row[c] = F32(x)
				if NonFinite32(row[c]) {
					a.Nnf++
				}
			}
			data[i] = row
			if isJoint {
				irow := make([]int, len(vals))
				for c, x := range vals {
					if x != math.Trunc(x) || x < 0 || x > 255 {
						a.IExact = false
					} else {
						irow[c] = int(x)
					}
				}
				idata[i] = irow
			}
		}
		if p.Big {
			corner := func(src [][]int, canon bool) []int {
				return fingerprint(func(emit func(int)) {
					for _, k := range raw {
						if k >= 0 && k < len(src) {
							for _, v := range src[k] {
								if canon {
									v = CanonNaN(v)
								}
								emit(v)
							}
						} else {
							emit(-1)
						}
					}
				})
			}
			a.Cfp = corner(data, true)
			if isJoint {
				a.ICfp = corner(idata, false)
			}
		} else {
			a.Data = data
			if isJoint {
				a.IData = idata
			}
		}
		p.Attrs = append(p.Attrs, a)
	}
	for _, name := range m.Float4Attributes() {
		it := m.Float4Attribute(name)
		add(name, 4, it.Len(), func(i int) []float64 { v := it.At(i); return []float64{v.X(), v.Y(), v.Z(), v.W()} })
	}
	for _, name := range m.Float3Attributes() {
		it := m.Float3Attribute(name)
		add(name, 3, it.Len(), func(i int) []float64 { v := it.At(i); return []float64{v.X(), v.Y(), v.Z()} })
	}
	for _, name := range m.Float2Attributes() {
		it := m.Float2Attribute(name)
		add(name, 2, it.Len(), func(i int) []float64 { v := it.At(i); return []float64{v.X(), v.Y()} })
	}
	p.F1 = append(p.F1, m.Float1Attributes()...)
	sort.Strings(p.F1)
	sort.SliceStable(p.Attrs, func(i, j int) bool { return p.Attrs[i].Name < p.Attrs[j].Name })
	return p
}

func wrapDefault(w int) int {
	if w == 0 {
		return 10497
	}
	return w
}

type srcProjector struct {
	src     Src
	meshIds map[*modeling.Mesh]int
	matIds  map[*gltf.PolyformMaterial]int
	texIds  map[*gltf.PolyformTexture]int
}

func (sp *srcProjector) tex(t *gltf.PolyformTexture) int {
	if id, ok := sp.texIds[t]; ok {
		return id
	}
	st := STex{Uri: t.URI, Samp: []int{}}
	if t.Sampler != nil {
		s := t.Sampler
		st.Samp = []int{int(s.MagFilter), int(s.MinFilter), wrapDefault(int(s.WrapS)), wrapDefault(int(s.WrapT))}
		st.SName = s.Name
	}
	sp.src.Texs = append(sp.src.Texs, st)
	sp.texIds[t] = len(sp.src.Texs)
	return len(sp.src.Texs)
}

// texRef emits the leaves of a textureInfo at path p.
func (sp *srcProjector) texRef(out *[]Leaf, p string, t *gltf.PolyformTexture) {
	if t == nil {
		return
	}
	*out = append(*out, Leaf{P: p + ".index", K: 1, V: sp.tex(t)})
	for _, e := range t.Extensions {
		tt, ok := e.(gltf.PolyformTextureTransform)
		if !ok {
			*out = append(*out, Leaf{P: p + ".extensions." + e.ExtensionID(), K: 3, S: "unprojected"})
			continue
		}
		q := p + ".extensions.KHR_texture_transform"
		n := 0
		if tt.Offset != nil {
			*out = append(*out, numLeaf(q+".offset.0", tt.Offset.X()), numLeaf(q+".offset.1", tt.Offset.Y()))
			n++
		}
		if tt.Rotation != nil {
			*out = append(*out, numLeaf(q+".rotation", *tt.Rotation))
			n++
		}
		if tt.Scale != nil {
			*out = append(*out, numLeaf(q+".scale.0", tt.Scale.X()), numLeaf(q+".scale.1", tt.Scale.Y()))
			n++
		}
		if tt.TexCoord != nil {
			*out = append(*out, numLeaf(q+".texCoord", float64(*tt.TexCoord)))
			n++
		}
		if n == 0 {
			*out = append(*out, Leaf{P: q, K: 3, S: "{}"})
		}
	}
}

func colLeaves(out *[]Leaf, p string, c color.Color, n int, def uint32) {
	ch := [4]uint32{def, def, def, def}
	if c != nil {
		ch[0], ch[1], ch[2], ch[3] = c.RGBA()
	}
	for i := 0; i < n; i++ {
		*out = append(*out, Leaf{P: p + "." + strconv.Itoa(i), K: 2, V: int(ch[i])})
	}
}

func optNum(out *[]Leaf, p string, v *float64) {
	if v != nil {
		*out = append(*out, numLeaf(p, *v))
	}
}

func numOr(out *[]Leaf, p string, v *float64, def float64) {
	if v != nil {
		*out = append(*out, numLeaf(p, *v))
	} else {
		*out = append(*out, numLeaf(p, def))
	}
}

func (sp *srcProjector) extLeaves(out *[]Leaf, e gltf.MaterialExtension) {
	p := "extensions." + e.ExtensionID()
	before := len(*out)
	switch x := e.(type) {
	case gltf.PolyformTransmission:
		*out = append(*out, numLeaf(p+".transmissionFactor", x.Factor))
		sp.texRef(out, p+".transmissionTexture", x.Texture)
	case gltf.PolyformVolume:
		*out = append(*out, numLeaf(p+".thicknessFactor", x.ThicknessFactor))
		sp.texRef(out, p+".thicknessTexture", x.ThicknessTexture)
		optNum(out, p+".attenuationDistance", x.AttenuationDistance)
		if x.AttenuationColor != nil {
			colLeaves(out, p+".attenuationColor", x.AttenuationColor, 3, 0)
		}
	case gltf.PolyformIndexOfRefraction:
		optNum(out, p+".ior", x.IOR)
	case gltf.PolyformUnlit:
	case gltf.PolyformClearcoat:
		*out = append(*out, numLeaf(p+".clearcoatFactor", x.ClearcoatFactor), numLeaf(p+".clearcoatRoughnessFactor", x.ClearcoatRoughnessFactor))
		sp.texRef(out, p+".clearcoatTexture", x.ClearcoatTexture)
		sp.texRef(out, p+".clearcoatRoughnessTexture", x.ClearcoatRoughnessTexture)
	case gltf.PolyformSpecular:
		optNum(out, p+".specularFactor", x.Factor)
		sp.texRef(out, p+".specularTexture", x.Texture)
		if x.ColorFactor != nil {
			colLeaves(out, p+".specularColorFactor", x.ColorFactor, 3, 0)
		}
		sp.texRef(out, p+".specularColorTexture", x.ColorTexture)
	case gltf.PolyformEmissiveStrength:
		optNum(out, p+".emissiveStrength", x.EmissiveStrength)
	case gltf.PolyformDispersion:
		*out = append(*out, numLeaf(p+".dispersion", x.Dispersion))
	case gltf.PolyformSheen:
		if x.SheenColorFactor != nil {
			colLeaves(out, p+".sheenColorFactor", x.SheenColorFactor, 3, 0)
		}
		sp.texRef(out, p+".sheenColorTexture", x.SheenColorTexture)
		*out = append(*out, numLeaf(p+".sheenRoughnessFactor", x.SheenRoughnessFactor))
		sp.texRef(out, p+".sheenRoughnessTexture", x.SheenRoughnessTexture)
	case gltf.PolyformAnisotropy:
		*out = append(*out, numLeaf(p+".anisotropyStrength", x.AnisotropyStrength), numLeaf(p+".anisotropyRotation", x.AnisotropyRotation))
		sp.texRef(out, p+".anisotropyTexture", x.AnisotropyTexture)
	default:
		*out = append(*out, Leaf{P: p, K: 3, S: "unprojected"})
		return
	}
	if len(*out) == before {
		*out = append(*out, Leaf{P: p, K: 3, S: "{}"})
	}
}

// material projects a PolyformMaterial as the leaves of the glTF material it
// denotes, with the glTF 2.0 defaults filled in for absent members.
func (sp *srcProjector) material(m *gltf.PolyformMaterial) int {
	if id, ok := sp.matIds[m]; ok {
		return id
	}
	l := []Leaf{{P: "name", K: 3, S: m.Name}}
	pbr := m.PbrMetallicRoughness
	if pbr == nil {
		pbr = &gltf.PolyformPbrMetallicRoughness{}
	}
	colLeaves(&l, "pbrMetallicRoughness.baseColorFactor", pbr.BaseColorFactor, 4, 0xFFFF)
	numOr(&l, "pbrMetallicRoughness.metallicFactor", pbr.MetallicFactor, 1)
	numOr(&l, "pbrMetallicRoughness.roughnessFactor", pbr.RoughnessFactor, 1)
	sp.texRef(&l, "pbrMetallicRoughness.baseColorTexture", pbr.BaseColorTexture)
	sp.texRef(&l, "pbrMetallicRoughness.metallicRoughnessTexture", pbr.MetallicRoughnessTexture)
	if m.NormalTexture != nil {
		sp.texRef(&l, "normalTexture", m.NormalTexture.PolyformTexture)
		numOr(&l, "normalTexture.scale", m.NormalTexture.Scale, 1)
	}
	if m.OcclusionTexture != nil {
		sp.texRef(&l, "occlusionTexture", m.OcclusionTexture.PolyformTexture)
		numOr(&l, "occlusionTexture.strength", m.OcclusionTexture.Strength, 1)
	}
	colLeaves(&l, "emissiveFactor", m.EmissiveFactor, 3, 0)
	am := "OPAQUE"
	if m.AlphaMode != nil {
		am = string(*m.AlphaMode)
	}
	l = append(l, Leaf{P: "alphaMode", K: 3, S: am})
	numOr(&l, "alphaCutoff", m.AlphaCutoff, 0.5)
	for _, e := range m.Extensions {
		sp.extLeaves(&l, e)
	}
	keys := make([]string, 0, len(m.Extras))
	for k := range m.Extras {
		keys = append(keys, k)
	}
	sort.Strings(keys)
	for _, k := range keys {
		flatten(&l, "extras."+k, toGeneric(m.Extras[k]))
	}
	order := ""
	for _, e := range m.Extensions {
		order += e.ExtensionID() + ";"
	}
	shape := ""
	for _, isNil := range []bool{m.PbrMetallicRoughness == nil, pbr.BaseColorFactor == nil, pbr.MetallicFactor == nil,
		pbr.RoughnessFactor == nil, m.EmissiveFactor == nil, m.AlphaMode == nil, m.AlphaCutoff == nil,
		m.NormalTexture == nil || m.NormalTexture.Scale == nil, m.OcclusionTexture == nil || m.OcclusionTexture.Strength == nil,
		m.Extras == nil} {
		if isNil {
			shape += "-"
		} else {
			shape += "+"
		}
	}
	sp.src.Mats = append(sp.src.Mats, SMat{Leaves: sortLeaves(l), ExtOrder: order, Shape: shape})
	sp.matIds[m] = len(sp.src.Mats)
	return len(sp.src.Mats)
}

func v3chunks(v *vector3.Float64) [][]int {
	if v == nil {
		return [][]int{}
	}
	return [][]int{F64(v.X()), F64(v.Y()), F64(v.Z())}
}

// ProjectScene projects the scene handed to the writer. Pointer identity of
// meshes / materials / textures becomes the index of first occurrence.
func ProjectScene(sc gltf.PolyformScene) Src {
	sp := &srcProjector{src: Src{Meshes: []SMesh{}, Texs: []STex{}, Mats: []SMat{}, Models: []SModel{}, Lights: []SLight{}},
		meshIds: map[*modeling.Mesh]int{}, matIds: map[*gltf.PolyformMaterial]int{}, texIds: map[*gltf.PolyformTexture]int{}}
	for _, m := range sc.Models {
		sm := SModel{Name: m.Name, Inst: []SInst{}, Trs: STrs{T: v3chunks(m.Translation), S: v3chunks(m.Scale), R: [][]int{}}}
		if m.Rotation != nil {
			a := m.Rotation.ToArr()
			sm.Trs.R = [][]int{F64(a[0]), F64(a[1]), F64(a[2]), F64(a[3])}
		}
		if m.Mesh != nil {
			id, ok := sp.meshIds[m.Mesh]
			if !ok {
				sp.src.Meshes = append(sp.src.Meshes, projectMesh(m.Mesh))
				id = len(sp.src.Meshes)
				sp.meshIds[m.Mesh] = id
			}
			sm.Mesh = id
			sm.Empty = sp.src.Meshes[id-1].Prims == 0
		}
		if m.Material != nil {
			sm.Mat = sp.material(m.Material)
		}
		for _, in := range m.GpuInstances {
			p, r, s := in.Position(), in.Rotation().ToArr(), in.Scale()
			sm.Inst = append(sm.Inst, SInst{T: []int{F32(p.X()), F32(p.Y()), F32(p.Z())},
				R: []int{F32(r[0]), F32(r[1]), F32(r[2]), F32(r[3])}, S: []int{F32(s.X()), F32(s.Y()), F32(s.Z())}})
		}
		sp.src.Models = append(sp.src.Models, sm)
	}
	for _, l := range sc.Lights {
		sl := SLight{Type: string(l.Type), Col: []int{}, Inten: []Leaf{}, Range: []Leaf{}}
		if l.Color != nil {
			r, g, b, _ := l.Color.RGBA()
			sl.Col = []int{int(r), int(g), int(b)}
		}
		if l.Intensity != nil {
			sl.Inten = []Leaf{numLeaf("intensity", *l.Intensity)}
		}
		if l.Range != nil {
			sl.Range = []Leaf{numLeaf("range", *l.Range)}
		}
		pos := l.Position
		sl.Pos = v3chunks(&pos)
		sp.src.Lights = append(sp.src.Lights, sl)
	}
	return sp.src
}
