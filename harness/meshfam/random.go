package meshfam

import (
	"bufio"
	"encoding/json"
	"math/rand"
	"os"

	"github.com/EliCDavis/polyform/modeling"
	"verifharness/project"
)

// Seeded generator of large mesh-pool histories (sizes TLC does not enumerate).
// It only proposes steps; execution/recording is RunHistories, judging is TLC.

type gen struct {
	r          *rand.Rand
	pool       []*modeling.Mesh
	maxV       int
	windowData [][]int // current shared backing array of SetAttrWindow steps
	windowKey  akey
}

func raw(v any) json.RawMessage {
	b, err := json.Marshal(v)
	if err != nil {
		panic(err)
	}
	return b
}

func args(kv ...any) map[string]json.RawMessage {
	m := map[string]json.RawMessage{"z": raw(0)}
	for i := 0; i+1 < len(kv); i += 2 {
		m[kv[i].(string)] = raw(kv[i+1])
	}
	return m
}

func (g *gen) coord() int {
	c := g.r.Intn(9) - 4
	v := c * project.Q
	if g.r.Intn(8) == 0 {
		v += project.Q / 2
	}
	return v
}

func (g *gen) vecN(n int) []int {
	v := make([]int, n)
	if g.r.Intn(6) == 0 {
		return v // exact zero vector: identity translations, zero origins, degenerate boxes
	}
	for i := range v {
		v[i] = g.coord()
	}
	return v
}

type akey struct{ ar, id int }

var attrPool = []akey{{3, 1}, {3, 2}, {3, 3}, {2, 4}, {1, 5}, {1, 6}, {4, 10}, {4, 8}, {1, 13}, {2, 14}, {3, 15}}

func (g *gen) randomMesh() project.PMesh {
	topo := "triangle"
	switch g.r.Intn(10) {
	case 0, 1, 2:
		topo = "point"
	case 3:
		topo = "line"
	}
	nv := g.r.Intn(g.maxV + 1)
	if g.r.Intn(12) == 0 {
		nv = 0
	}
	p := project.PMesh{Topo: topo, Idx: []int{}, Attrs: []project.PAttr{}, Mats: []project.PMat{}, Exact: true, Bx: true, Fp: []int{}}
	if nv > 0 {
		keys := []akey{}
		if g.r.Intn(10) > 0 {
			keys = append(keys, akey{3, 1})
		}
		for _, k := range attrPool[1:] {
			if g.r.Intn(4) == 0 {
				keys = append(keys, k)
			}
		}
		if len(keys) == 0 {
			keys = append(keys, akey{3, 1})
		}
		for _, k := range keys {
			a := project.PAttr{Ar: k.ar, Id: k.id, Data: make([][]int, nv)}
			for i := range a.Data {
				if i > 0 && g.r.Intn(4) == 0 {
					a.Data[i] = append([]int{}, a.Data[g.r.Intn(i)]...) // duplicated values (weld fodder)
				} else {
					a.Data[i] = g.vecN(k.ar)
				}
			}
			p.Attrs = append(p.Attrs, a)
		}
		sortAttrs(p.Attrs)
		p.Idx = g.randomIndices(topo, nv)
	}
	if topo == "triangle" && len(p.Idx) >= 3 && g.r.Intn(3) == 0 {
		p.Mats = g.randomMats(len(p.Idx) / 3)
	}
	return p
}

func sortAttrs(a []project.PAttr) {
	for i := 1; i < len(a); i++ {
		for j := i; j > 0 && a[j].Ar*100+a[j].Id < a[j-1].Ar*100+a[j-1].Id; j-- {
			a[j], a[j-1] = a[j-1], a[j]
		}
	}
}

func (g *gen) randomIndices(topo string, nv int) []int {
	if nv == 0 {
		return []int{}
	}
	size := 1
	switch topo {
	case "triangle":
		size = 3
	case "line":
		size = 2
	}
	n := g.r.Intn(nv+2) * size
	if topo == "point" && g.r.Intn(2) == 0 {
		idx := make([]int, nv)
		for i := range idx {
			idx[i] = i
		}
		return idx
	}
	idx := make([]int, n)
	limit := nv
	if nv > 2 && g.r.Intn(2) == 0 {
		limit = nv - 1 // leave an unreferenced vertex at the end
	}
	for i := range idx {
		idx[i] = g.r.Intn(limit)
	}
	return idx
}

func (g *gen) randomMats(nt int) []project.PMat {
	mats := []project.PMat{}
	left := nt
	for left > 0 && len(mats) < 4 {
		n := 1 + g.r.Intn(left)
		if len(mats) == 3 {
			n = left
		}
		mats = append(mats, project.PMat{N: n, M: 1 + g.r.Intn(3)})
		left -= n
	}
	if left > 0 {
		mats[len(mats)-1].N += left
	}
	if len(mats) > 0 && mats[len(mats)-1].N > 1 && g.r.Intn(4) == 0 {
		mats[len(mats)-1].N-- // ranges may account for fewer primitives than there are
	}
	return mats
}

func (g *gen) live() []int {
	l := []int{}
	for i, m := range g.pool {
		if m != nil {
			l = append(l, i+1)
		}
	}
	return l
}

func (g *gen) trs() PTRS {
	return PTRS{T: g.vecN(3), Axis: 1 + g.r.Intn(3), Turns: g.r.Intn(4), S: []int{1 + g.r.Intn(3), 1 + g.r.Intn(2), 1 + g.r.Intn(3)}}
}

func attrsOf(m modeling.Mesh, ar int) []int {
	var names []string
	switch ar {
	case 1:
		names = m.Float1Attributes()
	case 2:
		names = m.Float2Attributes()
	case 3:
		names = m.Float3Attributes()
	default:
		names = m.Float4Attributes()
	}
	ids := []int{}
	for _, n := range names {
		ids = append(ids, project.AttrId(n))
	}
	return ids
}

func (g *gen) pickAttr(m modeling.Mesh, ar int, fallback int) int {
	ids := attrsOf(m, ar)
	if len(ids) == 0 || g.r.Intn(12) == 0 {
		return fallback
	}
	return ids[g.r.Intn(len(ids))]
}

func (g *gen) step() Step {
	live := g.live()
	if len(live) == 0 || g.r.Intn(9) == 0 {
		dst := 1 + g.r.Intn(len(g.pool))
		return Step{Op: "New", Dst: dst, Src: []int{}, Args: args("mesh", g.randomMesh())}
	}
	s := live[g.r.Intn(len(live))]
	m := *g.pool[s-1]
	dst := 1 + g.r.Intn(len(g.pool))
	un := func(op string, a map[string]json.RawMessage) Step {
		return Step{Op: op, Dst: dst, Src: []int{s}, Args: a}
	}
	al := m.AttributeLength()
	switch g.r.Intn(41) {
	case 37, 38:
		gens := [][]int{{3, 2, 2, 2, 0}, {3, -4, 6, 8, 1}, {4, 2, 4, 6, 0}, {1, 2, 3, 4, 0}, {5, 2, 5, 0, 0}, {9, 2, 0, 0, 1}, {6, 2, 5, 0, 0}, {3, 2, -2, 2, 0}}
		c := gens[g.r.Intn(len(gens))]
		if g.r.Intn(2) == 0 {
			// any generator with parameters from a small domain: equal and nearly equal tuples recur within a history
			c = []int{1 + g.r.Intn(15), []int{2, 3, 4}[g.r.Intn(3)], 3 + g.r.Intn(3), []int{0, 2, 3}[g.r.Intn(3)], g.r.Intn(2)}
		}
		return Step{Op: "Prim", Dst: dst, Src: []int{}, Args: args("gen", c[0], "p", c[1:])}
	case 39, 40:
		k := attrPool[g.r.Intn(len(attrPool))]
		total := al + 1 + g.r.Intn(6)
		if g.windowData == nil || g.r.Intn(3) == 0 || len(g.windowData) < al || len(g.windowData[0]) != k.ar {
			g.windowData = make([][]int, total)
			for i := range g.windowData {
				g.windowData[i] = g.vecN(k.ar)
			}
			g.windowKey = k
		}
		n := al
		if al == 0 {
			n = 1 + g.r.Intn(len(g.windowData))
		}
		if n > len(g.windowData) {
			n = len(g.windowData)
		}
		return un("SetAttrWindow", args("ar", g.windowKey.ar, "id", g.windowKey.id, "data", g.windowData, "n", n))
	case 34, 35, 36:
		return un("Misc", args("kind", 1+g.r.Intn(11), "k", g.r.Intn(5)))
	case 30:
		return un("Normalize", args("id", g.pickAttr(m, 3, 2)))
	case 31:
		return un("FlatNormals", args("e", []int{0, 0, 10, 30, -30}[g.r.Intn(5)]))
	case 32:
		return un("SmoothNormals", args("e", []int{0, 0, 10, 30, -30}[g.r.Intn(5)]))
	case 33:
		return un("Laplacian", args("id", g.pickAttr(m, 3, 1), "iters", 1+g.r.Intn(3), "lam2", 1+g.r.Intn(2)))
	case 0, 1, 2, 3:
		// Append: prefer a partner of the same topology
		t := live[g.r.Intn(len(live))]
		for try := 0; try < 4 && g.pool[t-1].Topology() != m.Topology() && g.r.Intn(8) != 0; try++ {
			t = live[g.r.Intn(len(live))]
		}
		return Step{Op: "Append", Dst: dst, Src: []int{s, t}, Args: args()}
	case 4:
		return un("SetIndices", args("idx", g.randomIndices(m.Topology().String(), al)))
	case 5:
		return un("SetMaterial", args("m", 1+g.r.Intn(3)))
	case 6:
		nt := m.PrimitiveCount()
		if m.Topology() == modeling.TriangleTopology && nt > 0 {
			return un("SetMaterials", args("mats", g.randomMats(nt)))
		}
		return un("SetMaterial", args("m", 2))
	case 7:
		k := attrPool[g.r.Intn(len(attrPool))]
		n := al
		if al == 0 {
			n = 1 + g.r.Intn(4)
		}
		data := make([][]int, n)
		for i := range data {
			data[i] = g.vecN(k.ar)
		}
		return un("SetAttr", args("ar", k.ar, "id", k.id, "data", data))
	case 8, 9:
		ar := 1 + g.r.Intn(4)
		fn := []string{"addk", "neg", "addidx"}[g.r.Intn(3)]
		return un("ModifyAttr", args("ar", ar, "id", g.pickAttr(m, ar, 1), "fn", fn, "k", g.coord()))
	case 10:
		t := live[g.r.Intn(len(live))]
		ar := 1 + g.r.Intn(4)
		return Step{Op: "CopyAttr", Dst: dst, Src: []int{s, t}, Args: args("ar", ar, "id", g.pickAttr(*g.pool[t-1], ar, 1))}
	case 11:
		return un("Translate", args("v", g.vecN(3)))
	case 12:
		return un("Scale", args("s", []int{1 + g.r.Intn(3), 1 + g.r.Intn(3), g.r.Intn(3) - 1}))
	case 13:
		return un("Rotate", args("axis", 1+g.r.Intn(3), "turns", g.r.Intn(4)))
	case 14:
		return un("ApplyTRS", args("trs", g.trs()))
	case 15:
		return un("TranslateAttr", args("id", g.pickAttr(m, 3, 2), "v", g.vecN(3)))
	case 16:
		return un("ScaleAttr", args("id", g.pickAttr(m, 3, 1), "origin", g.vecN(3), "s", []int{1 + g.r.Intn(3), 1, 2}))
	case 17:
		return un("RotateAttr", args("id", g.pickAttr(m, 3, 2), "axis", 1+g.r.Intn(3), "turns", 1+g.r.Intn(3)))
	case 18:
		return un("CenterAttr", args("id", g.pickAttr(m, 3, 1)))
	case 19:
		return un("ToPointCloud", args())
	case 20:
		return un("Unweld", args())
	case 21:
		return un("RemoveUnreferenced", args())
	case 22:
		return un("FlipWinding", args())
	case 23:
		return un("Weld", args("id", g.pickAttr(m, 3, 1), "p10", []int{1, 1, 10}[g.r.Intn(3)]))
	case 24:
		return un("RemoveNullFaces", args("id", g.pickAttr(m, 3, 1)))
	case 25:
		return un("Split", args("k", 1+g.r.Intn(3)))
	case 26:
		ar := 1 + g.r.Intn(4)
		return un("Filter", args("ar", ar, "id", g.pickAttr(m, ar, 6), "thr", g.coord()))
	case 27:
		lo, hi := g.vecN(3), g.vecN(3)
		for i := range lo {
			if lo[i] > hi[i] {
				lo[i], hi[i] = hi[i], lo[i]
			}
		}
		return un("Crop", args("id", g.pickAttr(m, 3, 1), "lo", lo, "hi", hi))
	case 28:
		n := 1 + g.r.Intn(3)
		ts := make([]PTRS, n)
		for i := range ts {
			ts[i] = g.trs()
		}
		return un("Repeat", args("trss", ts))
	default:
		if g.r.Intn(3) == 0 {
			return Step{Op: "Scan", Dst: 0, Src: []int{s}, Args: args()}
		}
		f := []string{"ply-ascii", "ply-le", "ply-be", "obj", "stl", "glb", "gltf"}[g.r.Intn(7)]
		return Step{Op: "Export", Dst: 0, Src: []int{s}, Args: args("fmt", f)}
	}
}

// GenRandom writes n seeded histories of `steps` steps over `slots` slots.
func GenRandom(out string, seed int64, n, steps, slots, maxV int) error {
	fo, err := os.Create(out)
	if err != nil {
		return err
	}
	defer fo.Close()
	w := bufio.NewWriterSize(fo, 1<<20)
	defer w.Flush()
	enc := json.NewEncoder(w)
	for h := 0; h < n; h++ {
		g := &gen{r: rand.New(rand.NewSource(seed*1000003 + int64(h))), pool: make([]*modeling.Mesh, slots), maxV: maxV}
		hist := History{NSlots: slots, Steps: []Step{}}
		for i := 0; i < steps; i++ {
			st := g.step()
			hist.Steps = append(hist.Steps, st)
			res, hasRes, ok := Exec(st, g.pool)
			if ok && hasRes && st.Dst >= 1 {
				// keep generated values small enough for the TLC judge
				if res.Indices().Len() > 6*maxV || res.AttributeLength() > 6*maxV {
					hist.Steps = hist.Steps[:len(hist.Steps)-1]
					continue
				}
				r := res
				g.pool[st.Dst-1] = &r
			}
		}
		if err := enc.Encode(hist); err != nil {
			return err
		}
	}
	return nil
}
