package meshfam

import (
	"bufio"
	"encoding/json"
	"fmt"
	"os"
	"reflect"

	"github.com/EliCDavis/polyform/modeling"
	"verifharness/project"
)

type History struct {
	NSlots int    `json:"nslots"`
	Steps  []Step `json:"steps"`
	Tag    string `json:"tag,omitempty"`
}

type chg struct {
	S int           `json:"s"`
	M project.PMesh `json:"m"`
}

type resetLine struct {
	K    string          `json:"k"`
	Pool []project.PMesh `json:"pool"`
	H    int             `json:"h"`
}

type stepLine struct {
	K    string          `json:"k"`
	Step json.RawMessage `json:"step"`
	Res  project.PMesh   `json:"res"`
	Chg  []chg           `json:"chg"`
	H    int             `json:"h"`
	I    int             `json:"i"`
}

// RunHistories executes histories read from `in` (ndjson) and writes the
// observed trace to `out` (ndjson).
func RunHistories(in, out string) error {
	fi, err := os.Open(in)
	if err != nil {
		return err
	}
	defer fi.Close()
	fo, err := os.Create(out)
	if err != nil {
		return err
	}
	defer fo.Close()
	w := bufio.NewWriterSize(fo, 1<<20)
	defer w.Flush()
	enc := json.NewEncoder(w)
	sc := bufio.NewScanner(fi)
	sc.Buffer(make([]byte, 1<<20), 1<<28)
	h := 0
	for sc.Scan() {
		if len(sc.Bytes()) == 0 {
			continue
		}
		var hist History
		if err := json.Unmarshal(sc.Bytes(), &hist); err != nil {
			return fmt.Errorf("history %d: %w", h, err)
		}
		// keep the raw step JSON so the trace carries exactly what was asked
		var raw struct {
			Steps []json.RawMessage `json:"steps"`
		}
		_ = json.Unmarshal(sc.Bytes(), &raw)
		runOne(enc, h, hist, raw.Steps)
		h++
	}
	return sc.Err()
}

func runOne(enc *json.Encoder, h int, hist History, raw []json.RawMessage) {
	windowBacking = map[string]any{} // shared backing arrays live for one history
	pool := make([]*modeling.Mesh, hist.NSlots)
	prev := make([]project.PMesh, hist.NSlots)
	for i := range prev {
		prev[i] = project.NullMesh()
	}
	_ = enc.Encode(resetLine{K: "reset", Pool: prev, H: h})
	for i, st := range hist.Steps {
		res, hasRes, ok := Exec(st, pool)
		line := stepLine{K: "step", Step: raw[i], H: h, I: i, Chg: []chg{}}
		switch {
		case !ok:
			line.Res = project.FailMesh()
		case !hasRes:
			line.Res = project.NullMesh()
		default:
			line.Res = project.Mesh(res)
			if st.Dst >= 1 && st.Dst <= len(pool) {
				r := res
				pool[st.Dst-1] = &r
			}
		}
		// re-read EVERY live slot through public observers
		for s := range pool {
			cur := project.NullMesh()
			if pool[s] != nil {
				cur = project.Mesh(*pool[s])
			}
			if !reflect.DeepEqual(cur, prev[s]) { // lossless delta encoding of the pool
				line.Chg = append(line.Chg, chg{S: s + 1, M: cur})
				prev[s] = cur
			}
		}
		_ = enc.Encode(line)
	}
}
