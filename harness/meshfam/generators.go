package meshfam

import (
	"bufio"
	"encoding/json"
	"fmt"
	"github.com/EliCDavis/polyform/math/curves"
	"image/color"
	"os"

	"github.com/EliCDavis/polyform/modeling"
	"github.com/EliCDavis/polyform/modeling/extrude"
	"github.com/EliCDavis/polyform/modeling/marching"
	"github.com/EliCDavis/polyform/modeling/primitives"
	"github.com/EliCDavis/polyform/modeling/repeat"
	"github.com/EliCDavis/polyform/modeling/triangulation"
	"github.com/EliCDavis/vector/vector2"
	"github.com/EliCDavis/vector/vector3"
	"verifharness/project"
)

// Geometry generators on TLC-enumerated parameter tuples (C02): executes and
// logs only the SHAPE of the result; TraceShape.tla judges well-formedness.

type GenCase struct {
	Gen int   `json:"gen"`
	P   []int `json:"p"`
}

type Shape struct {
	Topo   string `json:"topo"`
	NIdx   int    `json:"nidx"`
	MinIdx int    `json:"minidx"`
	MaxIdx int    `json:"maxidx"`
	Lens   []int  `json:"lens"`
}

type genLine struct {
	K     string `json:"k"`
	Gen   int    `json:"gen"`
	P     []int  `json:"p"`
	Shape Shape  `json:"shape"`
	I     int    `json:"i"`
}

func shapeOf(m modeling.Mesh) Shape {
	s := Shape{Topo: m.Topology().String(), Lens: []int{}}
	idx := m.Indices()
	s.NIdx = idx.Len()
	for i := 0; i < idx.Len(); i++ {
		v := idx.At(i)
		if i == 0 || v < s.MinIdx {
			s.MinIdx = v
		}
		if i == 0 || v > s.MaxIdx {
			s.MaxIdx = v
		}
	}
	for _, a := range m.Float1Attributes() {
		s.Lens = append(s.Lens, m.Float1Attribute(a).Len())
	}
	for _, a := range m.Float2Attributes() {
		s.Lens = append(s.Lens, m.Float2Attribute(a).Len())
	}
	for _, a := range m.Float3Attributes() {
		s.Lens = append(s.Lens, m.Float3Attribute(a).Len())
	}
	for _, a := range m.Float4Attributes() {
		s.Lens = append(s.Lens, m.Float4Attribute(a).Len())
	}
	return s
}

func pathPoints(n int) []vector3.Float64 {
	pts := make([]vector3.Float64, 0, n)
	for i := 0; i < n; i++ {
		pts = append(pts, vector3.New(float64(i), float64((i*i)%3), float64(2*i)))
	}
	return pts
}

func shape2D(k int) []vector2.Float64 {
	all := []vector2.Float64{vector2.New(0., 0.), vector2.New(1., 0.), vector2.New(1., 1.), vector2.New(0., 1.), vector2.New(-0.5, 0.5)}
	if k > len(all) {
		k = len(all)
	}
	if k < 0 {
		k = 0
	}
	return all[:k]
}

// outlineForm: the FORM in which a caller may hand over one and the same outline (GenShapes.tla, flag of
// 12/13): 0 as is, 1 as a closed polyline (first point repeated at the end, as 2D tools export it),
// 2 with a point given twice in a row, 3 in the opposite direction, 4 closed and in the opposite direction.
func outlineForm(pts []vector2.Float64, form int) []vector2.Float64 {
	out := append([]vector2.Float64{}, pts...)
	if len(out) == 0 {
		return out
	}
	if form == 3 || form == 4 {
		for i, j := 0, len(out)-1; i < j; i, j = i+1, j-1 {
			out[i], out[j] = out[j], out[i]
		}
	}
	if form == 1 || form == 4 {
		out = append(out, out[0])
	}
	if form == 2 && len(out) >= 2 {
		out = append(out[:2], out[1:]...)
	}
	return out
}

var latticePts = []vector2.Float64{
	vector2.New(0., 0.), vector2.New(4., 1.), vector2.New(1., 5.), vector2.New(6., 6.), vector2.New(3., 2.),
	vector2.New(7., 3.), vector2.New(2., 7.), vector2.New(5., 4.),
}

func at(p []int, i int) int {
	if i < len(p) {
		return p[i]
	}
	return 0
}

// RunGenerator returns the produced mesh; panics propagate to the caller.
func RunGenerator(c GenCase) modeling.Mesh {
	p := c.P
	r := float64(at(p, 0)) / 2
	flag := at(p, 3) == 1
	switch c.Gen {
	case 1:
		return primitives.UVSphere(r, at(p, 1), at(p, 2))
	case 2:
		return primitives.UVSphereUnwelded(r, at(p, 1), at(p, 2))
	case 3, 4:
		cube := primitives.Cube{Height: r, Width: float64(at(p, 1)) / 2, Depth: float64(at(p, 2)) / 2}
		if flag {
			cube.UVs = primitives.DefaultCubeUVs()
		} else if f := at(p, 3); f >= 2 {
			// the options object with exactly the members of the mask (GenShapes.tla)
			all := primitives.DefaultCubeUVs()
			m := f - 2
			cube.UVs = &primitives.CubeUVs{}
			if m&1 != 0 {
				cube.UVs.Top = all.Top
			}
			if m&2 != 0 {
				cube.UVs.Bottom = all.Bottom
			}
			if m&4 != 0 {
				cube.UVs.Left = all.Left
			}
			if m&8 != 0 {
				cube.UVs.Right = all.Right
			}
			if m&16 != 0 {
				cube.UVs.Front = all.Front
			}
			if m&32 != 0 {
				cube.UVs.Back = all.Back
			}
		}
		if c.Gen == 3 {
			return cube.Welded()
		}
		return cube.UnweldedQuads()
	case 5:
		cyl := primitives.Cylinder{Sides: at(p, 1), Height: r, Radius: 1, NoTop: at(p, 2)&1 == 1, NoBottom: at(p, 2)&2 == 2}
		if f := at(p, 3); f >= 1 {
			// 1: every member; 2 + m: the options object with exactly the members of the mask (GenShapes.tla)
			m := 7
			if f >= 2 {
				m = f - 2
			}
			cyl.UVs = &primitives.CylinderUVs{}
			if m&1 != 0 {
				cyl.UVs.Top = &primitives.CircleUVs{Center: vector2.New(0.5, 0.5), Radius: 0.5}
			}
			if m&2 != 0 {
				cyl.UVs.Bottom = &primitives.CircleUVs{Center: vector2.New(0.5, 0.5), Radius: 0.5}
			}
			if m&4 != 0 {
				cyl.UVs.Side = &primitives.StripUVs{Start: vector2.New(0., 0.), End: vector2.New(1., 0.), Width: 1}
			}
		}
		return cyl.ToMesh()
	case 6:
		ci := primitives.Circle{Sides: at(p, 1), Radius: r}
		if flag {
			ci.UVs = &primitives.CircleUVs{Center: vector2.New(0.5, 0.5), Radius: 0.5}
		}
		return ci.ToMesh()
	case 7:
		return primitives.Cone{Height: r, Radius: 1, Sides: at(p, 1)}.ToMesh()
	case 8:
		return primitives.Hemisphere{Radius: r, Capped: flag}.UV(at(p, 1), at(p, 2))
	case 9:
		q := primitives.Quad{Width: r, Depth: 2}
		if flag {
			q.UVs = &primitives.StripUVs{Start: vector2.New(0., 0.), End: vector2.New(1., 0.), Width: 1}
		}
		return q.ToMesh()
	case 10:
		pts := []extrude.ExtrusionPoint{}
		for i, pt := range pathPoints(at(p, 2)) {
			ep := extrude.ExtrusionPoint{Point: pt, Thickness: 0.5 + float64(i)/4}
			switch at(p, 3) {
			case 1:
				ep.UV = &extrude.ExtrusionPointUV{Point: vector2.New(0.5, float64(i)), Thickness: 1}
			case 2: // neighbouring points share a texture coordinate
				ep.UV = &extrude.ExtrusionPointUV{Point: vector2.New(0.5, float64(i/2)), Thickness: 1}
			case 3: // only some points carry one
				if i%2 == 0 {
					ep.UV = &extrude.ExtrusionPointUV{Point: vector2.New(0.5, float64(i)), Thickness: 1}
				}
			}
			pts = append(pts, ep)
		}
		return extrude.Polygon(at(p, 1), pts)
	case 11:
		ci := extrude.Circle{Resolution: at(p, 1), Radius: 0.5, Path: pathPoints(at(p, 2)), ClosePath: at(p, 3)&1 == 1}
		if at(p, 3)&2 == 2 { // one radius per path point
			for i := range ci.Path {
				ci.Radii = append(ci.Radii, 0.25+float64(i%3)/4)
			}
		}
		return ci.Extrude()
	case 12:
		return extrude.Shape(outlineForm(shape2D(at(p, 1)), at(p, 3)), pathPoints(at(p, 2)))
	case 13:
		return extrude.ClosedShape(outlineForm(shape2D(at(p, 1)), at(p, 3)), pathPoints(at(p, 2)))
	case 14:
		lps := []extrude.LinePoint{}
		for i, pt := range pathPoints(at(p, 1)) {
			lps = append(lps, extrude.LinePoint{Point: pt, Up: vector3.Up[float64](), Width: 1, Height: 0.5, Uv: vector2.New(0., float64(i)), UvWidth: 1})
		}
		return extrude.Line(lps)
	case 15:
		base := primitives.Quad{Width: 1, Depth: 1}.ToMesh()
		if at(p, 2) == 1 {
			base = primitives.UVSphere(1, 2, 3)
		}
		if flag {
			return repeat.Mesh(base, repeat.Circle(at(p, 1), 2))
		}
		return repeat.Mesh(base, repeat.Line(vector3.Zero[float64](), vector3.New(4., 0., 0.), at(p, 1)))
	case 16:
		n := at(p, 1)
		if n > len(latticePts) {
			n = len(latticePts)
		}
		if n < 0 {
			n = 0
		}
		return triangulation.BowyerWatson(append([]vector2.Float64{}, latticePts[:n]...))
	case 18:
		n := at(p, 1)
		if n > len(latticePts) {
			n = len(latticePts)
		}
		if n < 0 {
			n = 0
		}
		// constraint outlines: one that cuts triangles, a small one, one that holds every point, two at once
		outlines := [][]vector2.Float64{
			{vector2.New(1.5, 1.5), vector2.New(5.5, 1.5), vector2.New(5.5, 5.5), vector2.New(1.5, 5.5)},
			{vector2.New(2.5, 2.5), vector2.New(3.5, 2.5), vector2.New(3., 3.5)},
			{vector2.New(-1., -1.), vector2.New(9., -1.), vector2.New(9., 9.), vector2.New(-1., 9.)},
		}
		var cs []triangulation.Constraint
		switch at(p, 2) {
		case 0, 1, 2:
			cs = []triangulation.Constraint{triangulation.NewConstraint(outlines[at(p, 2)])}
		case 3:
			cs = []triangulation.Constraint{triangulation.NewConstraint(outlines[0]), triangulation.NewConstraint(outlines[1])}
		}
		return triangulation.ConstrainedBowyerWatson(append([]vector2.Float64{}, latticePts[:n]...), cs)
	case 19:
		sp := curves.CatmullRomSplineParameters{Points: pathPoints(at(p, 2)), Alpha: 0.5}.Spline()
		cas := extrude.CircleAlongSpline{CircleResolution: at(p, 1), Radius: 0.5, ClosePath: at(p, 3)&1 == 1, Spline: &sp, SplineResolution: 2 + at(p, 2)}
		if at(p, 3)&2 == 2 {
			for i := 0; i < cas.SplineResolution; i++ {
				cas.Radii = append(cas.Radii, 0.25+float64(i%3)/4)
			}
		}
		return cas.Extrude()
	case 20:
		f := marching.Sphere(vector3.New(0.25, 0., 0.), r, 1)
		if flag {
			f = f.WithColor(color.RGBA{R: 255, A: 255})
		}
		return f.March(modeling.PositionAttribute, float64(at(p, 1)), float64(at(p, 2))/4)
	case 21:
		return primitives.UnitCube()
	case 17:
		canvas := marching.NewMarchingCanvas(float64(at(p, 1)))
		off := float64(at(p, 2))
		canvas.AddField(marching.Sphere(vector3.New(off, off/2, -off), r, 1))
		return canvas.March(0)
	}
	panic(harnessPanic{fmt.Sprintf("unknown generator %d", c.Gen)})
}

func RunGenerators(in, out string) error {
	fi, err := os.Open(in)
	if err != nil {
		return err
	}
	defer fi.Close()
	fo, err := os.Create(out)
	if err != nil {
		return err
	}
	defer fo.Close()
	w := bufio.NewWriterSize(fo, 1<<20)
	defer w.Flush()
	enc := json.NewEncoder(w)
	sc := bufio.NewScanner(fi)
	i := 0
	for sc.Scan() {
		if len(sc.Bytes()) == 0 {
			continue
		}
		var c GenCase
		if err := json.Unmarshal(sc.Bytes(), &c); err != nil {
			return err
		}
		ln := genLine{K: "gen", Gen: c.Gen, P: c.P, I: i}
		func() {
			defer func() {
				if r := recover(); r != nil {
					if hp, ok := r.(harnessPanic); ok {
						panic(hp.v)
					}
					ln.Shape = Shape{Topo: "FAIL", Lens: []int{}}
				}
			}()
			ln.Shape = shapeOf(RunGenerator(c))
		}()
		if err := enc.Encode(ln); err != nil {
			return err
		}
		i++
	}
	return sc.Err()
}

var _ = project.Q
