// Package meshfam executes mesh-pool histories (MeshOps.tla steps) on real
// polyform meshes and records the observed pool after every step.  It only
// executes and projects; judging is done by TLC (TraceMeshPool.tla).
package meshfam

import (
	"bytes"
	"encoding/json"
	"fmt"
	"io"
	"math"

	"github.com/EliCDavis/polyform/formats/gltf"
	"github.com/EliCDavis/polyform/formats/obj"
	"github.com/EliCDavis/polyform/formats/ply"
	"github.com/EliCDavis/polyform/formats/stl"
	"github.com/EliCDavis/polyform/math/geometry"
	"github.com/EliCDavis/polyform/math/quaternion"
	"github.com/EliCDavis/polyform/math/trs"
	"github.com/EliCDavis/polyform/modeling"
	"github.com/EliCDavis/polyform/modeling/meshops"
	"github.com/EliCDavis/polyform/modeling/repeat"
	"github.com/EliCDavis/vector/vector2"
	"github.com/EliCDavis/vector/vector3"
	"github.com/EliCDavis/vector/vector4"
	"verifharness/project"
)

type Step struct {
	Op   string                     `json:"op"`
	Dst  int                        `json:"dst"`
	Src  []int                      `json:"src"`
	Args map[string]json.RawMessage `json:"args"`
}

type PTRS struct {
	T     []int `json:"t"`
	Axis  int   `json:"axis"`
	Turns int   `json:"turns"`
	S     []int `json:"s"`
}

func (s Step) i(name string) int {
	var v int
	if err := json.Unmarshal(s.Args[name], &v); err != nil {
		panic(fmt.Sprintf("step %s: arg %s: %v", s.Op, name, err))
	}
	return v
}

// iopt: an optional integer argument.
func (s Step) iopt(name string, def int) int {
	if _, ok := s.Args[name]; !ok {
		return def
	}
	return s.i(name)
}

// atMagnitude runs f on the mesh with its positions scaled by 2^-e and scales the positions of the
// result back by 2^e. Both scalings are exact, and what f computes (normals) does not depend on the
// size of the mesh: the judge sees the operation applied at magnitude 2^-e on the same integers.
func atMagnitude(m modeling.Mesh, e int, f func(modeling.Mesh) modeling.Mesh) modeling.Mesh {
	if e == 0 || !m.HasFloat3Attribute(modeling.PositionAttribute) {
		return f(m)
	}
	scale := func(x modeling.Mesh, k float64) modeling.Mesh {
		it := x.Float3Attribute(modeling.PositionAttribute)
		d := make([]vector3.Float64, it.Len())
		for i := range d {
			d[i] = it.At(i).Scale(k)
		}
		return x.SetFloat3Attribute(modeling.PositionAttribute, d)
	}
	return scale(f(scale(m, math.Ldexp(1, -e))), math.Ldexp(1, e))
}

func (s Step) str(name string) string {
	var v string
	if err := json.Unmarshal(s.Args[name], &v); err != nil {
		panic(fmt.Sprintf("step %s: arg %s: %v", s.Op, name, err))
	}
	return v
}

func (s Step) vec(name string) []int {
	var v []int
	if err := json.Unmarshal(s.Args[name], &v); err != nil {
		panic(fmt.Sprintf("step %s: arg %s: %v", s.Op, name, err))
	}
	return v
}

func (s Step) any(name string, into any) {
	if err := json.Unmarshal(s.Args[name], into); err != nil {
		panic(fmt.Sprintf("step %s: arg %s: %v", s.Op, name, err))
	}
}

func axisVec(axis int) vector3.Float64 {
	switch axis {
	case 1:
		return vector3.Right[float64]()
	case 2:
		return vector3.Up[float64]()
	}
	return vector3.Forward[float64]()
}

func quarter(axis, turns int) quaternion.Quaternion {
	return quaternion.FromTheta(float64(turns)*math.Pi/2, axisVec(axis))
}

func toTRS(p PTRS) trs.TRS {
	return trs.New(project.V3(p.T), quarter(p.Axis, p.Turns), project.V3i(p.S))
}

type harnessPanic struct{ v any }

// Exec runs one step on the real code. ok=false => the call panicked or
// returned an error (projected as the FAIL pseudo mesh). hasRes=false for
// operations that return no mesh.
func Exec(st Step, pool []*modeling.Mesh) (res modeling.Mesh, hasRes bool, ok bool) {
	defer func() {
		if r := recover(); r != nil {
			if hp, isHp := r.(harnessPanic); isHp {
				panic(hp.v)
			}
			ok = false
			hasRes = true
		}
	}()
	src := func(k int) modeling.Mesh {
		if k >= len(st.Src) || st.Src[k] < 1 || st.Src[k] > len(pool) || pool[st.Src[k]-1] == nil {
			panic(harnessPanic{fmt.Sprintf("step %s: bad source %d", st.Op, k)})
		}
		return *pool[st.Src[k]-1]
	}
	// the live value itself, for entry points that take the mesh BY ADDRESS (gltf.PolyformModel.Mesh):
	// a library that writes through that pointer changes the caller's mesh, which a copy would hide
	live := func(k int) *modeling.Mesh {
		_ = src(k)
		return pool[st.Src[k]-1]
	}
	ok = true
	hasRes = true
	switch st.Op {
	case "New":
		var pm project.PMesh
		st.any("mesh", &pm)
		res = project.Build(pm)
	case "Append":
		res = src(0).Append(src(1))
	case "SetIndices":
		res = src(0).SetIndices(st.vec("idx"))
	case "SetMaterial":
		res = src(0).SetMaterial(*project.Mat(st.i("m")))
	case "SetMaterials":
		var pm []project.PMat
		st.any("mats", &pm)
		mats := make([]modeling.MeshMaterial, len(pm))
		for i, m := range pm {
			mats[i] = modeling.MeshMaterial{PrimitiveCount: m.N, Material: project.Mat(m.M)}
		}
		res = src(0).SetMaterials(mats)
	case "SetAttr":
		var data [][]int
		st.any("data", &data)
		res = setAttr(src(0), st.i("ar"), project.AttrName(st.i("id")), data)
	case "ModifyAttr":
		res = modifyAttr(src(0), st.i("ar"), project.AttrName(st.i("id")), st.str("fn"), st.i("k"))
	case "CopyAttr":
		name := project.AttrName(st.i("id"))
		switch st.i("ar") {
		case 1:
			res = src(0).CopyFloat1Attribute(src(1), name)
		case 2:
			res = src(0).CopyFloat2Attribute(src(1), name)
		case 3:
			res = src(0).CopyFloat3Attribute(src(1), name)
		default:
			res = src(0).CopyFloat4Attribute(src(1), name)
		}
	case "Translate":
		res = src(0).Translate(project.V3(st.vec("v")))
	case "Scale":
		res = src(0).Scale(project.V3i(st.vec("s")))
	case "Rotate":
		res = src(0).Rotate(quarter(st.i("axis"), st.i("turns")))
	case "ApplyTRS":
		var p PTRS
		st.any("trs", &p)
		res = src(0).ApplyTRS(toTRS(p))
	case "TranslateAttr":
		res = meshops.TranslateAttribute3D(src(0), project.AttrName(st.i("id")), project.V3(st.vec("v")))
	case "ScaleAttr":
		res = meshops.ScaleAttribute3D(src(0), project.AttrName(st.i("id")), project.V3(st.vec("origin")), project.V3i(st.vec("s")))
	case "RotateAttr":
		res = meshops.RotateAttribute3D(src(0), project.AttrName(st.i("id")), quarter(st.i("axis"), st.i("turns")))
	case "CenterAttr":
		res = meshops.CenterFloat3Attribute(src(0), project.AttrName(st.i("id")))
	case "ToPointCloud":
		res = src(0).ToPointCloud()
	case "Unweld":
		res = meshops.Unweld(src(0))
	case "RemoveUnreferenced":
		res = meshops.RemovedUnreferencedVertices(src(0))
	case "FlipWinding":
		res = meshops.FlipTriangleWinding(src(0))
	case "Weld":
		p10 := st.i("p10")
		dec := 0
		for p := 1; p < p10; p *= 10 {
			dec++
		}
		res = src(0).WeldByFloat3Attribute(project.AttrName(st.i("id")), dec)
	case "RemoveNullFaces":
		res = meshops.RemoveNullFaces3D(src(0), project.AttrName(st.i("id")), 0)
	case "Split":
		parts := meshops.SplitOnUniqueMaterials(src(0))
		k := st.i("k")
		if k <= len(parts) {
			res = parts[k-1]
		} else {
			hasRes = false
		}
	case "Filter":
		res = filterGE(src(0), st.i("ar"), project.AttrName(st.i("id")), project.Unscaled(st.i("thr")))
	case "Crop":
		box := geometry.NewAABBFromPoints(project.V3(st.vec("lo")), project.V3(st.vec("hi")))
		res = meshops.CropFloat3Attribute(src(0), project.AttrName(st.i("id")), box)
	case "Repeat":
		var ps []PTRS
		st.any("trss", &ps)
		ts := make([]trs.TRS, len(ps))
		for i, p := range ps {
			ts[i] = toTRS(p)
		}
		res = repeat.Mesh(src(0), ts)
	case "Normalize":
		res = meshops.NormalizeAttribute3D(src(0), project.AttrName(st.i("id")))
	case "FlatNormals":
		res = atMagnitude(src(0), st.iopt("e", 0), meshops.FlatNormals)
	case "SmoothNormals":
		res = atMagnitude(src(0), st.iopt("e", 0), meshops.SmoothNormals)
	case "Laplacian":
		res = meshops.LaplacianSmooth(src(0), project.AttrName(st.i("id")), st.i("iters"), float64(st.i("lam2"))/2)
	case "Prim":
		// a primitive / generator result enters the pool (frame and well-formedness are judged; the
		// generators share package-level tables, which no later call may disturb)
		res = RunGenerator(GenCase{Gen: st.i("gen"), P: st.vec("p")})
	case "SetAttrWindow":
		// the caller hands the library a WINDOW data[:n] of a longer array that other meshes also
		// see through longer windows: nothing the library does later may write beyond the window
		var data [][]int
		st.any("data", &data)
		res = setAttrWindow(src(0), st.i("ar"), project.AttrName(st.i("id")), data, st.i("n"), string(st.Args["data"]))
	case "Misc":
		// operations judged on frame (C01) and well-formedness (C02) only: no reference value in the model
		res = misc(src(0), st.i("kind"), st.i("k"))
	case "Export":
		hasRes = false
		export(live(0), st.str("fmt"))
	case "Scan":
		hasRes = false
		scan(src(0))
	default:
		panic(harnessPanic{"unknown op " + st.Op})
	}
	return
}

func setAttr(m modeling.Mesh, ar int, name string, data [][]int) modeling.Mesh {
	switch ar {
	case 1:
		d := make([]float64, len(data))
		for i, v := range data {
			d[i] = project.Unscaled(v[0])
		}
		return m.SetFloat1Attribute(name, d)
	case 2:
		d := make([]vector2.Float64, len(data))
		for i, v := range data {
			d[i] = vector2.New(project.Unscaled(v[0]), project.Unscaled(v[1]))
		}
		return m.SetFloat2Attribute(name, d)
	case 3:
		d := make([]vector3.Float64, len(data))
		for i, v := range data {
			d[i] = project.V3(v)
		}
		return m.SetFloat3Attribute(name, d)
	}
	d := make([]vector4.Float64, len(data))
	for i, v := range data {
		d[i] = vector4.New(project.Unscaled(v[0]), project.Unscaled(v[1]), project.Unscaled(v[2]), project.Unscaled(v[3]))
	}
	return m.SetFloat4Attribute(name, d)
}

func elem(fn string, k int, i int, x float64) float64 {
	switch fn {
	case "addk":
		return x + project.Unscaled(k)
	case "neg":
		return -x
	case "addidx":
		return x + float64(i)
	}
	return x
}

func modifyAttr(m modeling.Mesh, ar int, name, fn string, k int) modeling.Mesh {
	switch ar {
	case 1:
		return m.ModifyFloat1Attribute(name, func(i int, v float64) float64 { return elem(fn, k, i, v) })
	case 2:
		return m.ModifyFloat2Attribute(name, func(i int, v vector2.Float64) vector2.Float64 {
			return vector2.New(elem(fn, k, i, v.X()), elem(fn, k, i, v.Y()))
		})
	case 3:
		return m.ModifyFloat3Attribute(name, func(i int, v vector3.Float64) vector3.Float64 {
			return vector3.New(elem(fn, k, i, v.X()), elem(fn, k, i, v.Y()), elem(fn, k, i, v.Z()))
		})
	}
	// there is no ModifyFloat4Attribute: read + set, which is what a caller would write
	it := m.Float4Attribute(name)
	d := make([]vector4.Float64, it.Len())
	for i := range d {
		v := it.At(i)
		d[i] = vector4.New(elem(fn, k, i, v.X()), elem(fn, k, i, v.Y()), elem(fn, k, i, v.Z()), elem(fn, k, i, v.W()))
	}
	return m.SetFloat4Attribute(name, d)
}

func filterGE(m modeling.Mesh, ar int, name string, thr float64) modeling.Mesh {
	switch ar {
	case 1:
		return meshops.FilterFloat1(m, name, func(v float64) bool { return v >= thr })
	case 2:
		return meshops.FilterFloat2(m, name, func(v vector2.Float64) bool { return v.X() >= thr })
	case 3:
		return meshops.FilterFloat3(m, name, func(v vector3.Float64) bool { return v.X() >= thr })
	}
	return meshops.FilterFloat4(m, name, func(v vector4.Float64) bool { return v.X() >= thr })
}

func export(mp *modeling.Mesh, format string) {
	defer func() { recover() }() // an exporter may reject the mesh; it must still not modify it
	m := *mp
	var buf bytes.Buffer
	var out io.Writer = &buf
	switch format {
	case "ply-ascii":
		_ = ply.Write(out, m, ply.ASCII)
	case "ply-le":
		_ = ply.Write(out, m, ply.BinaryLittleEndian)
	case "ply-be":
		_ = ply.Write(out, m, ply.BinaryBigEndian)
	case "obj":
		// every public writer entry point of the format: geometry with and without a material library
		// reference, the material library itself, and a list that holds the mesh twice
		try := func(f func()) {
			defer func() { recover() }()
			f()
		}
		try(func() { _ = obj.WriteMesh(m, "", out) })
		try(func() { _ = obj.WriteMesh(m, "x.mtl", out) })
		try(func() { _ = obj.WriteMaterialsFromMesh(m, out) })
		try(func() { _ = obj.WriteMaterials(m.Materials(), out) })
		try(func() { _ = obj.WriteMeshes([]obj.ObjMesh{{Name: "a", Mesh: m}, {Name: "b", Mesh: m}}, "x.mtl", out) })
	case "stl":
		_ = stl.WriteMesh(out, m)
	case "glb":
		_ = gltf.WriteBinary(gltf.PolyformScene{Models: []gltf.PolyformModel{{Name: "x", Mesh: mp}}}, out)
	case "gltf":
		// the same live value twice in one scene (the writer instances meshes by address), through the
		// writer object as well as through the one-call entry point
		_ = gltf.WriteText(gltf.PolyformScene{Models: []gltf.PolyformModel{{Name: "x", Mesh: mp}, {Name: "y", Mesh: mp}}}, out)
		if w, err := gltf.NewWriterFromScene(gltf.PolyformScene{Models: []gltf.PolyformModel{{Name: "x", Mesh: mp}}}); err == nil && w != nil {
			_ = w.WriteGLB(out)
		}
	}
}

func scan(m modeling.Mesh) {
	defer func() { recover() }()
	for _, a := range m.Float3Attributes() {
		m.ScanFloat3Attribute(a, func(i int, v vector3.Float64) {})
		m.ScanFloat3AttributeParallelWithPoolSize(a, 3, func(i int, v vector3.Float64) {})
		_ = m.BoundingBox(a)
	}
	for _, a := range m.Float2Attributes() {
		m.ScanFloat2Attribute(a, func(i int, v vector2.Float64) {})
	}
	for _, a := range m.Float1Attributes() {
		m.ScanFloat1Attribute(a, func(i int, v float64) {})
	}
	switch m.Topology() {
	case modeling.TriangleTopology, modeling.PointTopology:
		m.ScanPrimitives(func(i int, p modeling.Primitive) {
			if m.HasFloat3Attribute(modeling.PositionAttribute) {
				_ = p.BoundingBox(modeling.PositionAttribute)
			}
		})
		if m.Topology() == modeling.TriangleTopology && m.Indices().Len() > 0 {
			_ = m.VertexNeighborTable()
		}
	}
}

func misc(m modeling.Mesh, kind, k int) modeling.Mesh {
	switch kind {
	case 1:
		plane := geometry.NewPlaneFromPoints(vector3.New(float64(k)/2, 0., 0.), vector3.New(float64(k)/2, 1., 0.), vector3.New(float64(k)/2, 0., 1.))
		a, b := meshops.SliceByPlaneWithAttribute(m, plane, modeling.PositionAttribute)
		if k%2 == 0 {
			return a
		}
		return b
	case 2:
		return meshops.ScaleAttributeAlongNormal(m, modeling.PositionAttribute, modeling.NormalAttribute, float64(k)/2)
	case 3:
		return meshops.NormalizeAttribute2D(m, modeling.TexCoordAttribute)
	case 4:
		return meshops.ScaleAttribute2D(m, modeling.TexCoordAttribute, vector2.New(0.5, 0.5), vector2.New(float64(k), 2.))
	case 5:
		return meshops.SmoothNormalsImplicitWeld(m, float64(k)/4)
	case 6:
		return meshops.VertexColorSpace(m, modeling.ColorAttribute, meshops.VertexColorSpaceTransformation(k%2))
	case 7:
		return meshops.LaplacianSmoothAlongAxis(m, modeling.PositionAttribute, 1+k%2, 0.5, vector3.Up[float64]())
	case 8:
		return m.ClearAttributeData()
	case 9:
		keep := map[string][]vector3.Float64{}
		for i, a := range m.Float3Attributes() {
			if i%2 == k%2 {
				it := m.Float3Attribute(a)
				d := make([]vector3.Float64, it.Len())
				for j := range d {
					d[j] = it.At(j)
				}
				keep[a] = d
			}
		}
		return m.SetFloat3Data(keep)
	case 10:
		return m.Transform(meshops.UnweldTransformer{}, meshops.FlatNormalsTransformer{}, meshops.RemovedUnreferencedVerticesTransformer{})
	case 11:
		return m.Transform(meshops.CenterAttribute3DTransformer{}, meshops.ScaleAttribute3DTransformer{Amount: vector3.New(2., 1., float64(k))})
	}
	panic(harnessPanic{"unknown misc kind"})
}

var windowBacking = map[string]any{}

func setAttrWindow(m modeling.Mesh, ar int, name string, data [][]int, n int, key string) modeling.Mesh {
	key = fmt.Sprintf("%d|%s", ar, key)
	switch ar {
	case 1:
		b, ok := windowBacking[key].([]float64)
		if !ok {
			b = make([]float64, len(data))
			for i, v := range data {
				b[i] = project.Unscaled(v[0])
			}
			windowBacking[key] = b
		}
		return m.SetFloat1Attribute(name, b[:n])
	case 2:
		b, ok := windowBacking[key].([]vector2.Float64)
		if !ok {
			b = make([]vector2.Float64, len(data))
			for i, v := range data {
				b[i] = vector2.New(project.Unscaled(v[0]), project.Unscaled(v[1]))
			}
			windowBacking[key] = b
		}
		return m.SetFloat2Attribute(name, b[:n])
	case 3:
		b, ok := windowBacking[key].([]vector3.Float64)
		if !ok {
			b = make([]vector3.Float64, len(data))
			for i, v := range data {
				b[i] = project.V3(v)
			}
			windowBacking[key] = b
		}
		return m.SetFloat3Attribute(name, b[:n])
	}
	b, ok := windowBacking[key].([]vector4.Float64)
	if !ok {
		b = make([]vector4.Float64, len(data))
		for i, v := range data {
			b[i] = vector4.New(project.Unscaled(v[0]), project.Unscaled(v[1]), project.Unscaled(v[2]), project.Unscaled(v[3]))
		}
		windowBacking[key] = b
	}
	return m.SetFloat4Attribute(name, b[:n])
}
