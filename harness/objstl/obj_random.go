package objstl

import (
	"bufio"
	"encoding/json"
	"math/rand"
	"os"
)

// Seeded recorder inputs for the OBJ family (sizes TLC does not enumerate).
// It only proposes inputs: "wr" cases are mesh lists with arbitrary finite
// float64 values (judged on float32 bit patterns), "ld" cases are valid OBJ
// texts with declarations interleaved between groups and faces.

func randomText(r *rand.Rand, nStmts int, q int) []Stmt {
	out := []Stmt{stmt("x")}
	nv, nvt, nvn := 0, 0, 0
	coord := func() int { return (r.Intn(33) - 16) * q / 4 }
	decl := func(t string) {
		st := stmt(t)
		n := 3
		if t == "vt" {
			n = 2
		}
		for i := 0; i < n; i++ {
			st.X = append(st.X, coord())
		}
		out = append(out, st)
	}
	for i := 0; i < 3; i++ {
		decl("v")
		nv++
	}
	groups := []string{"hull", "deck 1", "hull", "mast", "g5"}
	mtls := []string{"red", "blue", "wood", "Default"}
	syntax := r.Intn(4)
	for len(out) < nStmts {
		switch k := r.Intn(20); {
		case k < 4:
			decl("v")
			nv++
		case k < 6:
			decl("vt")
			nvt++
		case k < 8:
			decl("vn")
			nvn++
		case k < 10:
			st := stmt("g")
			st.S = groups[r.Intn(len(groups))]
			out = append(out, st)
			if r.Intn(3) > 0 {
				syntax = r.Intn(4) // most groups use one syntax, some mix
			}
		case k < 12:
			st := stmt("usemtl")
			st.S = mtls[r.Intn(len(mtls))]
			out = append(out, st)
		case k == 12:
			out = append(out, stmt("x"))
		default:
			sy := syntax
			if r.Intn(10) == 0 {
				sy = r.Intn(4)
			}
			if (sy == 1 || sy == 3) && nvt == 0 {
				sy &^= 1
			}
			if (sy == 2 || sy == 3) && nvn == 0 {
				sy &^= 2
			}
			st := stmt("f")
			for c := 0; c < 3; c++ {
				cr := []int{1 + r.Intn(nv), 0, 0}
				if sy&1 != 0 {
					cr[1] = 1 + r.Intn(nvt)
				}
				if sy&2 != 0 {
					cr[2] = 1 + r.Intn(nvn)
				}
				st.C = append(st.C, cr)
			}
			out = append(out, st)
		}
	}
	return out
}

// GenObjRandom writes nWr seeded "wr" cases and nLd random-text "ld" cases.
func GenObjRandom(out string, seed int64, nWr, nLd, maxTris, maxStmts int) error {
	fo, err := os.Create(out)
	if err != nil {
		return err
	}
	defer fo.Close()
	w := bufio.NewWriter(fo)
	defer w.Flush()
	enc := json.NewEncoder(w)
	r := rand.New(rand.NewSource(seed))
	for i := 0; i < nWr; i++ {
		c := ObjCase{K: "wr", Tag: "random", Enc: "f32", Q: 1,
			Seeded: &ObjSeeded{Seed: seed*100003 + int64(i), NMesh: 1 + r.Intn(5), MaxTris: 1 + r.Intn(maxTris)}}
		if err := enc.Encode(c); err != nil {
			return err
		}
	}
	for i := 0; i < nLd; i++ {
		c := ObjCase{K: "ld", Tag: "random", Enc: "lat", Q: 1024, Gen: randomText(r, 8+r.Intn(maxStmts), 1024), Style: r.Intn(1 << 20)}
		if err := enc.Encode(c); err != nil {
			return err
		}
	}
	return nil
}
