package objstl

import (
	"bufio"
	"encoding/json"
	"math/rand"
	"os"
)

// Seeded recorder inputs for the OBJ family (sizes TLC does not enumerate).
// It only proposes inputs: "wr" cases are mesh lists with arbitrary finite
// float64 values (judged on float32 bit patterns), "ld" cases are valid OBJ
// texts with declarations interleaved between groups and faces.

func randomText(r *rand.Rand, nStmts int, q int) []Stmt {
	out := []Stmt{stmt("x")}
	nv, nvt, nvn := 0, 0, 0
	coord := func() int { return (r.Intn(33) - 16) * q / 4 }
	decl := func(t string) {
		st := stmt(t)
		n := 3
		if t == "vt" {
			n = 2
		}
		for i := 0; i < n; i++ {
			st.X = append(st.X, coord())
		}
		out = append(out, st)
	}
	for i := 0; i < 3; i++ {
		decl("v")
		nv++
	}
	groups := []string{"hull", "deck 1", "hull", "mast", "g5"}
	mtls := []string{"red", "blue", "wood", "Default"}
	syntax := r.Intn(4)
	for len(out) < nStmts {
		switch k := r.Intn(20); {
		case k < 4:
			decl("v")
			nv++
		case k < 6:
			decl("vt")
			nvt++
		case k < 8:
			decl("vn")
			nvn++
		case k < 10:
			st := stmt("g")
			st.S = groups[r.Intn(len(groups))]
			out = append(out, st)
			if r.Intn(3) > 0 {
				syntax = r.Intn(4) // most groups use one syntax, some mix
			}
		case k < 12:
			st := stmt("usemtl")
			st.S = mtls[r.Intn(len(mtls))]
			out = append(out, st)
		case k == 12:
			out = append(out, stmt("x"))
		default:
			sy := syntax
			if r.Intn(10) == 0 {
				sy = r.Intn(4)
			}
			if (sy == 1 || sy == 3) && nvt == 0 {
				sy &^= 1
			}
			if (sy == 2 || sy == 3) && nvn == 0 {
				sy &^= 2
			}
			st := stmt("f")
			for c := 0; c < 3; c++ {
				cr := []int{1 + r.Intn(nv), 0, 0}
				if sy&1 != 0 {
					cr[1] = 1 + r.Intn(nvt)
				}
				if sy&2 != 0 {
					cr[2] = 1 + r.Intn(nvn)
				}
				st.C = append(st.C, cr)
			}
			out = append(out, st)
		}
	}
	return out
}

// sizedText builds the statements of a text profile: per group its own block
// of v (and vt / vn) declarations, then "g", now and then "usemtl", then the
// faces. Positions are distinct lattice points, so every face is
// recognisable. A group with NF = NV-2 is a strip (face i uses corners i,
// i+1, i+2: all NV corners occur); otherwise the faces run cyclically over
// the group's corners. Each corner always pairs the same vt / vn with its v,
// so the number of distinct corner tokens of the group is exactly NV.
func sizedText(p TextProfile, q int) []Stmt {
	r := rand.New(rand.NewSource(p.Seed))
	out := []Stmt{stmt("x")}
	nv, nvt, nvn := 0, 0, 0
	unit := q / 4
	groups := []string{"hull", "deck 1", "mast", "g5"}
	mtls := []string{"red", "blue", "wood"}
	off := r.Intn(7)
	for gi, g := range p.Groups {
		vBase, vtBase, vnBase := nv, nvt, nvn
		nLocalVt, nLocalVn := 0, 0
		if g.Syn&1 != 0 {
			nLocalVt = g.NV + 1 // pools of different sizes: a pool mix-up changes a value or leaves the range
		}
		if g.Syn&2 != 0 {
			nLocalVn = g.NV - 1 // with the profiles of size s-1, s, s+1 each pool is once exactly s long
		}
		for i := 0; i < g.NV; i++ {
			k := nv + off
			st := stmt("v")
			st.X = []int{(k%61 - 30) * unit, ((k/61)%61 - 30) * unit, (k/3721 - 8) * unit}
			out = append(out, st)
			nv++
			if i < nLocalVt { // declarations interleaved
				vt := stmt("vt")
				vt.X = []int{(nvt % 17) * unit, (nvt/17%64 - 32) * unit}
				out = append(out, vt)
				nvt++
			}
			if i < nLocalVn {
				vn := stmt("vn")
				vn.X = []int{(nvn%9 - 4) * unit, (nvn/9%9 - 4) * unit, (nvn/81%64 - 32) * unit}
				out = append(out, vn)
				nvn++
			}
		}
		for nvt < vtBase+nLocalVt {
			vt := stmt("vt")
			vt.X = []int{(nvt % 17) * unit, (nvt/17%64 - 32) * unit}
			out = append(out, vt)
			nvt++
		}
		for nvn < vnBase+nLocalVn {
			vn := stmt("vn")
			vn.X = []int{(nvn%9 - 4) * unit, (nvn/9%9 - 4) * unit, (nvn/81%64 - 32) * unit}
			out = append(out, vn)
			nvn++
		}
		gs := stmt("g")
		gs.S = groups[(gi+off)%len(groups)]
		if g.NameLen > 0 {
			gs.S = longName(g.NameLen, gi)
		}
		out = append(out, gs)
		corner := func(local int) []int {
			c := []int{vBase + local + 1, 0, 0}
			if g.Syn&1 != 0 {
				c[1] = vtBase + (local+1)%nLocalVt + 1
			}
			if g.Syn&2 != 0 {
				c[2] = vnBase + local%nLocalVn + 1
			}
			return c
		}
		for f := 0; f < g.NF; f++ {
			if f == 0 && (gi+off)%2 == 0 || f > 0 && f == g.NF/2 && off%3 == 0 {
				u := stmt("usemtl")
				u.S = mtls[(gi+f+off)%len(mtls)]
				out = append(out, u)
			}
			st := stmt("f")
			a := f % g.NV
			if g.NF != g.NV-2 {
				a = (f * 7) % g.NV
			}
			st.C = [][]int{corner(a), corner((a + 1) % g.NV), corner((a + 2) % g.NV)}
			out = append(out, st)
		}
	}
	return out
}

// GenObjRandom writes nWr seeded "wr" cases and nLd random-text "ld" cases.
func GenObjRandom(out string, seed int64, nWr, nLd, maxTris, maxStmts int) error {
	fo, err := os.Create(out)
	if err != nil {
		return err
	}
	defer fo.Close()
	w := bufio.NewWriter(fo)
	defer w.Flush()
	enc := json.NewEncoder(w)
	r := rand.New(rand.NewSource(seed))
	for i := 0; i < nWr; i++ {
		c := ObjCase{K: "wr", Tag: "random", Enc: "f32", Q: 1,
			Seeded: &ObjSeeded{Seed: seed*100003 + int64(i), NMesh: 1 + r.Intn(5), MaxTris: 1 + r.Intn(maxTris), Edge: i % 3 / 2}}
		if err := enc.Encode(c); err != nil {
			return err
		}
	}
	for i := 0; i < nLd; i++ {
		c := ObjCase{K: "ld", Tag: "random", Enc: "lat", Q: 1024, Gen: randomText(r, 8+r.Intn(maxStmts), 1024), Style: r.Intn(1 << 20)}
		if err := enc.Encode(c); err != nil {
			return err
		}
	}
	return nil
}
