package objstl

import (
	"bufio"
	"encoding/json"
	"fmt"
	"math"
	"math/rand"
	"os"
	"path/filepath"
	"regexp"
	"sort"
	"strconv"
	"strings"

	"github.com/EliCDavis/polyform/formats/obj"
	"github.com/EliCDavis/polyform/modeling"
	"github.com/EliCDavis/vector/vector2"
	"github.com/EliCDavis/vector/vector3"
)

// ---- cases ---------------------------------------------------------------

type AMat struct {
	N  int      `json:"n"`
	M  string   `json:"m"`  // "<nil>" = nil material
	Mw []string `json:"mw"` // projection only: the items of the name (NameItems)
}

// AMesh: a mesh on the lattice, as the TLA+ generators print it.
type AMesh struct {
	Name string  `json:"name"`
	Idx  []int   `json:"idx"`
	Pos  [][]int `json:"pos"`
	Uv   [][]int `json:"uv"`
	Nrm  [][]int `json:"nrm"`
	Mats []AMat  `json:"mats"`
}

// ObjSeeded: a "wr" case whose meshes are drawn by the seeded recorder
// (arbitrary finite float64 values, sizes TLC does not enumerate).
type ObjSeeded struct {
	Seed    int64     `json:"seed"`
	NMesh   int       `json:"nmesh"`
	MaxTris int       `json:"maxtris"`
	Sizes   []ObjSize `json:"sizes,omitempty"` // round 2: one entry per mesh fixes its shape (else drawn)
	Edge    int       `json:"edge"`            // 1: boundary float values among the coordinates
}

// ObjSize: the size profile of one mesh (specs/ObjStlSizes.tla).
type ObjSize struct {
	NV  int  `json:"nv"`  // vertices
	NT  int  `json:"nt"`  // triangles
	Uv  bool `json:"uv"`  // has texture coordinates
	Nrm bool `json:"nrm"` // has normals
	NM  int  `json:"nm"`  // material ranges (0: none)
	// NameLen > 0: the mesh's name has this many characters (line length of its "g" statement)
	NameLen int `json:"namelen"`
}

// longName: a name of n characters without blanks.
func longName(n int, salt int) string {
	b := make([]byte, n)
	for i := range b {
		b[i] = byte('a' + (i*7+salt)%26)
	}
	return string(b)
}

// TextProfile: the size profile of an OBJ text ("ld" case): per group the
// number of distinct corners, the number of faces and the face syntax.
type TextProfile struct {
	Seed   int64       `json:"seed"`
	Groups []TextGroup `json:"groups"`
}

type TextGroup struct {
	NV  int `json:"nv"`
	NF  int `json:"nf"`
	Syn int `json:"syn"` // 0 v, 1 v/vt, 2 v//vn, 3 v/vt/vn
	// NameLen > 0: the group's name has this many characters
	NameLen int `json:"namelen"`
}

type ObjCase struct {
	K      string       `json:"k"` // "wr" | "ld"
	Tag    string       `json:"tag"`
	Enc    string       `json:"enc"`
	Q      int          `json:"q"`
	Meshes []AMesh      `json:"meshes,omitempty"`
	Seeded *ObjSeeded   `json:"seeded,omitempty"`
	Gen    []Stmt       `json:"gen,omitempty"`
	Style  int          `json:"style"`
	Text   *TextProfile `json:"text,omitempty"` // "ld": the statements are built from this profile
	Cid    *int         `json:"cid,omitempty"`  // the case's number in the run it was recorded in (replays keep it)
	Io     int          `json:"io"`             // reader variant (iomodes.go)
	Wio    int          `json:"wio"`            // writer variant
	Rep    int          `json:"rep"`            // > 1: every call is made this many times on the same input, the last result counts
}

// ---- projections -----------------------------------------------------------

type SrcMesh struct {
	Name string    `json:"name"`
	Nw   []string  `json:"nw"` // the items of the name (NameItems)
	Idx  []int     `json:"idx"`
	Pos  [][][]int `json:"pos"`
	Uv   [][][]int `json:"uv"`
	Nrm  [][][]int `json:"nrm"`
	Mats []AMat    `json:"mats"`
}

type ObsMesh struct {
	Name string  `json:"name"`
	Idx  []int   `json:"idx"`
	Pos  [][]int `json:"pos"`
	Uv   [][]int `json:"uv"`
	Nrm  [][]int `json:"nrm"`
	Mats []AMat  `json:"mats"`
}

func projMats(m modeling.Mesh) []AMat {
	out := []AMat{}
	for _, mm := range m.Materials() {
		name := "<nil>"
		if mm.Material != nil {
			name = mm.Material.Name
		}
		out = append(out, AMat{N: mm.PrimitiveCount, M: name, Mw: NameItems(name)})
	}
	return out
}

func projIdx(m modeling.Mesh) []int {
	out := []int{}
	idx := m.Indices()
	for i := 0; i < idx.Len(); i++ {
		out = append(out, idx.At(i))
	}
	return out
}

// projSrc / projObs read a mesh through its public observers only.
func projSrc(name string, m modeling.Mesh, enc Enc) SrcMesh {
	p := SrcMesh{Name: name, Nw: NameItems(name), Idx: projIdx(m), Pos: [][][]int{}, Uv: [][][]int{}, Nrm: [][][]int{}, Mats: projMats(m)}
	if m.HasFloat3Attribute(modeling.PositionAttribute) {
		a := m.Float3Attribute(modeling.PositionAttribute)
		for i := 0; i < a.Len(); i++ {
			v := a.At(i)
			p.Pos = append(p.Pos, enc.SrcVec(v.X(), v.Y(), v.Z()))
		}
	}
	if m.HasFloat2Attribute(modeling.TexCoordAttribute) {
		a := m.Float2Attribute(modeling.TexCoordAttribute)
		for i := 0; i < a.Len(); i++ {
			v := a.At(i)
			p.Uv = append(p.Uv, enc.SrcVec(v.X(), v.Y()))
		}
	}
	if m.HasFloat3Attribute(modeling.NormalAttribute) {
		a := m.Float3Attribute(modeling.NormalAttribute)
		for i := 0; i < a.Len(); i++ {
			v := a.At(i)
			p.Nrm = append(p.Nrm, enc.SrcVec(v.X(), v.Y(), v.Z()))
		}
	}
	return p
}

func projObs(name string, m modeling.Mesh, enc Enc) ObsMesh {
	p := ObsMesh{Name: name, Idx: projIdx(m), Pos: [][]int{}, Uv: [][]int{}, Nrm: [][]int{}, Mats: projMats(m)}
	if len(p.Idx) > capIdx {
		p.Idx = p.Idx[:capIdx]
		capHit = true
	}
	lim := func(n int) int {
		if n > capIdx {
			return capIdx
		}
		return n
	}
	if m.HasFloat3Attribute(modeling.PositionAttribute) {
		a := m.Float3Attribute(modeling.PositionAttribute)
		for i := 0; i < lim(a.Len()); i++ {
			v := a.At(i)
			p.Pos = append(p.Pos, enc.ObsVec(v.X(), v.Y(), v.Z()))
		}
	}
	if m.HasFloat2Attribute(modeling.TexCoordAttribute) {
		a := m.Float2Attribute(modeling.TexCoordAttribute)
		for i := 0; i < lim(a.Len()); i++ {
			v := a.At(i)
			p.Uv = append(p.Uv, enc.ObsVec(v.X(), v.Y()))
		}
	}
	if m.HasFloat3Attribute(modeling.NormalAttribute) {
		a := m.Float3Attribute(modeling.NormalAttribute)
		for i := 0; i < lim(a.Len()); i++ {
			v := a.At(i)
			p.Nrm = append(p.Nrm, enc.ObsVec(v.X(), v.Y(), v.Z()))
		}
	}
	return p
}

// ---- building real inputs ---------------------------------------------------

type matTable map[string]*modeling.Material

func (t matTable) get(name string) *modeling.Material {
	if name == "<nil>" {
		return nil
	}
	if m, ok := t[name]; ok {
		return m
	}
	m := &modeling.Material{Name: name}
	t[name] = m
	return m
}

func buildLattice(a AMesh, enc Enc, mats matTable) modeling.Mesh {
	idx := append([]int{}, a.Idx...)
	m := modeling.NewTriangleMesh(idx)
	pos := make([]vector3.Float64, len(a.Pos))
	for i, v := range a.Pos {
		pos[i] = vector3.New(enc.Val(v[0]), enc.Val(v[1]), enc.Val(v[2]))
	}
	m = m.SetFloat3Attribute(modeling.PositionAttribute, pos)
	if len(a.Uv) > 0 {
		uv := make([]vector2.Float64, len(a.Uv))
		for i, v := range a.Uv {
			uv[i] = vector2.New(enc.Val(v[0]), enc.Val(v[1]))
		}
		m = m.SetFloat2Attribute(modeling.TexCoordAttribute, uv)
	}
	if len(a.Nrm) > 0 {
		n := make([]vector3.Float64, len(a.Nrm))
		for i, v := range a.Nrm {
			n[i] = vector3.New(enc.Val(v[0]), enc.Val(v[1]), enc.Val(v[2]))
		}
		m = m.SetFloat3Attribute(modeling.NormalAttribute, n)
	}
	if len(a.Mats) > 0 {
		mm := make([]modeling.MeshMaterial, len(a.Mats))
		for i, r := range a.Mats {
			mm[i] = modeling.MeshMaterial{PrimitiveCount: r.N, Material: mats.get(r.M)}
		}
		m = m.SetMaterials(mm)
	}
	return m
}

// randomReal draws finite float64 values of several kinds: float32
// representable, generic doubles, small integers, tiny and large magnitudes
// (down to the float32 subnormals, up to 1e37), raw float32 bit patterns.
func randomReal(r *rand.Rand) float64 {
	switch r.Intn(7) {
	case 0:
		return float64(r.Intn(41) - 20)
	case 1:
		return float64(float32(r.NormFloat64() * 10))
	case 2:
		return r.NormFloat64() * 100
	case 3:
		return (r.Float64() - 0.5) * math.Pow(10, float64(r.Intn(30)-20))
	case 4:
		return float64(math.Float32frombits(uint32(r.Int63())&0x7fffffff%0x7f000000)) * float64(1-2*r.Intn(2))
	case 5:
		return (r.Float64() - 0.5) * math.Pow(10, float64(r.Intn(83)-45))
	}
	return r.Float64()
}

// edgeValues: boundary values of the float32 format and of the float64 ->
// float32 rounding. All are finite and within the float32 range.
var edgeValues = []float64{
	0, math.Copysign(0, -1),
	math.MaxFloat32, -math.MaxFloat32,
	math.SmallestNonzeroFloat32, -math.SmallestNonzeroFloat32, // smallest subnormal
	float64(math.Float32frombits(0x00800000)), // smallest normal
	float64(math.Float32frombits(0x007fffff)), // largest subnormal
	float64(math.Float32frombits(0x7f7ffffe)),
	1, -1, float64(math.Float32frombits(0x3f800001)), float64(math.Float32frombits(0x3f7fffff)), // 1 +- ulp
	1 + 1.0/(1<<24), 1 + 3.0/(1<<24), // exactly half way between two float32 values (ties)
	16777216, 16777217, 16777219, -16777217, // 2^24 and integers float32 cannot hold
	0.1, -0.1, 1.0 / 3, 2.0 / 3, 1e-45, 7e-46, 1e-46, 1e-300, // decimal fractions; below the subnormals
	1e38, 3.4e38, 1e-38, 1.17549435e-38, 65504, 65536, 0.5, 1024, 1e10, 123456789,
}

// edgeReal draws a boundary value; nonFinite adds NaN and the infinities
// (binary formats only: text formats do not define them).
func edgeReal(r *rand.Rand, nonFinite bool) float64 {
	if nonFinite && r.Intn(6) == 0 {
		switch r.Intn(3) {
		case 0:
			return math.NaN()
		case 1:
			return math.Inf(1)
		}
		return math.Inf(-1)
	}
	return edgeValues[r.Intn(len(edgeValues))]
}

func buildSeeded(s ObjSeeded) []obj.ObjMesh {
	r := rand.New(rand.NewSource(s.Seed))
	mats := matTable{}
	names := []string{"body", "left wheel", "body", "x1", "roof", "Mesh.001"}
	matNames := []string{"red", "blue", "<nil>", "steel", "red"}
	out := []obj.ObjMesh{}
	real := func() float64 {
		if s.Edge > 0 && r.Intn(3) == 0 {
			return edgeReal(r, false)
		}
		return randomReal(r)
	}
	nmesh := s.NMesh
	if len(s.Sizes) > 0 {
		nmesh = len(s.Sizes)
	}
	for i := 0; i < nmesh; i++ {
		var nt, nv, nm int
		var hasUv, hasN bool
		if len(s.Sizes) > 0 {
			z := s.Sizes[i]
			nt, nv, nm, hasUv, hasN = z.NT, z.NV, z.NM, z.Uv, z.Nrm
		} else {
			nt = r.Intn(s.MaxTris + 1)
			if r.Intn(4) > 0 && nt == 0 {
				nt = 1 + r.Intn(s.MaxTris)
			}
			nv = 3 * nt
			if nt > 0 && r.Intn(2) == 0 {
				nv = 3 + r.Intn(2*nt+1) // welded to some degree
			}
		}
		idx := make([]int, 3*nt)
		for k := range idx {
			idx[k] = r.Intn(nv)
		}
		if len(s.Sizes) > 0 && nv >= 3 {
			// every vertex is a corner of some face when there are enough corners (a line that is
			// written twice or dropped then shifts a corner that is looked at)
			for k := range idx {
				if k < nv {
					idx[k] = k
				}
			}
			r.Shuffle(len(idx)/3, func(a, b int) {
				for c := 0; c < 3; c++ {
					idx[3*a+c], idx[3*b+c] = idx[3*b+c], idx[3*a+c]
				}
			})
		}
		m := modeling.NewTriangleMesh(idx)
		pos := make([]vector3.Float64, nv)
		for k := range pos {
			pos[k] = vector3.New(real(), real(), real())
		}
		m = m.SetFloat3Attribute(modeling.PositionAttribute, pos)
		if len(s.Sizes) == 0 {
			hasUv = r.Intn(2) == 0
		}
		if hasUv {
			uv := make([]vector2.Float64, nv)
			for k := range uv {
				uv[k] = vector2.New(real(), real())
			}
			m = m.SetFloat2Attribute(modeling.TexCoordAttribute, uv)
		}
		if len(s.Sizes) == 0 {
			hasN = r.Intn(2) == 0
		}
		if hasN {
			n := make([]vector3.Float64, nv)
			for k := range n {
				n[k] = vector3.New(real(), real(), real())
			}
			m = m.SetFloat3Attribute(modeling.NormalAttribute, n)
		}
		if len(s.Sizes) > 0 {
			if nm > nt {
				nm = nt
			}
			if nm > 0 {
				// nm ranges that cover the nt triangles exactly
				cuts := r.Perm(nt - 1)[:nm-1]
				sort.Ints(cuts)
				mm := []modeling.MeshMaterial{}
				prev := 0
				for j := 0; j < nm; j++ {
					end := nt
					if j < nm-1 {
						end = cuts[j] + 1
					}
					mm = append(mm, modeling.MeshMaterial{PrimitiveCount: end - prev, Material: mats.get(matNames[(i+j+int(s.Seed&3))%len(matNames)])})
					prev = end
				}
				m = m.SetMaterials(mm)
			}
		} else if nt > 0 && r.Intn(3) > 0 {
			left := nt
			mm := []modeling.MeshMaterial{}
			for left > 0 {
				k := 1 + r.Intn(left)
				mm = append(mm, modeling.MeshMaterial{PrimitiveCount: k, Material: mats.get(matNames[r.Intn(len(matNames))])})
				left -= k
			}
			m = m.SetMaterials(mm)
		}
		name := names[(i+int(s.Seed))%len(names)]
		if len(s.Sizes) > 0 && s.Sizes[i].NameLen > 0 {
			name = longName(s.Sizes[i].NameLen, i)
		}
		out = append(out, obj.ObjMesh{Name: name, Mesh: m})
	}
	return out
}

// ---- trace lines ------------------------------------------------------------

type wrLine struct {
	K     string    `json:"k"`
	Id    int       `json:"id"`
	Src   []SrcMesh `json:"src"`
	Werr  string    `json:"werr"`
	Stmts []Stmt    `json:"stmts"`
	Rerr  string    `json:"rerr"`
	Rd    []ObsMesh `json:"rd"`
	Note  string    `json:"note"`
	Io    string    `json:"io"`
}

type ldLine struct {
	K      string    `json:"k"`
	Id     int       `json:"id"`
	Gen    []Stmt    `json:"gen"`
	Stmts  []Stmt    `json:"stmts"`
	Rerr   string    `json:"rerr"`
	Rd     []ObsMesh `json:"rd"`
	Werr   string    `json:"werr"`
	Stmts2 []Stmt    `json:"stmts2"`
	Note   string    `json:"note"`
	Io     string    `json:"io"`
}

// readBack gives the text to obj.ReadMesh through the reader variant. RdFile:
// obj.Load(path) of a file holding the text (path != "": the file is already
// there, written by obj.Save together with its material library).
func readBack(text []byte, enc Enc, mode int, path string) (string, string, []ObsMesh, []obj.ObjMesh) {
	var got []obj.ObjMesh
	msg, detail := guard(func() error {
		return repeat(func() error {
			var err error
			if mode == RdFile {
				got, err = obj.Load(path)
			} else {
				got, _, err = obj.ReadMesh(wrapReader(text, mode))
			}
			return err
		})
	})
	rd := []ObsMesh{}
	if msg != "" {
		return msg, detail, rd, nil
	}
	// projecting is harness work, but it walks values the code under test built
	pmsg, pdetail := guard(func() error {
		for _, g := range got {
			rd = append(rd, projObs(g.Name, g.Mesh, enc))
		}
		return nil
	})
	if pmsg != "" {
		return "PROJECT-" + pmsg, pdetail, []ObsMesh{}, nil
	}
	return "", "", rd, got
}

// writeOut calls the writer with the writer variant; mtl is its materialFile
// argument ("" or a file name: the text then starts with mtllib / o lines,
// which a reader must skip). savePath != "": a single mesh goes through
// obj.Save(savePath) (unnamed) or obj.SaveAll(savePath, {name: mesh}) instead
// (they choose the material file themselves) and the text is what the file holds.
func writeOut(meshes []obj.ObjMesh, mtl string, mode int, savePath string) (string, string, []byte) {
	var text []byte
	msg, detail := guard(func() error {
		if savePath != "" {
			err := repeat(func() error { // the same path again: Save replaces the file
				if meshes[0].Name == "" {
					return obj.Save(savePath, meshes[0].Mesh)
				}
				// a map of one: SaveAll's mesh order is the map's, only a single entry is deterministic
				return obj.SaveAll(savePath, map[string]modeling.Mesh{meshes[0].Name: meshes[0].Mesh})
			})
			if err != nil {
				return err
			}
			b, rerr := os.ReadFile(savePath)
			if rerr != nil {
				infra(rerr)
			}
			text = b
			return nil
		}
		return repeat(func() error {
			sk := newSink(mode)
			var err error
			if len(meshes) == 1 && meshes[0].Name == "" {
				err = obj.WriteMesh(meshes[0].Mesh, mtl, sk.W)
			} else {
				err = obj.WriteMeshes(meshes, mtl, sk.W)
			}
			if err != nil {
				return err
			}
			text, err = sk.Bytes()
			return err
		})
	})
	return msg, detail, text
}

// mtlFor varies the writer's materialFile configuration with the case number.
func mtlFor(id int) string {
	if id%2 == 1 {
		return "scene.mtl"
	}
	return ""
}

func objIoName(c ObjCase) string {
	return fmt.Sprintf("%s/%s/x%d", readerModeName(c.Io), writerModeName(c.Wio), c.Rep)
}

// writeMtl: obj.Load insists on the material libraries a text names, and takes
// every material of the meshes from them (by name). The harness therefore puts
// the library next to the text, written by the package's own WriteMaterials.
func writeMtl(path string, meshes []obj.ObjMesh) (string, string) {
	return guard(func() error {
		all := []modeling.MeshMaterial{}
		for _, m := range meshes {
			all = append(all, m.Mesh.Materials()...)
		}
		f, err := os.Create(path)
		if err != nil {
			infra(err)
		}
		defer f.Close()
		return obj.WriteMaterials(all, f)
	})
}

func runWr(id int, c ObjCase, keep string) wrLine {
	enc := Enc{Mode: c.Enc, Q: c.Q}
	var meshes []obj.ObjMesh
	if c.Seeded != nil {
		meshes = buildSeeded(*c.Seeded)
	} else {
		mats := matTable{}
		for _, a := range c.Meshes {
			meshes = append(meshes, obj.ObjMesh{Name: a.Name, Mesh: buildLattice(a, enc, mats)})
		}
	}
	ln := wrLine{K: "wr", Id: id, Src: []SrcMesh{}, Stmts: []Stmt{}, Rd: []ObsMesh{}, Io: objIoName(c)}
	size, tris := 0, 0
	for _, m := range meshes {
		sm := projSrc(m.Name, m.Mesh, enc)
		ln.Src = append(ln.Src, sm)
		size += len(sm.Pos) + len(sm.Uv) + len(sm.Nrm) + len(sm.Idx)/3 + len(sm.Mats) + 1
		tris += len(sm.Idx) / 3
	}
	capStmts, capIdx = 4*size+1000, 3*tris+48
	mtl := mtlFor(id)
	dir, objPath, savePath := "", "", ""
	if c.Io == RdFile || c.Wio == WrFile {
		var err error
		if dir, err = caseDir("obj", id); err != nil {
			infra(err)
		}
		defer os.RemoveAll(dir)
		objPath = filepath.Join(dir, "case.obj")
		if c.Wio == WrFile && len(meshes) == 1 {
			savePath = objPath
		}
	}
	if c.Io == RdFile && savePath == "" {
		mtl = "scene.mtl"
	}
	var text []byte
	ln.Werr, ln.Note, text = writeOut(meshes, mtl, c.Wio, savePath)
	if ln.Werr != "" {
		return ln
	}
	if keep != "" {
		_ = os.WriteFile(fmt.Sprintf("%s/case%d.obj", keep, id), text, 0o644)
	}
	ln.Stmts = Tokenise(text, enc)
	if c.Io == RdFile && savePath == "" {
		if err := os.WriteFile(objPath, text, 0o644); err != nil {
			infra(err)
		}
		if msg, detail := writeMtl(filepath.Join(dir, mtl), meshes); msg != "" {
			ln.Rerr, ln.Note = msg, "WriteMaterials: "+detail
			return ln
		}
	}
	ln.Rerr, ln.Note, ln.Rd, _ = readBack(text, enc, c.Io, objPath)
	return ln
}

func runLd(id int, c ObjCase, keep string) ldLine {
	enc := Enc{Mode: c.Enc, Q: c.Q}
	gen := c.Gen
	if c.Text != nil {
		gen = sizedText(*c.Text, c.Q)
	}
	if gen == nil {
		gen = []Stmt{}
	}
	ln := ldLine{K: "ld", Id: id, Gen: blindSkips(gen), Stmts: []Stmt{}, Rd: []ObsMesh{}, Stmts2: []Stmt{}, Io: objIoName(c)}
	text := Render(gen, enc, c.Style)
	if keep != "" {
		_ = os.WriteFile(fmt.Sprintf("%s/case%d.obj", keep, id), text, 0o644)
	}
	ln.Stmts = Tokenise(text, enc)
	faces := 0
	for _, st := range gen {
		if st.T == "f" {
			faces++
		}
	}
	capStmts, capIdx = 16*len(gen)+1000, 3*faces+48
	objPath := ""
	if c.Io == RdFile {
		dir, err := caseDir("obj", id)
		if err != nil {
			infra(err)
		}
		defer os.RemoveAll(dir)
		objPath = filepath.Join(dir, "case.obj")
		if err := os.WriteFile(objPath, text, 0o644); err != nil {
			infra(err)
		}
	}
	var got []obj.ObjMesh
	ln.Rerr, ln.Note, ln.Rd, got = readBack(text, enc, c.Io, objPath)
	if ln.Rerr != "" {
		return ln
	}
	var saved []byte
	ln.Werr, ln.Note, saved = writeOut(got, mtlFor(id), c.Wio, "")
	if ln.Werr != "" {
		return ln
	}
	if keep != "" {
		_ = os.WriteFile(fmt.Sprintf("%s/case%d.saved.obj", keep, id), saved, 0o644)
	}
	ln.Stmts2 = Tokenise(saved, enc)
	return ln
}

// RunObjCases executes cases (ndjson) on the real code and writes the trace.
// keep != "": also leave the OBJ texts in that directory (for replays).
func RunObjCases(in, out, keep string, budgetSeconds int) error {
	fi, err := os.Open(in)
	if err != nil {
		return err
	}
	defer fi.Close()
	fo, err := os.Create(out)
	if err != nil {
		return err
	}
	defer fo.Close()
	w := bufio.NewWriterSize(fo, 1<<20)
	defer w.Flush()
	encj := json.NewEncoder(w)
	sc := bufio.NewScanner(fi)
	sc.Buffer(make([]byte, 1<<20), 1<<28)
	id := 0
	defer removeTmp()
	stop := newStopper(budgetSeconds)
	for sc.Scan() {
		if len(sc.Bytes()) == 0 {
			continue
		}
		var c ObjCase
		if err := json.Unmarshal(sc.Bytes(), &c); err != nil {
			return fmt.Errorf("case %d: %w", id, err)
		}
		decodeNames(&c)
		setReps(c.Rep)
		resetCaps()
		cid := id
		if c.Cid != nil { // what varies with the case number (material file argument) is the same in a replay
			cid = *c.Cid
		}
		switch c.K {
		case "wr":
			if err := encj.Encode(runWr(cid, c, keep)); err != nil {
				return err
			}
		case "ld":
			if err := encj.Encode(runLd(cid, c, keep)); err != nil {
				return err
			}
		default:
			return fmt.Errorf("case %d: unknown kind %q", id, c.K)
		}
		id++
		if why := stop.after(); why != "" {
			return encj.Encode(stopLine{K: "stop", Why: why, Done: id})
		}
	}
	return sc.Err()
}

// ---- names (round 5) --------------------------------------------------------

var uniPlaceholder = regexp.MustCompile(`<U\+([0-9A-F]{4,6})>`)

// decodeName replaces the <U+XXXX> placeholders of a generated name by the
// character they stand for (TLC's output is ASCII; specs/ObjNames.tla).
func decodeName(s string) string {
	if !strings.Contains(s, "<U+") {
		return s
	}
	return uniPlaceholder.ReplaceAllStringFunc(s, func(m string) string {
		n, err := strconv.ParseInt(m[3:len(m)-1], 16, 32)
		if err != nil {
			return m
		}
		return string(rune(n))
	})
}

func decodeNames(c *ObjCase) {
	for i := range c.Meshes {
		c.Meshes[i].Name = decodeName(c.Meshes[i].Name)
		for j := range c.Meshes[i].Mats {
			c.Meshes[i].Mats[j].M = decodeName(c.Meshes[i].Mats[j].M)
		}
	}
	for i := range c.Gen {
		c.Gen[i].S = decodeName(c.Gen[i].S)
	}
}

// blindSkips: a skip line ("x") of a generated text carries the text of the
// line for the renderer; the tokeniser reports skip lines without their text.
func blindSkips(gen []Stmt) []Stmt {
	out := make([]Stmt, len(gen))
	copy(out, gen)
	for i := range out {
		if out[i].T == "x" {
			out[i].S = ""
		}
	}
	return out
}
