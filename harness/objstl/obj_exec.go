package objstl

import (
	"bufio"
	"bytes"
	"encoding/json"
	"fmt"
	"math"
	"math/rand"
	"os"

	"github.com/EliCDavis/polyform/formats/obj"
	"github.com/EliCDavis/polyform/modeling"
	"github.com/EliCDavis/vector/vector2"
	"github.com/EliCDavis/vector/vector3"
)

// ---- cases ---------------------------------------------------------------

type AMat struct {
	N int    `json:"n"`
	M string `json:"m"` // "<nil>" = nil material
}

// AMesh: a mesh on the lattice, as the TLA+ generators print it.
type AMesh struct {
	Name string  `json:"name"`
	Idx  []int   `json:"idx"`
	Pos  [][]int `json:"pos"`
	Uv   [][]int `json:"uv"`
	Nrm  [][]int `json:"nrm"`
	Mats []AMat  `json:"mats"`
}

// ObjSeeded: a "wr" case whose meshes are drawn by the seeded recorder
// (arbitrary finite float64 values, sizes TLC does not enumerate).
type ObjSeeded struct {
	Seed    int64 `json:"seed"`
	NMesh   int   `json:"nmesh"`
	MaxTris int   `json:"maxtris"`
}

type ObjCase struct {
	K      string     `json:"k"` // "wr" | "ld"
	Tag    string     `json:"tag"`
	Enc    string     `json:"enc"`
	Q      int        `json:"q"`
	Meshes []AMesh    `json:"meshes,omitempty"`
	Seeded *ObjSeeded `json:"seeded,omitempty"`
	Gen    []Stmt     `json:"gen,omitempty"`
	Style  int        `json:"style"`
}

// ---- projections -----------------------------------------------------------

type SrcMesh struct {
	Name string    `json:"name"`
	Idx  []int     `json:"idx"`
	Pos  [][][]int `json:"pos"`
	Uv   [][][]int `json:"uv"`
	Nrm  [][][]int `json:"nrm"`
	Mats []AMat    `json:"mats"`
}

type ObsMesh struct {
	Name string  `json:"name"`
	Idx  []int   `json:"idx"`
	Pos  [][]int `json:"pos"`
	Uv   [][]int `json:"uv"`
	Nrm  [][]int `json:"nrm"`
	Mats []AMat  `json:"mats"`
}

func projMats(m modeling.Mesh) []AMat {
	out := []AMat{}
	for _, mm := range m.Materials() {
		name := "<nil>"
		if mm.Material != nil {
			name = mm.Material.Name
		}
		out = append(out, AMat{N: mm.PrimitiveCount, M: name})
	}
	return out
}

func projIdx(m modeling.Mesh) []int {
	out := []int{}
	idx := m.Indices()
	for i := 0; i < idx.Len(); i++ {
		out = append(out, idx.At(i))
	}
	return out
}

// projSrc / projObs read a mesh through its public observers only.
func projSrc(name string, m modeling.Mesh, enc Enc) SrcMesh {
	p := SrcMesh{Name: name, Idx: projIdx(m), Pos: [][][]int{}, Uv: [][][]int{}, Nrm: [][][]int{}, Mats: projMats(m)}
	if m.HasFloat3Attribute(modeling.PositionAttribute) {
		a := m.Float3Attribute(modeling.PositionAttribute)
		for i := 0; i < a.Len(); i++ {
			v := a.At(i)
			p.Pos = append(p.Pos, enc.SrcVec(v.X(), v.Y(), v.Z()))
		}
	}
	if m.HasFloat2Attribute(modeling.TexCoordAttribute) {
		a := m.Float2Attribute(modeling.TexCoordAttribute)
		for i := 0; i < a.Len(); i++ {
			v := a.At(i)
			p.Uv = append(p.Uv, enc.SrcVec(v.X(), v.Y()))
		}
	}
	if m.HasFloat3Attribute(modeling.NormalAttribute) {
		a := m.Float3Attribute(modeling.NormalAttribute)
		for i := 0; i < a.Len(); i++ {
			v := a.At(i)
			p.Nrm = append(p.Nrm, enc.SrcVec(v.X(), v.Y(), v.Z()))
		}
	}
	return p
}

func projObs(name string, m modeling.Mesh, enc Enc) ObsMesh {
	p := ObsMesh{Name: name, Idx: projIdx(m), Pos: [][]int{}, Uv: [][]int{}, Nrm: [][]int{}, Mats: projMats(m)}
	if m.HasFloat3Attribute(modeling.PositionAttribute) {
		a := m.Float3Attribute(modeling.PositionAttribute)
		for i := 0; i < a.Len(); i++ {
			v := a.At(i)
			p.Pos = append(p.Pos, enc.ObsVec(v.X(), v.Y(), v.Z()))
		}
	}
	if m.HasFloat2Attribute(modeling.TexCoordAttribute) {
		a := m.Float2Attribute(modeling.TexCoordAttribute)
		for i := 0; i < a.Len(); i++ {
			v := a.At(i)
			p.Uv = append(p.Uv, enc.ObsVec(v.X(), v.Y()))
		}
	}
	if m.HasFloat3Attribute(modeling.NormalAttribute) {
		a := m.Float3Attribute(modeling.NormalAttribute)
		for i := 0; i < a.Len(); i++ {
			v := a.At(i)
			p.Nrm = append(p.Nrm, enc.ObsVec(v.X(), v.Y(), v.Z()))
		}
	}
	return p
}

// ---- building real inputs ---------------------------------------------------

type matTable map[string]*modeling.Material

func (t matTable) get(name string) *modeling.Material {
	if name == "<nil>" {
		return nil
	}
	if m, ok := t[name]; ok {
		return m
	}
	m := &modeling.Material{Name: name}
	t[name] = m
	return m
}

func buildLattice(a AMesh, enc Enc, mats matTable) modeling.Mesh {
	idx := append([]int{}, a.Idx...)
	m := modeling.NewTriangleMesh(idx)
	pos := make([]vector3.Float64, len(a.Pos))
	for i, v := range a.Pos {
		pos[i] = vector3.New(enc.Val(v[0]), enc.Val(v[1]), enc.Val(v[2]))
	}
	m = m.SetFloat3Attribute(modeling.PositionAttribute, pos)
	if len(a.Uv) > 0 {
		uv := make([]vector2.Float64, len(a.Uv))
		for i, v := range a.Uv {
			uv[i] = vector2.New(enc.Val(v[0]), enc.Val(v[1]))
		}
		m = m.SetFloat2Attribute(modeling.TexCoordAttribute, uv)
	}
	if len(a.Nrm) > 0 {
		n := make([]vector3.Float64, len(a.Nrm))
		for i, v := range a.Nrm {
			n[i] = vector3.New(enc.Val(v[0]), enc.Val(v[1]), enc.Val(v[2]))
		}
		m = m.SetFloat3Attribute(modeling.NormalAttribute, n)
	}
	if len(a.Mats) > 0 {
		mm := make([]modeling.MeshMaterial, len(a.Mats))
		for i, r := range a.Mats {
			mm[i] = modeling.MeshMaterial{PrimitiveCount: r.N, Material: mats.get(r.M)}
		}
		m = m.SetMaterials(mm)
	}
	return m
}

// randomReal draws finite float64 values of several kinds: float32
// representable, generic doubles, small integers, tiny and large magnitudes.
func randomReal(r *rand.Rand) float64 {
	switch r.Intn(6) {
	case 0:
		return float64(r.Intn(41) - 20)
	case 1:
		return float64(float32(r.NormFloat64() * 10))
	case 2:
		return r.NormFloat64() * 100
	case 3:
		return (r.Float64() - 0.5) * math.Pow(10, float64(r.Intn(30)-20))
	case 4:
		return float64(math.Float32frombits(uint32(r.Int63())&0x7fffffff%0x7f000000)) * float64(1-2*r.Intn(2))
	}
	return r.Float64()
}

func buildSeeded(s ObjSeeded) []obj.ObjMesh {
	r := rand.New(rand.NewSource(s.Seed))
	mats := matTable{}
	names := []string{"body", "left wheel", "body", "x1", "roof", "Mesh.001"}
	matNames := []string{"red", "blue", "<nil>", "steel", "red"}
	out := []obj.ObjMesh{}
	for i := 0; i < s.NMesh; i++ {
		nt := r.Intn(s.MaxTris + 1)
		if r.Intn(4) > 0 && nt == 0 {
			nt = 1 + r.Intn(s.MaxTris)
		}
		nv := 3 * nt
		if nt > 0 && r.Intn(2) == 0 {
			nv = 3 + r.Intn(2*nt+1) // welded to some degree
		}
		idx := make([]int, 3*nt)
		for k := range idx {
			idx[k] = r.Intn(nv)
		}
		m := modeling.NewTriangleMesh(idx)
		pos := make([]vector3.Float64, nv)
		for k := range pos {
			pos[k] = vector3.New(randomReal(r), randomReal(r), randomReal(r))
		}
		m = m.SetFloat3Attribute(modeling.PositionAttribute, pos)
		if r.Intn(2) == 0 {
			uv := make([]vector2.Float64, nv)
			for k := range uv {
				uv[k] = vector2.New(randomReal(r), randomReal(r))
			}
			m = m.SetFloat2Attribute(modeling.TexCoordAttribute, uv)
		}
		if r.Intn(2) == 0 {
			n := make([]vector3.Float64, nv)
			for k := range n {
				n[k] = vector3.New(randomReal(r), randomReal(r), randomReal(r))
			}
			m = m.SetFloat3Attribute(modeling.NormalAttribute, n)
		}
		if nt > 0 && r.Intn(3) > 0 {
			left := nt
			mm := []modeling.MeshMaterial{}
			for left > 0 {
				k := 1 + r.Intn(left)
				mm = append(mm, modeling.MeshMaterial{PrimitiveCount: k, Material: mats.get(matNames[r.Intn(len(matNames))])})
				left -= k
			}
			m = m.SetMaterials(mm)
		}
		out = append(out, obj.ObjMesh{Name: names[(i+int(s.Seed))%len(names)], Mesh: m})
	}
	return out
}

// ---- trace lines ------------------------------------------------------------

type wrLine struct {
	K     string    `json:"k"`
	Id    int       `json:"id"`
	Src   []SrcMesh `json:"src"`
	Werr  string    `json:"werr"`
	Stmts []Stmt    `json:"stmts"`
	Rerr  string    `json:"rerr"`
	Rd    []ObsMesh `json:"rd"`
	Note  string    `json:"note"`
}

type ldLine struct {
	K      string    `json:"k"`
	Id     int       `json:"id"`
	Gen    []Stmt    `json:"gen"`
	Stmts  []Stmt    `json:"stmts"`
	Rerr   string    `json:"rerr"`
	Rd     []ObsMesh `json:"rd"`
	Werr   string    `json:"werr"`
	Stmts2 []Stmt    `json:"stmts2"`
	Note   string    `json:"note"`
}

func readBack(text []byte, enc Enc) (string, string, []ObsMesh, []obj.ObjMesh) {
	var got []obj.ObjMesh
	msg, detail := guard(func() error {
		var err error
		got, _, err = obj.ReadMesh(bytes.NewReader(text))
		return err
	})
	rd := []ObsMesh{}
	if msg != "" {
		return msg, detail, rd, nil
	}
	// projecting is harness work, but it walks values the code under test built
	pmsg, pdetail := guard(func() error {
		for _, g := range got {
			rd = append(rd, projObs(g.Name, g.Mesh, enc))
		}
		return nil
	})
	if pmsg != "" {
		return "PROJECT-" + pmsg, pdetail, []ObsMesh{}, nil
	}
	return "", "", rd, got
}

// writeOut calls the writer; mtl is its materialFile argument ("" or a file
// name: the text then starts with mtllib / o lines, which a reader must skip).
func writeOut(meshes []obj.ObjMesh, mtl string) (string, string, []byte) {
	var buf bytes.Buffer
	msg, detail := guard(func() error {
		if len(meshes) == 1 && meshes[0].Name == "" {
			return obj.WriteMesh(meshes[0].Mesh, mtl, &buf)
		}
		return obj.WriteMeshes(meshes, mtl, &buf)
	})
	return msg, detail, buf.Bytes()
}

// mtlFor varies the writer's materialFile configuration with the case number.
func mtlFor(id int) string {
	if id%2 == 1 {
		return "scene.mtl"
	}
	return ""
}

func runWr(id int, c ObjCase, keep string) wrLine {
	enc := Enc{Mode: c.Enc, Q: c.Q}
	var meshes []obj.ObjMesh
	if c.Seeded != nil {
		meshes = buildSeeded(*c.Seeded)
	} else {
		mats := matTable{}
		for _, a := range c.Meshes {
			meshes = append(meshes, obj.ObjMesh{Name: a.Name, Mesh: buildLattice(a, enc, mats)})
		}
	}
	ln := wrLine{K: "wr", Id: id, Src: []SrcMesh{}, Stmts: []Stmt{}, Rd: []ObsMesh{}}
	for _, m := range meshes {
		ln.Src = append(ln.Src, projSrc(m.Name, m.Mesh, enc))
	}
	var text []byte
	ln.Werr, ln.Note, text = writeOut(meshes, mtlFor(id))
	if ln.Werr != "" {
		return ln
	}
	if keep != "" {
		_ = os.WriteFile(fmt.Sprintf("%s/case%d.obj", keep, id), text, 0o644)
	}
	ln.Stmts = Tokenise(text, enc)
	ln.Rerr, ln.Note, ln.Rd, _ = readBack(text, enc)
	return ln
}

func runLd(id int, c ObjCase, keep string) ldLine {
	enc := Enc{Mode: c.Enc, Q: c.Q}
	ln := ldLine{K: "ld", Id: id, Gen: c.Gen, Stmts: []Stmt{}, Rd: []ObsMesh{}, Stmts2: []Stmt{}}
	text := Render(c.Gen, enc, c.Style)
	if keep != "" {
		_ = os.WriteFile(fmt.Sprintf("%s/case%d.obj", keep, id), text, 0o644)
	}
	ln.Stmts = Tokenise(text, enc)
	var got []obj.ObjMesh
	ln.Rerr, ln.Note, ln.Rd, got = readBack(text, enc)
	if ln.Rerr != "" {
		return ln
	}
	var saved []byte
	ln.Werr, ln.Note, saved = writeOut(got, mtlFor(id))
	if ln.Werr != "" {
		return ln
	}
	if keep != "" {
		_ = os.WriteFile(fmt.Sprintf("%s/case%d.saved.obj", keep, id), saved, 0o644)
	}
	ln.Stmts2 = Tokenise(saved, enc)
	return ln
}

// RunObjCases executes cases (ndjson) on the real code and writes the trace.
// keep != "": also leave the OBJ texts in that directory (for replays).
func RunObjCases(in, out, keep string) error {
	fi, err := os.Open(in)
	if err != nil {
		return err
	}
	defer fi.Close()
	fo, err := os.Create(out)
	if err != nil {
		return err
	}
	defer fo.Close()
	w := bufio.NewWriterSize(fo, 1<<20)
	defer w.Flush()
	encj := json.NewEncoder(w)
	sc := bufio.NewScanner(fi)
	sc.Buffer(make([]byte, 1<<20), 1<<28)
	id := 0
	for sc.Scan() {
		if len(sc.Bytes()) == 0 {
			continue
		}
		var c ObjCase
		if err := json.Unmarshal(sc.Bytes(), &c); err != nil {
			return fmt.Errorf("case %d: %w", id, err)
		}
		switch c.K {
		case "wr":
			if err := encj.Encode(runWr(id, c, keep)); err != nil {
				return err
			}
		case "ld":
			if err := encj.Encode(runLd(id, c, keep)); err != nil {
				return err
			}
		default:
			return fmt.Errorf("case %d: unknown kind %q", id, c.K)
		}
		id++
	}
	return sc.Err()
}
