// Package objstl is the harness of the OBJ / STL families (properties C05,
// C07). It executes real polyform code (formats/obj, formats/stl) on cases,
// reads the produced bytes with its OWN tokeniser / record parser (written
// from the format descriptions, sharing no code with polyform's readers and
// writers) and logs integer projections as ndjson. It contains no property
// logic: TraceObj.tla / TraceStl.tla judge.
package objstl

import (
	"fmt"
	"math"
	"time"
)

// Enc says how a real number becomes an integer in a trace.
//
//	"lat": value * Q, for values that lie on the 1/Q lattice (exactly
//	       representable in float32 for the magnitudes used); an observed
//	       value that is NOT on the lattice is logged as OffLattice, which
//	       no source value ever has.
//	"f32": the IEEE-754 float32 bit pattern reinterpreted as int32.
//
// A SOURCE value (float64 given to a writer) is logged as the pair of its two
// float32 neighbours (lo <= x <= hi, lo = hi when x is representable), so
// that "float32 precision" is a membership test in the specification.
type Enc struct {
	Mode string
	Q    int
}

const OffLattice = 1 << 30

func f32bits(f float32) int { return int(int32(math.Float32bits(f))) }

func (e Enc) Obs(x float64) int {
	if e.Mode == "f32" {
		return f32bits(float32(x))
	}
	if math.IsNaN(x) || math.IsInf(x, 0) || math.Abs(x) > 1e5 {
		return OffLattice
	}
	s := x * float64(e.Q)
	r := math.Round(s)
	if s != r {
		return OffLattice
	}
	return int(r)
}

func (e Enc) Src(x float64) []int {
	if e.Mode == "f32" {
		f := float32(x)
		switch {
		case float64(f) == x || math.IsNaN(x):
			return []int{f32bits(f), f32bits(f)}
		case float64(f) < x:
			return []int{f32bits(f), f32bits(math.Nextafter32(f, float32(math.Inf(1))))}
		default:
			return []int{f32bits(math.Nextafter32(f, float32(math.Inf(-1)))), f32bits(f)}
		}
	}
	v := e.Obs(x)
	return []int{v, v}
}

// Val is the inverse of Obs for lattice inputs.
func (e Enc) Val(k int) float64 { return float64(k) / float64(e.Q) }

func (e Enc) ObsVec(xs ...float64) []int {
	out := make([]int, len(xs))
	for i, x := range xs {
		out[i] = e.Obs(x)
	}
	return out
}

func (e Enc) SrcVec(xs ...float64) [][]int {
	out := make([][]int, len(xs))
	for i, x := range xs {
		out[i] = e.Src(x)
	}
	return out
}

// guard runs f (a call into the code under test) and turns an error, a panic
// or a hang into an observation: "", "ERROR", "PANIC", "TIMEOUT". detail is for
// humans only.
func guard(f func() error) (msg string, detail string) {
	type res struct{ msg, detail string }
	ch := make(chan res, 1)
	go func() {
		defer func() {
			if r := recover(); r != nil {
				ch <- res{"PANIC", fmt.Sprint(r)}
			}
		}()
		if err := f(); err != nil {
			ch <- res{"ERROR", err.Error()}
			return
		}
		ch <- res{"", ""}
	}()
	select {
	case r := <-ch:
		return r.msg, r.detail
	case <-time.After(20 * time.Second):
		return "TIMEOUT", ""
	}
}
