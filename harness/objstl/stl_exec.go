package objstl

import (
	"bufio"
	"bytes"
	"encoding/json"
	"fmt"
	"math/rand"
	"os"

	"github.com/EliCDavis/polyform/formats/stl"
	"github.com/EliCDavis/polyform/modeling"
	"github.com/EliCDavis/vector/vector3"
)

// ---- cases ---------------------------------------------------------------

type StlAMesh struct {
	Idx []int   `json:"idx"`
	Pos [][]int `json:"pos"` // over Q
	Nrm [][]int `json:"nrm"` // over Qn; empty: no Normal attribute
}

type GRec struct {
	N []int   `json:"n"` // over Qn (exact)
	V [][]int `json:"v"` // over Q (lat) or float32 bit patterns (f32)
	A int     `json:"a"`
}

type StlSeeded struct {
	Seed  int64 `json:"seed"`
	NTris int   `json:"ntris"`
}

type StlCase struct {
	K      string     `json:"k"` // "sw" | "sr"
	Tag    string     `json:"tag"`
	Enc    string     `json:"enc"`
	Q      int        `json:"q"`
	Qn     int        `json:"qn"`
	Mesh   *StlAMesh  `json:"mesh,omitempty"`
	Gen    []GRec     `json:"gen,omitempty"`
	Seeded *StlSeeded `json:"seeded,omitempty"`
}

// ---- projections -----------------------------------------------------------

type StlSrc struct {
	Idx []int     `json:"idx"`
	Pos [][][]int `json:"pos"` // <<lo,hi>> per scalar
	Nrm [][]int   `json:"nrm"` // exact, over Qn
}

type StlObs struct {
	Idx []int   `json:"idx"`
	Pos [][]int `json:"pos"`
	Nrm [][]int `json:"nrm"` // rounded to 1/4096
}

func stlSrc(m modeling.Mesh, enc Enc, qn int) StlSrc {
	p := StlSrc{Idx: projIdx(m), Pos: [][][]int{}, Nrm: [][]int{}}
	if m.HasFloat3Attribute(modeling.PositionAttribute) {
		a := m.Float3Attribute(modeling.PositionAttribute)
		for i := 0; i < a.Len(); i++ {
			v := a.At(i)
			p.Pos = append(p.Pos, enc.SrcVec(v.X(), v.Y(), v.Z()))
		}
	}
	if m.HasFloat3Attribute(modeling.NormalAttribute) {
		ne := Enc{Mode: "lat", Q: qn}
		a := m.Float3Attribute(modeling.NormalAttribute)
		for i := 0; i < a.Len(); i++ {
			v := a.At(i)
			p.Nrm = append(p.Nrm, ne.ObsVec(v.X(), v.Y(), v.Z()))
		}
	}
	return p
}

func stlObs(m modeling.Mesh, enc Enc) StlObs {
	p := StlObs{Idx: projIdx(m), Pos: [][]int{}, Nrm: [][]int{}}
	if m.HasFloat3Attribute(modeling.PositionAttribute) {
		a := m.Float3Attribute(modeling.PositionAttribute)
		for i := 0; i < a.Len(); i++ {
			v := a.At(i)
			p.Pos = append(p.Pos, enc.ObsVec(v.X(), v.Y(), v.Z()))
		}
	}
	if m.HasFloat3Attribute(modeling.NormalAttribute) {
		a := m.Float3Attribute(modeling.NormalAttribute)
		for i := 0; i < a.Len(); i++ {
			v := a.At(i)
			p.Nrm = append(p.Nrm, []int{scaleNormal(v.X()), scaleNormal(v.Y()), scaleNormal(v.Z())})
		}
	}
	return p
}

// ---- building inputs ---------------------------------------------------------

func stlBuildLattice(a StlAMesh, q, qn int) modeling.Mesh {
	m := modeling.NewTriangleMesh(append([]int{}, a.Idx...))
	if len(a.Pos) > 0 {
		pos := make([]vector3.Float64, len(a.Pos))
		for i, v := range a.Pos {
			pos[i] = vector3.New(float64(v[0])/float64(q), float64(v[1])/float64(q), float64(v[2])/float64(q))
		}
		m = m.SetFloat3Attribute(modeling.PositionAttribute, pos)
	}
	if len(a.Nrm) > 0 {
		n := make([]vector3.Float64, len(a.Nrm))
		for i, v := range a.Nrm {
			n[i] = vector3.New(float64(v[0])/float64(qn), float64(v[1])/float64(qn), float64(v[2])/float64(qn))
		}
		m = m.SetFloat3Attribute(modeling.NormalAttribute, n)
	}
	return m
}

// stlBuildSeeded: arbitrary finite float64 positions, random (welded) index
// pattern, corner normals on the 1/qn lattice with positive z (their sum
// never vanishes, so the normalised mean is defined).
func stlBuildSeeded(s StlSeeded, qn int) modeling.Mesh {
	r := rand.New(rand.NewSource(s.Seed))
	nt := s.NTris
	nv := 3 * nt
	if nt > 0 && r.Intn(2) == 0 {
		nv = 3 + r.Intn(2*nt+1)
	}
	idx := make([]int, 3*nt)
	for k := range idx {
		idx[k] = r.Intn(nv)
	}
	if r.Intn(3) == 0 { // unwelded identity
		nv = 3 * nt
		for k := range idx {
			idx[k] = k
		}
	}
	m := modeling.NewTriangleMesh(idx)
	pos := make([]vector3.Float64, nv)
	for k := range pos {
		pos[k] = vector3.New(randomReal(r), randomReal(r), randomReal(r))
	}
	m = m.SetFloat3Attribute(modeling.PositionAttribute, pos)
	if r.Intn(3) > 0 {
		n := make([]vector3.Float64, nv)
		for k := range n {
			n[k] = vector3.New(float64(r.Intn(17)-8)/float64(qn), float64(r.Intn(17)-8)/float64(qn), float64(1+r.Intn(8))/float64(qn))
		}
		m = m.SetFloat3Attribute(modeling.NormalAttribute, n)
	}
	return m
}

var unitDirs = [][]int{{60, 0, 0}, {0, -60, 0}, {0, 0, 60}, {36, 48, 0}, {0, 36, -48}, {-48, 0, 36}, {20, 40, 40}, {-40, 20, -40},
	{120, 0, 0}, {12, 12, 12}}

// stlSeededRecs: random float32 positions; normals all zero or all non-zero
// (geometry of random floats cannot be evaluated by the specification).
func stlSeededRecs(s StlSeeded) ([]GRec, []FRec) {
	r := rand.New(rand.NewSource(s.Seed))
	allZero := r.Intn(3) == 0
	g := []GRec{}
	f := []FRec{}
	for i := 0; i < s.NTris; i++ {
		var fr FRec
		gr := GRec{N: []int{0, 0, 0}, V: [][]int{}, A: 0}
		if !allZero {
			d := unitDirs[r.Intn(len(unitDirs))]
			gr.N = d
			fr.N = [3]float32{float32(d[0]) / 60, float32(d[1]) / 60, float32(d[2]) / 60}
		}
		for c := 0; c < 3; c++ {
			var bits []int
			for k := 0; k < 3; k++ {
				x := float32(randomReal(r))
				fr.V[c][k] = x
				bits = append(bits, f32bits(x))
			}
			gr.V = append(gr.V, bits)
		}
		if r.Intn(20) == 0 {
			gr.A = 1 + r.Intn(65535)
			fr.A = uint16(gr.A)
		}
		g = append(g, gr)
		f = append(f, fr)
	}
	return g, f
}

// ---- trace lines ------------------------------------------------------------

type swLine struct {
	K    string `json:"k"`
	Id   int    `json:"id"`
	Lat  bool   `json:"lat"`
	Src  StlSrc `json:"src"`
	Werr string `json:"werr"`
	F    SFile  `json:"f"`
	Rerr string `json:"rerr"`
	Rd   StlObs `json:"rd"`
	Note string `json:"note"`
}

type srLine struct {
	K    string `json:"k"`
	Id   int    `json:"id"`
	Lat  bool   `json:"lat"`
	Gen  []GRec `json:"gen"`
	F    SFile  `json:"f"`
	Rerr string `json:"rerr"`
	Rd   StlObs `json:"rd"`
	Werr string `json:"werr"`
	F2   SFile  `json:"f2"`
	Note string `json:"note"`
}

func emptyFile() SFile { return SFile{Count: -1, Recs: []SRec{}} }
func emptyObs() StlObs { return StlObs{Idx: []int{}, Pos: [][]int{}, Nrm: [][]int{}} }

func stlRead(b []byte, enc Enc) (string, string, StlObs, *modeling.Mesh) {
	var got *modeling.Mesh
	msg, detail := guard(func() error {
		var err error
		got, err = stl.ReadMesh(bytes.NewReader(b))
		if err == nil && got == nil {
			return fmt.Errorf("nil mesh without error")
		}
		return err
	})
	if msg != "" {
		return msg, detail, emptyObs(), nil
	}
	rd := emptyObs()
	pmsg, pdetail := guard(func() error { rd = stlObs(*got, enc); return nil })
	if pmsg != "" {
		return "PROJECT-" + pmsg, pdetail, emptyObs(), nil
	}
	return "", "", rd, got
}

func stlWrite(m modeling.Mesh) (string, string, []byte) {
	var buf bytes.Buffer
	msg, detail := guard(func() error { return stl.WriteMesh(&buf, m) })
	return msg, detail, buf.Bytes()
}

func runSw(id int, c StlCase, keep string) swLine {
	enc := Enc{Mode: c.Enc, Q: c.Q}
	var m modeling.Mesh
	if c.Seeded != nil {
		m = stlBuildSeeded(*c.Seeded, c.Qn)
	} else {
		m = stlBuildLattice(*c.Mesh, c.Q, c.Qn)
	}
	ln := swLine{K: "sw", Id: id, Lat: c.Enc == "lat", Src: stlSrc(m, enc, c.Qn), F: emptyFile(), Rd: emptyObs()}
	var b []byte
	ln.Werr, ln.Note, b = stlWrite(m)
	if ln.Werr != "" {
		return ln
	}
	if keep != "" {
		_ = os.WriteFile(fmt.Sprintf("%s/case%d.stl", keep, id), b, 0o644)
	}
	ln.F = ParseStl(b, enc)
	ln.Rerr, ln.Note, ln.Rd, _ = stlRead(b, enc)
	return ln
}

func runSr(id int, c StlCase, keep string) srLine {
	enc := Enc{Mode: c.Enc, Q: c.Q}
	ln := srLine{K: "sr", Id: id, Lat: c.Enc == "lat", Gen: c.Gen, F: emptyFile(), Rd: emptyObs(), F2: emptyFile()}
	var recs []FRec
	if c.Seeded != nil {
		ln.Gen, recs = stlSeededRecs(*c.Seeded)
	} else {
		for _, g := range c.Gen {
			var fr FRec
			for k := 0; k < 3; k++ {
				fr.N[k] = float32(float64(g.N[k]) / float64(c.Qn))
				for cc := 0; cc < 3; cc++ {
					fr.V[cc][k] = float32(float64(g.V[cc][k]) / float64(c.Q))
				}
			}
			fr.A = uint16(g.A)
			recs = append(recs, fr)
		}
	}
	if ln.Gen == nil {
		ln.Gen = []GRec{}
	}
	title := fmt.Sprintf("verif case %d", id)
	if id%3 == 0 { // a binary file whose header happens to start like an ASCII one is still binary STL
		title = "solid " + title
	}
	b := EncodeStl(recs, title)
	if keep != "" {
		_ = os.WriteFile(fmt.Sprintf("%s/case%d.stl", keep, id), b, 0o644)
	}
	ln.F = ParseStl(b, enc)
	var got *modeling.Mesh
	ln.Rerr, ln.Note, ln.Rd, got = stlRead(b, enc)
	if ln.Rerr != "" {
		return ln
	}
	var b2 []byte
	ln.Werr, ln.Note, b2 = stlWrite(*got)
	if ln.Werr != "" {
		return ln
	}
	if keep != "" {
		_ = os.WriteFile(fmt.Sprintf("%s/case%d.saved.stl", keep, id), b2, 0o644)
	}
	ln.F2 = ParseStl(b2, enc)
	return ln
}

// RunStlCases executes cases (ndjson) on the real code and writes the trace.
func RunStlCases(in, out, keep string) error {
	fi, err := os.Open(in)
	if err != nil {
		return err
	}
	defer fi.Close()
	fo, err := os.Create(out)
	if err != nil {
		return err
	}
	defer fo.Close()
	w := bufio.NewWriterSize(fo, 1<<20)
	defer w.Flush()
	encj := json.NewEncoder(w)
	sc := bufio.NewScanner(fi)
	sc.Buffer(make([]byte, 1<<20), 1<<28)
	id := 0
	for sc.Scan() {
		if len(sc.Bytes()) == 0 {
			continue
		}
		var c StlCase
		if err := json.Unmarshal(sc.Bytes(), &c); err != nil {
			return fmt.Errorf("case %d: %w", id, err)
		}
		switch c.K {
		case "sw":
			if err := encj.Encode(runSw(id, c, keep)); err != nil {
				return err
			}
		case "sr":
			if err := encj.Encode(runSr(id, c, keep)); err != nil {
				return err
			}
		default:
			return fmt.Errorf("case %d: unknown kind %q", id, c.K)
		}
		id++
	}
	return sc.Err()
}

// GenStlRandom writes seeded "sw" and "sr" cases (sizes TLC does not enumerate).
func GenStlRandom(out string, seed int64, nSw, nSr, maxTris int) error {
	fo, err := os.Create(out)
	if err != nil {
		return err
	}
	defer fo.Close()
	w := bufio.NewWriter(fo)
	defer w.Flush()
	enc := json.NewEncoder(w)
	r := rand.New(rand.NewSource(seed))
	for i := 0; i < nSw; i++ {
		c := StlCase{K: "sw", Tag: "random", Enc: "f32", Q: 1, Qn: 4,
			Seeded: &StlSeeded{Seed: seed*100003 + int64(i), NTris: r.Intn(maxTris + 1)}}
		if err := enc.Encode(c); err != nil {
			return err
		}
	}
	for i := 0; i < nSr; i++ {
		c := StlCase{K: "sr", Tag: "random", Enc: "f32", Q: 1, Qn: 60,
			Seeded: &StlSeeded{Seed: seed*200003 + int64(i), NTris: r.Intn(maxTris + 1)}}
		if err := enc.Encode(c); err != nil {
			return err
		}
	}
	return nil
}
