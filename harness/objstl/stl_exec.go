package objstl

import (
	"bufio"
	"encoding/json"
	"fmt"
	"math"
	"math/rand"
	"os"
	"path/filepath"

	"github.com/EliCDavis/polyform/formats/stl"
	"github.com/EliCDavis/polyform/modeling"
	"github.com/EliCDavis/vector/vector3"
)

// ---- cases ---------------------------------------------------------------

type StlAMesh struct {
	Idx []int   `json:"idx"`
	Pos [][]int `json:"pos"` // over Q
	Nrm [][]int `json:"nrm"` // over Qn; empty: no Normal attribute
}

type GRec struct {
	N []int   `json:"n"` // over Qn (exact)
	V [][]int `json:"v"` // over Q (lat) or float32 bit patterns (f32)
	A int     `json:"a"`
}

// StlSeeded: a mesh / record list drawn by the seeded recorder. The fields
// after NTris (round 2) fix the shape instead of drawing it; their zero value
// is "drawn from the seed".
type StlSeeded struct {
	Seed   int64 `json:"seed"`
	NTris  int   `json:"ntris"`
	NVerts int   `json:"nverts"` // > 0: exactly this many vertices, random welded indices; -1: unwelded (3 per triangle)
	Nrm    int   `json:"nrm"`    // 1: with corner normals, 2: without
	NExp   int   `json:"nexp"`   // corner normals are lattice vectors times 2^nexp (magnitude range)
	Edge   int   `json:"edge"`   // 1: boundary float values among the positions, 2: also NaN / Inf
}

type StlCase struct {
	K      string     `json:"k"`             // "sw" | "sr" | "sb" | "sz"
	Dir    string     `json:"dir,omitempty"` // "sz": "w" mesh -> file -> mesh, "r" records -> mesh -> file
	Tag    string     `json:"tag"`
	Enc    string     `json:"enc"`
	Q      int        `json:"q"`
	Qn     int        `json:"qn"`
	Mesh   *StlAMesh  `json:"mesh,omitempty"`
	Gen    []GRec     `json:"gen,omitempty"`
	Seeded *StlSeeded `json:"seeded,omitempty"`
	Cid    *int       `json:"cid,omitempty"` // the case's number in the run it was recorded in (replays keep it)
	Io     int        `json:"io"`            // reader variant (iomodes.go)
	Wio    int        `json:"wio"`           // writer variant
	Rep    int        `json:"rep"`           // > 1: every call is made this many times on the same input, the last result counts
}

// ---- projections -----------------------------------------------------------

type StlSrc struct {
	Idx []int     `json:"idx"`
	Pos [][][]int `json:"pos"` // <<lo,hi>> per scalar
	Nrm [][]int   `json:"nrm"` // exact, over Qn
}

type StlObs struct {
	Idx []int   `json:"idx"`
	Pos [][]int `json:"pos"`
	Nrm [][]int `json:"nrm"` // rounded to 1/4096
}

// nexp: the case built its corner normals as lattice vectors times 2^nexp
// (exact); they are logged in lattice units.
func stlSrc(m modeling.Mesh, enc Enc, qn int, nexp int) StlSrc {
	p := StlSrc{Idx: projIdx(m), Pos: [][][]int{}, Nrm: [][]int{}}
	if m.HasFloat3Attribute(modeling.PositionAttribute) {
		a := m.Float3Attribute(modeling.PositionAttribute)
		for i := 0; i < a.Len(); i++ {
			v := a.At(i)
			p.Pos = append(p.Pos, enc.SrcVec(v.X(), v.Y(), v.Z()))
		}
	}
	if m.HasFloat3Attribute(modeling.NormalAttribute) {
		ne := Enc{Mode: "lat", Q: qn}
		a := m.Float3Attribute(modeling.NormalAttribute)
		for i := 0; i < a.Len(); i++ {
			v := a.At(i)
			p.Nrm = append(p.Nrm, ne.ObsVec(math.Ldexp(v.X(), -nexp), math.Ldexp(v.Y(), -nexp), math.Ldexp(v.Z(), -nexp)))
		}
	}
	return p
}

func stlObs(m modeling.Mesh, enc Enc) StlObs {
	p := StlObs{Idx: projIdx(m), Pos: [][]int{}, Nrm: [][]int{}}
	if capRecs < noCap/4 && len(p.Idx) > 3*capRecs {
		p.Idx = p.Idx[:3*capRecs]
		capHit = true
	}
	lim := func(n int) int {
		if capRecs < noCap/4 && n > 3*capRecs {
			return 3 * capRecs
		}
		return n
	}
	if m.HasFloat3Attribute(modeling.PositionAttribute) {
		a := m.Float3Attribute(modeling.PositionAttribute)
		for i := 0; i < lim(a.Len()); i++ {
			v := a.At(i)
			p.Pos = append(p.Pos, enc.ObsVec(v.X(), v.Y(), v.Z()))
		}
	}
	if m.HasFloat3Attribute(modeling.NormalAttribute) {
		a := m.Float3Attribute(modeling.NormalAttribute)
		for i := 0; i < lim(a.Len()); i++ {
			v := a.At(i)
			p.Nrm = append(p.Nrm, []int{scaleNormal(v.X()), scaleNormal(v.Y()), scaleNormal(v.Z())})
		}
	}
	return p
}

// ---- building inputs ---------------------------------------------------------

func stlBuildLattice(a StlAMesh, q, qn int) modeling.Mesh {
	m := modeling.NewTriangleMesh(append([]int{}, a.Idx...))
	if len(a.Pos) > 0 {
		pos := make([]vector3.Float64, len(a.Pos))
		for i, v := range a.Pos {
			pos[i] = vector3.New(float64(v[0])/float64(q), float64(v[1])/float64(q), float64(v[2])/float64(q))
		}
		m = m.SetFloat3Attribute(modeling.PositionAttribute, pos)
	}
	if len(a.Nrm) > 0 {
		n := make([]vector3.Float64, len(a.Nrm))
		for i, v := range a.Nrm {
			n[i] = vector3.New(float64(v[0])/float64(qn), float64(v[1])/float64(qn), float64(v[2])/float64(qn))
		}
		m = m.SetFloat3Attribute(modeling.NormalAttribute, n)
	}
	return m
}

// stlBuildSeeded: arbitrary finite float64 positions, random (welded) index
// pattern, corner normals on the 1/qn lattice with positive z (their sum
// never vanishes, so the normalised mean is defined), scaled by 2^NExp.
func stlBuildSeeded(s StlSeeded, qn int) modeling.Mesh {
	r := rand.New(rand.NewSource(s.Seed))
	nt := s.NTris
	nv := 3 * nt
	if nt > 0 && r.Intn(2) == 0 {
		nv = 3 + r.Intn(2*nt+1)
	}
	if s.NVerts > 0 {
		nv = s.NVerts
	}
	idx := make([]int, 3*nt)
	for k := range idx {
		if nv > 0 {
			idx[k] = r.Intn(nv)
		}
	}
	if (r.Intn(3) == 0 && s.NVerts == 0) || s.NVerts < 0 { // unwelded identity
		nv = 3 * nt
		for k := range idx {
			idx[k] = k
		}
	}
	m := modeling.NewTriangleMesh(idx)
	pos := make([]vector3.Float64, nv)
	real := func() float64 {
		if s.Edge > 0 && r.Intn(3) == 0 {
			return edgeReal(r, s.Edge > 1)
		}
		return randomReal(r)
	}
	for k := range pos {
		pos[k] = vector3.New(real(), real(), real())
	}
	m = m.SetFloat3Attribute(modeling.PositionAttribute, pos)
	withN := r.Intn(3) > 0
	if s.Nrm != 0 {
		withN = s.Nrm == 1
	}
	if withN {
		sc := math.Ldexp(1/float64(qn), s.NExp)
		n := make([]vector3.Float64, nv)
		for k := range n {
			n[k] = vector3.New(float64(r.Intn(17)-8)*sc, float64(r.Intn(17)-8)*sc, float64(1+r.Intn(8))*sc)
		}
		m = m.SetFloat3Attribute(modeling.NormalAttribute, n)
	}
	return m
}

var unitDirs = [][]int{{60, 0, 0}, {0, -60, 0}, {0, 0, 60}, {36, 48, 0}, {0, 36, -48}, {-48, 0, 36}, {20, 40, 40}, {-40, 20, -40},
	{120, 0, 0}, {12, 12, 12}}

// stlSeededRecs: random float32 positions; normals all zero or all non-zero
// (geometry of random floats cannot be evaluated by the specification).
func stlSeededRecs(s StlSeeded) ([]GRec, []FRec) {
	r := rand.New(rand.NewSource(s.Seed))
	allZero := r.Intn(3) == 0
	if s.Nrm != 0 {
		allZero = s.Nrm == 2
	}
	g := []GRec{}
	f := []FRec{}
	for i := 0; i < s.NTris; i++ {
		var fr FRec
		gr := GRec{N: []int{0, 0, 0}, V: [][]int{}, A: 0}
		if !allZero {
			d := unitDirs[r.Intn(len(unitDirs))]
			gr.N = d
			fr.N = [3]float32{float32(d[0]) / 60, float32(d[1]) / 60, float32(d[2]) / 60}
		}
		for c := 0; c < 3; c++ {
			var bits []int
			for k := 0; k < 3; k++ {
				x := float32(randomReal(r))
				if s.Edge > 0 && r.Intn(3) == 0 {
					x = float32(edgeReal(r, s.Edge > 1))
				}
				fr.V[c][k] = x
				bits = append(bits, f32bits(x))
			}
			gr.V = append(gr.V, bits)
		}
		if r.Intn(20) == 0 {
			gr.A = 1 + r.Intn(65535)
			fr.A = uint16(gr.A)
		}
		g = append(g, gr)
		f = append(f, fr)
	}
	return g, f
}

// ---- trace lines ------------------------------------------------------------

type swLine struct {
	K    string `json:"k"`
	Id   int    `json:"id"`
	Lat  bool   `json:"lat"`
	Src  StlSrc `json:"src"`
	Werr string `json:"werr"`
	F    SFile  `json:"f"`
	Rerr string `json:"rerr"`
	Rd   StlObs `json:"rd"`
	Note string `json:"note"`
	Io   string `json:"io"`
}

type srLine struct {
	K    string `json:"k"`
	Id   int    `json:"id"`
	Lat  bool   `json:"lat"`
	Gen  []GRec `json:"gen"`
	F    SFile  `json:"f"`
	Rerr string `json:"rerr"`
	Rd   StlObs `json:"rd"`
	Werr string `json:"werr"`
	F2   SFile  `json:"f2"`
	Note string `json:"note"`
	Io   string `json:"io"`
}

// sbLine: the record-level API. gen -> (independent encoder) -> bytes = f ;
// stl.Read -> bin ; stl.Write(bin) -> f2. Normals are logged as float32 bit
// patterns here (recs[..].n of f, bin, f2): the records must come back exactly.
type sbLine struct {
	K    string `json:"k"`
	Id   int    `json:"id"`
	Lat  bool   `json:"lat"`
	Gen  []GRec `json:"gen"`
	F    SFile  `json:"f"`
	Rerr string `json:"rerr"`
	Bin  []SRec `json:"bin"`
	Werr string `json:"werr"`
	F2   SFile  `json:"f2"`
	Note string `json:"note"`
	Io   string `json:"io"`
}

func emptyFile() SFile { return SFile{Count: -1, Recs: []SRec{}} }
func emptyObs() StlObs { return StlObs{Idx: []int{}, Pos: [][]int{}, Nrm: [][]int{}} }

func ioName(c StlCase) string {
	return fmt.Sprintf("%s/%s/x%d", readerModeName(c.Io), writerModeName(c.Wio), c.Rep)
}

// stlReadRaw gives the bytes to stl.ReadMesh through the reader variant (RdFile:
// stl.Load of a file holding them).
func stlReadRaw(b []byte, mode int, id int) (string, string, StlObs, *modeling.Mesh) {
	var got *modeling.Mesh
	msg, detail := guard(func() error {
		return repeat(func() error {
			var err error
			if mode == RdFile {
				d, derr := caseDir("stl", id)
				if derr != nil {
					infra(derr)
				}
				fp := filepath.Join(d, "in.stl")
				if werr := os.WriteFile(fp, b, 0o644); werr != nil {
					infra(werr)
				}
				got, err = stl.Load(fp)
				_ = os.Remove(fp)
			} else {
				got, err = stl.ReadMesh(wrapReader(b, mode))
			}
			if err == nil && got == nil {
				return fmt.Errorf("nil mesh without error")
			}
			return err
		})
	})
	if msg != "" {
		return msg, detail, emptyObs(), nil
	}
	return "", "", emptyObs(), got
}

// stlRead: stlReadRaw and the projection of the mesh.
func stlRead(b []byte, enc Enc, mode int, id int) (string, string, StlObs, *modeling.Mesh) {
	msg, detail, _, got := stlReadRaw(b, mode, id)
	if msg != "" {
		return msg, detail, emptyObs(), nil
	}
	rd := emptyObs()
	pmsg, pdetail := guard(func() error { rd = stlObs(*got, enc); return nil })
	if pmsg != "" {
		return "PROJECT-" + pmsg, pdetail, emptyObs(), nil
	}
	return "", "", rd, got
}

// stlWrite hands the mesh to stl.WriteMesh with the writer variant (WrFile:
// stl.Save to a file, whose bytes are then read).
func stlWrite(m modeling.Mesh, mode int, id int) (string, string, []byte) {
	var out []byte
	msg, detail := guard(func() error {
		if mode == WrFile {
			d, derr := caseDir("stl", id)
			if derr != nil {
				infra(derr)
			}
			fp := filepath.Join(d, "out.stl")
			if err := repeat(func() error { return stl.Save(fp, m) }); err != nil { // the same path again: Save replaces the file
				return err
			}
			b, rerr := os.ReadFile(fp)
			if rerr != nil {
				infra(rerr)
			}
			_ = os.Remove(fp)
			out = b
			return nil
		}
		return repeat(func() error {
			sk := newSink(mode)
			if err := stl.WriteMesh(sk.W, m); err != nil {
				return err
			}
			b, err := sk.Bytes()
			out = b
			return err
		})
	})
	return msg, detail, out
}

// szLine: sizes only, for counts too large to judge record by record.
//
//	dir "w": seeded mesh of n triangles -> stl.WriteMesh -> f (sizes of the bytes) -> stl.ReadMesh -> rdn triangles
//	dir "r": n seeded records -> (independent encoder) -> f -> stl.ReadMesh -> rdn -> stl.WriteMesh -> f2
type szLine struct {
	K    string  `json:"k"`
	Id   int     `json:"id"`
	Dir  string  `json:"dir"`
	N    int     `json:"n"`
	Werr string  `json:"werr"`
	F    SzSizes `json:"f"`
	Rerr string  `json:"rerr"`
	RdN  int     `json:"rdn"`
	F2   SzSizes `json:"f2"`
	Note string  `json:"note"`
	Io   string  `json:"io"`
}

// SzSizes: what ParseStl says about a byte string, without the records.
type SzSizes struct {
	Nbytes int `json:"nbytes"`
	Count  int `json:"count"`
	Rem    int `json:"rem"`
	Nrecs  int `json:"nrecs"`
}

func stlSizes(b []byte) SzSizes {
	z := SzSizes{Nbytes: len(b), Count: -1}
	if len(b) < 84 {
		z.Rem = len(b)
		return z
	}
	c := le32(b[80:84])
	if c > 1<<30 {
		c = 1 << 30
	}
	z.Count = int(c)
	z.Nrecs = (len(b) - 84) / 50
	z.Rem = (len(b) - 84) % 50
	return z
}

// meshTris: the number of triangles of a mesh through its public observers (-1: not a triangle list).
func meshTris(m modeling.Mesh) int {
	n := m.Indices().Len()
	if n%3 != 0 {
		return -1
	}
	return n / 3
}

func runSz(id int, c StlCase, keep string) szLine {
	ln := szLine{K: "sz", Id: id, Dir: c.Dir, F: SzSizes{Count: -1}, F2: SzSizes{Count: -1}, RdN: -1, Io: ioName(c)}
	if c.Dir == "w" {
		m := stlBuildSeeded(*c.Seeded, c.Qn)
		ln.N = meshTris(m)
		var b []byte
		ln.Werr, ln.Note, b = stlWrite(m, c.Wio, id)
		if ln.Werr != "" {
			return ln
		}
		ln.F = stlSizes(b)
		var got *modeling.Mesh
		ln.Rerr, ln.Note, _, got = stlReadRaw(b, c.Io, id)
		if ln.Rerr == "" {
			ln.RdN = meshTris(*got)
		}
		return ln
	}
	_, recs := stlSeededRecs(*c.Seeded)
	ln.N = len(recs)
	b := EncodeStl(recs, stlTitle(id))
	ln.F = stlSizes(b)
	var got *modeling.Mesh
	ln.Rerr, ln.Note, _, got = stlReadRaw(b, c.Io, id)
	if ln.Rerr != "" {
		return ln
	}
	ln.RdN = meshTris(*got)
	var b2 []byte
	ln.Werr, ln.Note, b2 = stlWrite(*got, c.Wio, id)
	if ln.Werr != "" {
		return ln
	}
	ln.F2 = stlSizes(b2)
	return ln
}

func runSw(id int, c StlCase, keep string) swLine {
	enc := Enc{Mode: c.Enc, Q: c.Q}
	var m modeling.Mesh
	nexp := 0
	if c.Seeded != nil {
		m = stlBuildSeeded(*c.Seeded, c.Qn)
		nexp = c.Seeded.NExp
	} else {
		m = stlBuildLattice(*c.Mesh, c.Q, c.Qn)
	}
	ln := swLine{K: "sw", Id: id, Lat: c.Enc == "lat", Src: stlSrc(m, enc, c.Qn, nexp), F: emptyFile(), Rd: emptyObs(), Io: ioName(c)}
	capRecs = len(ln.Src.Idx)/3 + 16
	var b []byte
	ln.Werr, ln.Note, b = stlWrite(m, c.Wio, id)
	if ln.Werr != "" {
		return ln
	}
	if keep != "" {
		_ = os.WriteFile(fmt.Sprintf("%s/case%d.stl", keep, id), b, 0o644)
	}
	ln.F = ParseStl(b, enc)
	ln.Rerr, ln.Note, ln.Rd, _ = stlRead(b, enc, c.Io, id)
	return ln
}

// stlCaseRecs: the records of an "sr" / "sb" case as real numbers.
func stlCaseRecs(c StlCase) ([]GRec, []FRec) {
	if c.Seeded != nil {
		return stlSeededRecs(*c.Seeded)
	}
	recs := []FRec{}
	for _, g := range c.Gen {
		var fr FRec
		for k := 0; k < 3; k++ {
			fr.N[k] = float32(float64(g.N[k]) / float64(c.Qn))
			for cc := 0; cc < 3; cc++ {
				fr.V[cc][k] = float32(float64(g.V[cc][k]) / float64(c.Q))
			}
		}
		fr.A = uint16(g.A)
		recs = append(recs, fr)
	}
	gen := c.Gen
	if gen == nil {
		gen = []GRec{}
	}
	return gen, recs
}

func stlTitle(id int) string {
	title := fmt.Sprintf("verif case %d", id)
	if id%3 == 0 { // a binary file whose header happens to start like an ASCII one is still binary STL
		title = "solid " + title
	}
	return title
}

func runSr(id int, c StlCase, keep string) srLine {
	enc := Enc{Mode: c.Enc, Q: c.Q}
	ln := srLine{K: "sr", Id: id, Lat: c.Enc == "lat", F: emptyFile(), Rd: emptyObs(), F2: emptyFile(), Io: ioName(c)}
	var recs []FRec
	ln.Gen, recs = stlCaseRecs(c)
	capRecs = len(recs) + 16
	b := EncodeStl(recs, stlTitle(id))
	if keep != "" {
		_ = os.WriteFile(fmt.Sprintf("%s/case%d.stl", keep, id), b, 0o644)
	}
	ln.F = ParseStl(b, enc)
	var got *modeling.Mesh
	ln.Rerr, ln.Note, ln.Rd, got = stlRead(b, enc, c.Io, id)
	if ln.Rerr != "" {
		return ln
	}
	var b2 []byte
	ln.Werr, ln.Note, b2 = stlWrite(*got, c.Wio, id)
	if ln.Werr != "" {
		return ln
	}
	if keep != "" {
		_ = os.WriteFile(fmt.Sprintf("%s/case%d.saved.stl", keep, id), b2, 0o644)
	}
	ln.F2 = ParseStl(b2, enc)
	return ln
}

// binRecs projects what stl.Read returned the way the parser projects a file.
func binRecs(bin *stl.Binary, enc Enc) []SRec {
	out := []SRec{}
	for i, t := range bin.Triangles {
		if i >= capRecs {
			capHit = true
			break
		}
		rec := SRec{N: []int{f32bits(t.Normal.X), f32bits(t.Normal.Y), f32bits(t.Normal.Z)},
			Nz: t.Normal.X == 0 && t.Normal.Y == 0 && t.Normal.Z == 0, V: [][]int{}, A: int(t.Attribute)}
		for _, v := range []stl.Vec{t.Vertex1, t.Vertex2, t.Vertex3} {
			rec.V = append(rec.V, enc.ObsVec(float64(v.X), float64(v.Y), float64(v.Z)))
		}
		out = append(out, rec)
	}
	return out
}

func runSb(id int, c StlCase, keep string) sbLine {
	enc := Enc{Mode: c.Enc, Q: c.Q}
	ln := sbLine{K: "sb", Id: id, Lat: c.Enc == "lat", F: emptyFile(), Bin: []SRec{}, F2: emptyFile(), Io: ioName(c)}
	var recs []FRec
	ln.Gen, recs = stlCaseRecs(c)
	capRecs = len(recs) + 16
	b := EncodeStl(recs, stlTitle(id))
	if keep != "" {
		_ = os.WriteFile(fmt.Sprintf("%s/case%d.stl", keep, id), b, 0o644)
	}
	ln.F = parseStl(b, enc, true)
	mode := c.Io
	if mode == RdFile { // the record level has no file API
		mode = RdChunk
	}
	var bin *stl.Binary
	ln.Rerr, ln.Note = guard(func() error {
		return repeat(func() error {
			var err error
			bin, err = stl.Read(wrapReader(b, mode))
			if err == nil && bin == nil {
				return fmt.Errorf("nil result without error")
			}
			return err
		})
	})
	if ln.Rerr != "" {
		return ln
	}
	ln.Bin = binRecs(bin, enc)
	var b2 []byte
	ln.Werr, ln.Note = guard(func() error {
		return repeat(func() error {
			sk := newSink(c.Wio)
			if err := stl.Write(sk.W, *bin); err != nil {
				return err
			}
			var err error
			b2, err = sk.Bytes()
			return err
		})
	})
	if ln.Werr != "" {
		return ln
	}
	if keep != "" {
		_ = os.WriteFile(fmt.Sprintf("%s/case%d.saved.stl", keep, id), b2, 0o644)
	}
	ln.F2 = parseStl(b2, enc, true)
	return ln
}

// RunStlCases executes cases (ndjson) on the real code and writes the trace.
func RunStlCases(in, out, keep string, budgetSeconds int) error {
	fi, err := os.Open(in)
	if err != nil {
		return err
	}
	defer fi.Close()
	fo, err := os.Create(out)
	if err != nil {
		return err
	}
	defer fo.Close()
	w := bufio.NewWriterSize(fo, 1<<20)
	defer w.Flush()
	encj := json.NewEncoder(w)
	sc := bufio.NewScanner(fi)
	sc.Buffer(make([]byte, 1<<20), 1<<28)
	id := 0
	defer removeTmp()
	stop := newStopper(budgetSeconds)
	for sc.Scan() {
		if len(sc.Bytes()) == 0 {
			continue
		}
		var c StlCase
		if err := json.Unmarshal(sc.Bytes(), &c); err != nil {
			return fmt.Errorf("case %d: %w", id, err)
		}
		setReps(c.Rep)
		resetCaps()
		cid := id
		if c.Cid != nil { // what varies with the case number (titles, material file) is the same in a replay
			cid = *c.Cid
		}
		switch c.K {
		case "sw":
			if err := encj.Encode(runSw(cid, c, keep)); err != nil {
				return err
			}
		case "sr":
			if err := encj.Encode(runSr(cid, c, keep)); err != nil {
				return err
			}
		case "sb":
			if err := encj.Encode(runSb(cid, c, keep)); err != nil {
				return err
			}
		case "sz":
			if err := encj.Encode(runSz(cid, c, keep)); err != nil {
				return err
			}
		default:
			return fmt.Errorf("case %d: unknown kind %q", id, c.K)
		}
		id++
		if why := stop.after(); why != "" {
			return encj.Encode(stopLine{K: "stop", Why: why, Done: id})
		}
	}
	return sc.Err()
}

// nexpTable: scales of the corner normals (2^e); the normalised mean does not
// depend on the scale, float64 arithmetic has room for all of them.
var nexpTable = []int{0, 0, 0, -100, 60, -60, 100, -20, 20}

func edgeFor(i int) int {
	switch i % 8 {
	case 3, 5:
		return 1
	case 7:
		return 2
	}
	return 0
}

// GenStlRandom writes seeded "sw", "sr" and "sb" cases (sizes TLC does not enumerate).
func GenStlRandom(out string, seed int64, nSw, nSr, nSb, maxTris int) error {
	fo, err := os.Create(out)
	if err != nil {
		return err
	}
	defer fo.Close()
	w := bufio.NewWriter(fo)
	defer w.Flush()
	enc := json.NewEncoder(w)
	r := rand.New(rand.NewSource(seed))
	for i := 0; i < nSw; i++ {
		c := StlCase{K: "sw", Tag: "random", Enc: "f32", Q: 1, Qn: 4,
			Seeded: &StlSeeded{Seed: seed*100003 + int64(i), NTris: r.Intn(maxTris + 1),
				NExp: nexpTable[i%len(nexpTable)], Edge: edgeFor(i)}}
		if err := enc.Encode(c); err != nil {
			return err
		}
	}
	for i := 0; i < nSr+nSb; i++ {
		k := "sr"
		if i >= nSr {
			k = "sb"
		}
		c := StlCase{K: k, Tag: "random", Enc: "f32", Q: 1, Qn: 60,
			Seeded: &StlSeeded{Seed: seed*200003 + int64(i), NTris: r.Intn(maxTris + 1), Edge: edgeFor(i)}}
		if err := enc.Encode(c); err != nil {
			return err
		}
	}
	return nil
}
