package objstl

import (
	"strconv"
	"strings"
)

// Stmt is one OBJ statement as ObjFormat.tla defines it.
type Stmt struct {
	T string  `json:"t"`
	X []int   `json:"x"`
	C [][]int `json:"c"`
	S string  `json:"s"`
}

func stmt(t string) Stmt { return Stmt{T: t, X: []int{}, C: [][]int{}, S: ""} }

// Tokenise reads OBJ text into statements. Written from the format
// description (B1 "Object Files (.obj)"): line oriented, a line whose first
// item starts with '#' is a comment, items separated by blanks/tabs, the first item is the keyword.
// It knows v, vt, vn, g, usemtl and f; every other keyword is an "x"
// statement; a line of a known keyword that cannot be read is "bad"; a text
// with more statements than the projection budget ends in a "cut" statement.
// Vertex references are v, v/vt, v//vn or v/vt/vn (absent = 0); they are NOT
// resolved or range checked here, that is the format machine's job.
func Tokenise(text []byte, enc Enc) []Stmt {
	out := []Stmt{}
	for _, raw := range strings.Split(string(text), "\n") {
		if len(out) >= capStmts { // far more statements than the case can account for (iomodes.go): stop here
			out = append(out, stmt("cut"))
			capHit = true
			break
		}
		line := strings.TrimRight(raw, "\r")
		// A comment is a line whose first item starts with '#'. Anywhere else '#' is an
		// ordinary character of an item (ObjFormat.tla, NAMES): names such as "wheel#1"
		// are written verbatim by exporters and must be read as they stand.
		if t := strings.TrimLeft(line, " \t"); strings.HasPrefix(t, "#") {
			out = append(out, stmt("x"))
			continue
		}
		items := splitBlank(line)
		if len(items) == 0 {
			continue
		}
		switch items[0] {
		case "v":
			out = append(out, numbers("v", items[1:], 3, 4, 3, enc))
		case "vn":
			out = append(out, numbers("vn", items[1:], 3, 3, 3, enc))
		case "vt":
			st := numbers("vt", items[1:], 1, 3, 2, enc)
			if st.T == "vt" && len(st.X) == 1 { // v defaults to 0
				st.X = append(st.X, enc.Obs(0))
			}
			out = append(out, st)
		case "g":
			st := stmt("g")
			st.S = strings.Join(items[1:], " ")
			out = append(out, st)
		case "usemtl":
			st := stmt("usemtl")
			st.S = strings.Join(items[1:], " ")
			out = append(out, st)
		case "f":
			out = append(out, face(items[1:]))
		default:
			out = append(out, stmt("x"))
		}
	}
	return out
}

func splitBlank(s string) []string {
	return strings.FieldsFunc(s, func(r rune) bool { return r == ' ' || r == '\t' })
}

// numbers reads between min and max reals and keeps the first `keep` of them
// (v may carry a weight w, vt a third coordinate).
func numbers(t string, items []string, min, max, keep int, enc Enc) Stmt {
	if len(items) < min || len(items) > max {
		return stmt("bad")
	}
	st := stmt(t)
	for _, it := range items {
		x, err := strconv.ParseFloat(it, 64)
		if err != nil {
			return stmt("bad")
		}
		st.X = append(st.X, enc.Obs(x))
	}
	if len(st.X) > keep {
		st.X = st.X[:keep]
	}
	return st
}

func face(items []string) Stmt {
	st := stmt("f")
	if len(items) < 3 {
		return stmt("bad")
	}
	for _, it := range items {
		parts := strings.Split(it, "/")
		if len(parts) > 3 {
			return stmt("bad")
		}
		c := []int{0, 0, 0}
		for k, p := range parts {
			if p == "" {
				if k == 0 {
					return stmt("bad")
				}
				continue
			}
			n, err := strconv.Atoi(p)
			if err != nil || n == 0 {
				return stmt("bad")
			}
			c[k] = n
		}
		st.C = append(st.C, c)
	}
	return st
}

// NameItems is the projection of a name onto the specification's domain: the
// items of the name (split at the format's blanks: space and tab).
func NameItems(name string) []string {
	it := splitBlank(name)
	if it == nil {
		it = []string{}
	}
	return it
}
