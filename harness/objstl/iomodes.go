package objstl

import (
	"bufio"
	"bytes"
	"fmt"
	"io"
	"os"
	"path/filepath"
	"sync"
	"testing/iotest"
)

// Reader / writer variants (round-2 strengthening). The code under test
// takes an io.Reader / io.Writer; every conforming implementation of those
// interfaces must give the same result. A case names the variant it is run
// with ("io" = reader, "wio" = writer), so a replay reproduces it; the
// variant is logged on the trace line for humans, the specification judges
// the outcome exactly as for the plain variant.
const (
	RdPlain   = iota // *bytes.Reader: every Read fills the buffer
	RdOneByte        // iotest.OneByteReader: one byte per Read
	RdHalf           // iotest.HalfReader: half of what was asked for
	RdDataErr        // iotest.DataErrReader: the last bytes arrive together with io.EOF
	RdRagged         // 1..17 bytes per Read, varying
	RdChunk          // at most 1000 bytes per Read (records / lines straddle the cuts)
	RdFile           // the package's own Load(path): bufio over an *os.File
	RdChunk50        // at most 50 / 84 / 512 / 4096 / 65536 bytes per Read: cuts at the sizes of an STL
	RdChunk84        // record, of the STL prefix, and at the usual buffer sizes
	RdChunk512
	RdChunk4096
	RdChunk65536
	NumReaderModes
)

var chunkSizes = map[int]int{RdChunk: 1000, RdChunk50: 50, RdChunk84: 84, RdChunk512: 512, RdChunk4096: 4096, RdChunk65536: 65536}

const (
	WrBuffer = iota // *bytes.Buffer (implements many optional interfaces)
	WrPlain         // a type with nothing but Write
	WrTiny          // bufio.Writer with a 16 byte buffer over WrPlain, flushed at the end
	WrFile          // the package's own Save(path) where it applies, else WrTiny
	NumWriterModes
)

var readerModeNames = []string{"plain", "onebyte", "half", "dataerr", "ragged", "chunk1000", "file",
	"chunk50", "chunk84", "chunk512", "chunk4096", "chunk65536"}
var writerModeNames = []string{"buffer", "plain", "bufio16", "file"}

func readerModeName(m int) string {
	if m >= 0 && m < len(readerModeNames) {
		return readerModeNames[m]
	}
	return fmt.Sprint(m)
}

func writerModeName(m int) string {
	if m >= 0 && m < len(writerModeNames) {
		return writerModeNames[m]
	}
	return fmt.Sprint(m)
}

// raggedReader returns between 1 and 17 bytes per call, never more than asked.
type raggedReader struct {
	b []byte
	k uint32
}

func (r *raggedReader) Read(p []byte) (int, error) {
	if len(p) == 0 {
		return 0, nil
	}
	if len(r.b) == 0 {
		return 0, io.EOF
	}
	r.k = r.k*1664525 + 1013904223
	n := 1 + int(r.k>>16)%17
	if n > len(p) {
		n = len(p)
	}
	if n > len(r.b) {
		n = len(r.b)
	}
	copy(p, r.b[:n])
	r.b = r.b[n:]
	return n, nil
}

type chunkReader struct {
	b   []byte
	max int
}

func (r *chunkReader) Read(p []byte) (int, error) {
	if len(p) == 0 {
		return 0, nil
	}
	if len(r.b) == 0 {
		return 0, io.EOF
	}
	n := r.max
	if n > len(p) {
		n = len(p)
	}
	if n > len(r.b) {
		n = len(r.b)
	}
	copy(p, r.b[:n])
	r.b = r.b[n:]
	return n, nil
}

// wrapReader gives the byte string as a reader of the variant (RdFile is
// handled by the callers: it goes through the package's Load).
func wrapReader(b []byte, mode int) io.Reader {
	switch mode {
	case RdOneByte:
		return iotest.OneByteReader(bytes.NewReader(b))
	case RdHalf:
		return iotest.HalfReader(bytes.NewReader(b))
	case RdDataErr:
		return iotest.DataErrReader(bytes.NewReader(b))
	case RdRagged:
		return &raggedReader{b: b, k: uint32(len(b))}
	}
	if n, ok := chunkSizes[mode]; ok {
		return &chunkReader{b: b, max: n}
	}
	return bytes.NewReader(b)
}

// plainWriter has no method but Write; it copies what it is given (the
// caller may reuse its buffer) and counts the calls.
type plainWriter struct {
	b     []byte
	calls int
}

func (w *plainWriter) Write(p []byte) (int, error) {
	w.calls++
	w.b = append(w.b, p...)
	return len(p), nil
}

// sink is a writer variant plus the way to get the bytes it received.
type sink struct {
	W     io.Writer
	bytes func() ([]byte, error)
}

func (s sink) Bytes() ([]byte, error) { return s.bytes() }

func newSink(mode int) sink {
	switch mode {
	case WrPlain:
		p := &plainWriter{}
		return sink{W: p, bytes: func() ([]byte, error) { return p.b, nil }}
	case WrTiny, WrFile:
		p := &plainWriter{}
		bw := bufio.NewWriterSize(p, 16)
		return sink{W: bw, bytes: func() ([]byte, error) {
			if err := bw.Flush(); err != nil {
				return nil, err
			}
			return p.b, nil
		}}
	}
	var buf bytes.Buffer
	return sink{W: &buf, bytes: func() ([]byte, error) { return buf.Bytes(), nil }}
}

// scratch directory of the run (file variants)
var (
	tmpOnce sync.Once
	tmpRoot string
	tmpErr  error
)

func caseDir(kind string, id int) (string, error) {
	tmpOnce.Do(func() { tmpRoot, tmpErr = os.MkdirTemp("", "vh-objstl-") })
	if tmpErr != nil {
		return "", tmpErr
	}
	d := filepath.Join(tmpRoot, fmt.Sprintf("%s%d", kind, id))
	if err := os.MkdirAll(d, 0o755); err != nil {
		return "", err
	}
	return d, nil
}

func removeTmp() {
	if tmpRoot != "" {
		_ = os.RemoveAll(tmpRoot)
	}
}

// infra stops the harness: a failure of its own scratch files is not an
// observation of the code under test.
func infra(err error) {
	fmt.Fprintln(os.Stderr, "harness infrastructure failure:", err)
	os.Exit(3)
}
