package objstl

import (
	"bufio"
	"bytes"
	"fmt"
	"io"
	"os"
	"path/filepath"
	"sync"
	"testing/iotest"
	"time"
)

// Reader / writer variants (round-2 strengthening). The code under test
// takes an io.Reader / io.Writer; every conforming implementation of those
// interfaces must give the same result. A case names the variant it is run
// with ("io" = reader, "wio" = writer), so a replay reproduces it; the
// variant is logged on the trace line for humans, the specification judges
// the outcome exactly as for the plain variant.
const (
	RdPlain   = iota // *bytes.Reader: every Read fills the buffer
	RdOneByte        // iotest.OneByteReader: one byte per Read
	RdHalf           // iotest.HalfReader: half of what was asked for
	RdDataErr        // iotest.DataErrReader: the last bytes arrive together with io.EOF
	RdRagged         // 1..17 bytes per Read, varying
	RdChunk          // at most 1000 bytes per Read (records / lines straddle the cuts)
	RdFile           // the package's own Load(path): bufio over an *os.File
	RdChunk50        // at most 50 / 84 / 512 / 4096 / 65536 bytes per Read: cuts at the sizes of an STL
	RdChunk84        // record, of the STL prefix, and at the usual buffer sizes
	RdChunk512
	RdChunk4096
	RdChunk65536
	NumReaderModes
)

var chunkSizes = map[int]int{RdChunk: 1000, RdChunk50: 50, RdChunk84: 84, RdChunk512: 512, RdChunk4096: 4096, RdChunk65536: 65536}

const (
	WrBuffer = iota // *bytes.Buffer (implements many optional interfaces)
	WrPlain         // a type with nothing but Write
	WrTiny          // bufio.Writer with a 16 byte buffer over WrPlain, flushed at the end
	WrFile          // the package's own Save(path) where it applies, else WrTiny
	NumWriterModes
)

var readerModeNames = []string{"plain", "onebyte", "half", "dataerr", "ragged", "chunk1000", "file",
	"chunk50", "chunk84", "chunk512", "chunk4096", "chunk65536"}
var writerModeNames = []string{"buffer", "plain", "bufio16", "file"}

func readerModeName(m int) string {
	if m >= 0 && m < len(readerModeNames) {
		return readerModeNames[m]
	}
	return fmt.Sprint(m)
}

func writerModeName(m int) string {
	if m >= 0 && m < len(writerModeNames) {
		return writerModeNames[m]
	}
	return fmt.Sprint(m)
}

// raggedReader returns between 1 and 17 bytes per call, never more than asked.
type raggedReader struct {
	b []byte
	k uint32
}

func (r *raggedReader) Read(p []byte) (int, error) {
	if len(p) == 0 {
		return 0, nil
	}
	if len(r.b) == 0 {
		return 0, io.EOF
	}
	r.k = r.k*1664525 + 1013904223
	n := 1 + int(r.k>>16)%17
	if n > len(p) {
		n = len(p)
	}
	if n > len(r.b) {
		n = len(r.b)
	}
	copy(p, r.b[:n])
	r.b = r.b[n:]
	return n, nil
}

type chunkReader struct {
	b   []byte
	max int
}

func (r *chunkReader) Read(p []byte) (int, error) {
	if len(p) == 0 {
		return 0, nil
	}
	if len(r.b) == 0 {
		return 0, io.EOF
	}
	n := r.max
	if n > len(p) {
		n = len(p)
	}
	if n > len(r.b) {
		n = len(r.b)
	}
	copy(p, r.b[:n])
	r.b = r.b[n:]
	return n, nil
}

// wrapReader gives the byte string as a reader of the variant (RdFile is
// handled by the callers: it goes through the package's Load).
func wrapReader(b []byte, mode int) io.Reader {
	switch mode {
	case RdOneByte:
		return iotest.OneByteReader(bytes.NewReader(b))
	case RdHalf:
		return iotest.HalfReader(bytes.NewReader(b))
	case RdDataErr:
		return iotest.DataErrReader(bytes.NewReader(b))
	case RdRagged:
		return &raggedReader{b: b, k: uint32(len(b))}
	}
	if n, ok := chunkSizes[mode]; ok {
		return &chunkReader{b: b, max: n}
	}
	return bytes.NewReader(b)
}

// plainWriter has no method but Write; it copies what it is given (the
// caller may reuse its buffer) and counts the calls.
type plainWriter struct {
	b     []byte
	calls int
}

func (w *plainWriter) Write(p []byte) (int, error) {
	w.calls++
	w.b = append(w.b, p...)
	return len(p), nil
}

// sink is a writer variant plus the way to get the bytes it received.
type sink struct {
	W     io.Writer
	bytes func() ([]byte, error)
}

func (s sink) Bytes() ([]byte, error) { return s.bytes() }

func newSink(mode int) sink {
	switch mode {
	case WrPlain:
		p := &plainWriter{}
		return sink{W: p, bytes: func() ([]byte, error) { return p.b, nil }}
	case WrTiny, WrFile:
		p := &plainWriter{}
		bw := bufio.NewWriterSize(p, 16)
		return sink{W: bw, bytes: func() ([]byte, error) {
			if err := bw.Flush(); err != nil {
				return nil, err
			}
			return p.b, nil
		}}
	}
	var buf bytes.Buffer
	return sink{W: &buf, bytes: func() ([]byte, error) { return buf.Bytes(), nil }}
}

// scratch directory of the run (file variants)
var (
	tmpOnce sync.Once
	tmpRoot string
	tmpErr  error
)

func caseDir(kind string, id int) (string, error) {
	tmpOnce.Do(func() { tmpRoot, tmpErr = os.MkdirTemp("", "vh-objstl-") })
	if tmpErr != nil {
		return "", tmpErr
	}
	d := filepath.Join(tmpRoot, fmt.Sprintf("%s%d", kind, id))
	if err := os.MkdirAll(d, 0o755); err != nil {
		return "", err
	}
	return d, nil
}

func removeTmp() {
	if tmpRoot != "" {
		_ = os.RemoveAll(tmpRoot)
	}
}

// infra stops the harness: a failure of its own scratch files is not an
// observation of the code under test.
func infra(err error) {
	fmt.Fprintln(os.Stderr, "harness infrastructure failure:", err)
	os.Exit(3)
}

// callReps: how many times the current case calls each function under test
// on the same input (the LAST result is the one that is looked at). State a
// call leaves behind - in its argument, in the package - then shows in the
// result of the next. Set per case by the Run*Cases loops ("rep" of the case).
var callReps = 1

func setReps(rep int) {
	callReps = 1
	if rep > 1 {
		callReps = rep
	}
}

// repeat runs f callReps times and stops at the first error.
func repeat(f func() error) error {
	for r := 0; r < callReps; r++ {
		if err := f(); err != nil {
			return err
		}
	}
	return nil
}

// Projection budget. A defect can make the code under test produce far more
// than its input accounts for (a stale buffer of an earlier, larger case);
// logging all of it would turn a verdict into a timeout. The run functions
// set, per case, how much the projections log at most: always MORE than a
// correct result can have, so a result that reaches the cap is wrong in a way
// the specification sees (count / size law / the "cut" statement).
const noCap = int(^uint(0) >> 1)

var (
	capRecs  = noCap // STL records logged per file, triangles per read-back mesh
	capStmts = noCap // OBJ statements logged per text; then one "cut" statement
	capIdx   = noCap // OBJ indices / vertices logged per read-back mesh
)

// capHit: a projection of the current case reached its cap.
var capHit bool

func resetCaps() { capRecs, capStmts, capIdx, capHit = noCap, noCap, noCap, false }

// stopper ends a run early when going on cannot add anything but time: many
// cases whose results burst the projection budget, or the time budget of the
// run used up (the code under test has become slow by orders of magnitude).
// The trace then ends with {"k":"stop","why":..,"done":n}; the check judges
// the n lines before it, and treats a stop without any rejected line as an
// infrastructure failure, never as a pass.
type stopper struct {
	start  time.Time
	budget time.Duration
	over   int
}

const maxOversize = 25

func newStopper(budgetSeconds int) *stopper {
	return &stopper{start: time.Now(), budget: time.Duration(budgetSeconds) * time.Second}
}

// after is called after every case; it returns "" or why the run stops.
func (s *stopper) after() string {
	if capHit {
		s.over++
	}
	if s.over >= maxOversize {
		return "oversize"
	}
	if s.budget > 0 && time.Since(s.start) > s.budget {
		return "slow"
	}
	return ""
}

type stopLine struct {
	K    string `json:"k"`
	Why  string `json:"why"`
	Done int    `json:"done"`
}
