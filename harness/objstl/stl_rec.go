package objstl

import (
	"math"
)

// Independent binary STL record parser and encoder, written from the format
// description (80-byte header, uint32 little-endian triangle count, then per
// triangle 12 little-endian float32 - normal, vertex 1..3 - and a uint16
// attribute word). Shares no code with formats/stl.

const stlNormalScale = 4096 // S of StlFormat.tla

type SRec struct {
	N  []int   `json:"n"`  // normal, each component rounded to 1/4096 ("sb" lines: float32 bit patterns)
	Nz bool    `json:"nz"` // normal is exactly zero
	V  [][]int `json:"v"`  // three corners (Enc.Obs)
	A  int     `json:"a"`
}

type SFile struct {
	Nbytes int    `json:"nbytes"`
	Count  int    `json:"count"`
	Rem    int    `json:"rem"`
	Recs   []SRec `json:"recs"`
}

func le32(b []byte) uint32 {
	return uint32(b[0]) | uint32(b[1])<<8 | uint32(b[2])<<16 | uint32(b[3])<<24
}

func put32(b []byte, u uint32) {
	b[0], b[1], b[2], b[3] = byte(u), byte(u>>8), byte(u>>16), byte(u>>24)
}

func scaleNormal(x float64) int {
	if math.IsNaN(x) || math.IsInf(x, 0) || math.Abs(x) > 1e5 {
		return OffLattice
	}
	return int(math.Round(x * stlNormalScale))
}

// ParseStl reads what is there: the count field as stored and as many whole
// records as the byte string holds after the 84-byte prefix.
func ParseStl(b []byte, enc Enc) SFile { return parseStl(b, enc, false) }

// parseStl with normalBits logs the normals as float32 bit patterns instead
// of rounded to 1/4096 (record-level cases: exact reproduction).
func parseStl(b []byte, enc Enc, normalBits bool) SFile {
	f := SFile{Nbytes: len(b), Count: -1, Recs: []SRec{}}
	if len(b) < 84 {
		f.Rem = len(b)
		return f
	}
	c := le32(b[80:84])
	if c > 1<<30 {
		c = 1 << 30
	}
	f.Count = int(c)
	body := b[84:]
	n := len(body) / 50
	f.Rem = len(body) - 50*n
	if n > capRecs { // more records than the case can account for: log the first capRecs (> expected) of them
		n = capRecs
		capHit = true
	}
	for i := 0; i < n; i++ {
		r := body[50*i : 50*i+50]
		fl := make([]float32, 12)
		for k := range fl {
			fl[k] = math.Float32frombits(le32(r[4*k : 4*k+4]))
		}
		rec := SRec{N: []int{scaleNormal(float64(fl[0])), scaleNormal(float64(fl[1])), scaleNormal(float64(fl[2]))},
			Nz: fl[0] == 0 && fl[1] == 0 && fl[2] == 0, V: [][]int{}, A: int(r[48]) | int(r[49])<<8}
		if normalBits {
			rec.N = []int{f32bits(fl[0]), f32bits(fl[1]), f32bits(fl[2])}
		}
		for c := 0; c < 3; c++ {
			rec.V = append(rec.V, enc.ObsVec(float64(fl[3+3*c]), float64(fl[4+3*c]), float64(fl[5+3*c])))
		}
		f.Recs = append(f.Recs, rec)
	}
	return f
}

// FRec is a record to encode, as real numbers.
type FRec struct {
	N [3]float32
	V [3][3]float32
	A uint16
}

func EncodeStl(recs []FRec, title string) []byte {
	b := make([]byte, 84+50*len(recs))
	copy(b[:80], title)
	put32(b[80:84], uint32(len(recs)))
	for i, r := range recs {
		o := 84 + 50*i
		fl := []float32{r.N[0], r.N[1], r.N[2]}
		for c := 0; c < 3; c++ {
			fl = append(fl, r.V[c][0], r.V[c][1], r.V[c][2])
		}
		for k, x := range fl {
			put32(b[o+4*k:o+4*k+4], math.Float32bits(x))
		}
		b[o+48], b[o+49] = byte(r.A), byte(r.A>>8)
	}
	return b
}
