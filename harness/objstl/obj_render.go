package objstl

import (
	"bytes"
	"fmt"
	"strconv"
)

// Render turns abstract statements (lattice scalars) into OBJ text. `style`
// varies what a valid text is free to vary: number formatting, blanks, line
// ends, comments and blank lines. The rendered text is tokenised again by
// the caller and that is what the specification judges, so Render is not
// part of the trusted base beyond "it produces some valid text".
func Render(stmts []Stmt, enc Enc, style int) []byte {
	var b bytes.Buffer
	eol := "\n"
	if style%5 == 3 {
		eol = "\r\n"
	}
	sep := " "
	if style%4 == 2 {
		sep = "  "
	} else if style%4 == 3 {
		sep = "\t"
	}
	num := func(k int) string {
		x := enc.Val(k)
		switch style % 3 {
		case 1: // fixed notation with trailing zeros (1/1024 needs 10 decimals)
			return strconv.FormatFloat(x, 'f', 10+style%4, 64)
		case 2: // exponent notation
			return strconv.FormatFloat(x, 'e', -1, 64)
		}
		return strconv.FormatFloat(x, 'f', -1, 64)
	}
	for i, st := range stmts {
		if style%7 == 4 && i%3 == 1 {
			b.WriteString(eol) // blank line
		}
		lead := ""
		if style%6 == 5 && i%2 == 0 {
			lead = " "
		}
		switch st.T {
		case "x":
			if st.S != "" { // the specification chose the line (specs/ObjNames.tla SkipLines)
				b.WriteString(st.S + eol)
			} else {
				fmt.Fprintf(&b, "# comment %d%s", i, eol)
			}
		case "v", "vt", "vn":
			b.WriteString(lead + st.T)
			xs := st.X
			if st.T == "vt" && style%11 == 9 && len(xs) == 2 && enc.Val(xs[1]) == 0 {
				xs = xs[:1] // "vt u": the second texture coordinate is optional and defaults to 0
			}
			for _, k := range xs {
				b.WriteString(sep + num(k))
			}
			// optional trailing numbers the format allows: a weight behind v (x y z w), a third
			// texture coordinate behind vt (u v w); they do not change what the text denotes
			if style%11 == 7 && st.T == "v" {
				b.WriteString(sep + "1")
			}
			if style%11 >= 7 && style%11 <= 8 && st.T == "vt" {
				b.WriteString(sep + "0")
			}
			if style%8 == 6 {
				b.WriteString(" ")
			}
			b.WriteString(eol)
		case "g", "usemtl":
			b.WriteString(lead + st.T + sep + st.S + eol)
		case "f":
			b.WriteString(lead + "f")
			for _, c := range st.C {
				b.WriteString(sep + strconv.Itoa(c[0]))
				switch {
				case c[1] != 0 && c[2] != 0:
					b.WriteString("/" + strconv.Itoa(c[1]) + "/" + strconv.Itoa(c[2]))
				case c[1] != 0:
					b.WriteString("/" + strconv.Itoa(c[1]))
				case c[2] != 0:
					b.WriteString("//" + strconv.Itoa(c[2]))
				}
			}
			b.WriteString(eol)
		}
	}
	if style%9 == 8 { // no newline at end of file
		bs := b.Bytes()
		for len(bs) > 0 && (bs[len(bs)-1] == '\n' || bs[len(bs)-1] == '\r') {
			bs = bs[:len(bs)-1]
		}
		return bs
	}
	return b.Bytes()
}
