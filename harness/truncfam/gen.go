package truncfam

import (
	"bufio"
	"encoding/json"
	"fmt"
	"math/rand"
	"os"
	"path/filepath"

	"github.com/EliCDavis/polyform/formats/ply"
	"github.com/EliCDavis/polyform/formats/splat"
	"github.com/EliCDavis/polyform/formats/stl"
	"github.com/EliCDavis/polyform/modeling"
	"github.com/EliCDavis/vector/vector2"
	"github.com/EliCDavis/vector/vector3"
	"github.com/EliCDavis/vector/vector4"

	"verifharness/refenc"
)

var propSets = [][]refenc.Col{
	{{N: "x", T: "float"}, {N: "y", T: "float"}, {N: "z", T: "float"}},
	{{N: "x", T: "float"}, {N: "y", T: "float"}, {N: "z", T: "float"},
		{N: "nx", T: "float"}, {N: "ny", T: "float"}, {N: "nz", T: "float"},
		{N: "red", T: "uchar"}, {N: "green", T: "uchar"}, {N: "blue", T: "uchar"}},
	{{N: "x", T: "double"}, {N: "y", T: "double"}, {N: "z", T: "double"},
		{N: "s", T: "float"}, {N: "t", T: "float"}, {N: "opacity", T: "float"}},
	{{N: "quality", T: "double"}, {N: "x", T: "float"}, {N: "y", T: "float"}, {N: "z", T: "float"}, {N: "cls", T: "int"}},
}

// GenRandom writes n seeded abstract files at sizes the TLC generator does
// not enumerate (same abstract form, values are non-zero small integers).
func GenRandom(out string, seed int64, n, maxv int) error {
	rng := rand.New(rand.NewSource(seed))
	fo, err := os.Create(out)
	if err != nil {
		return err
	}
	defer fo.Close()
	w := bufio.NewWriter(fo)
	defer w.Flush()
	enc := json.NewEncoder(w)
	nz := func(lim int) int { return 1 + rng.Intn(lim) }
	for i := 0; i < n; i++ {
		f := refenc.File{Id: 50000 + i, Enc: "bin", Frame: "none", Ct: "uchar", It: "int"}
		switch i % 7 {
		case 0, 1, 2:
			f.Fmt = "ply"
			f.Enc = []string{"ascii", "le", "be"}[i%3]
			f.Cols = propSets[rng.Intn(len(propSets))]
			nv := 1 + rng.Intn(maxv)
			for v := 0; v < nv; v++ {
				row := []int{}
				for range f.Cols {
					row = append(row, nz(250))
				}
				f.Rows = append(f.Rows, row)
			}
			if rng.Intn(3) > 0 {
				f.HF = true
				f.Tex = rng.Intn(2) == 0
				if rng.Intn(3) == 0 {
					f.Ct, f.It = "int", "uint"
				}
				nf := 1 + rng.Intn(maxv)
				for k := 0; k < nf; k++ {
					sz := 3
					if rng.Intn(4) == 0 {
						sz = 4
					}
					fc := refenc.Face{Idx: []int{}, UV: []int{}}
					for c := 0; c < sz; c++ {
						fc.Idx = append(fc.Idx, rng.Intn(nv))
						if f.Tex {
							fc.UV = append(fc.UV, nz(99), nz(99))
						}
					}
					f.Faces = append(f.Faces, fc)
				}
			}
		case 3:
			f.Fmt = "stl"
			nt := rng.Intn(maxv + 1)
			for t := 0; t < nt; t++ {
				row := []int{}
				for c := 0; c < 12; c++ {
					row = append(row, nz(200)-100)
				}
				for c := 0; c < 12; c++ {
					if row[c] == 0 {
						row[c] = 7
					}
				}
				row = append(row, rng.Intn(3))
				f.Rows = append(f.Rows, row)
			}
		case 4:
			f.Fmt = "pts"
			f.Enc = "ascii"
			cols := []int{3, 4, 7}[rng.Intn(3)]
			np := rng.Intn(maxv + 1)
			for p := 0; p < np; p++ {
				row := []int{}
				for c := 0; c < cols; c++ {
					row = append(row, nz(250))
				}
				f.Rows = append(f.Rows, row)
			}
		case 5:
			f.Fmt = "splat"
			ns := 1 + rng.Intn(maxv)
			for s := 0; s < ns; s++ {
				row := []int{nz(99), nz(99), nz(99), nz(20), nz(20), nz(20), rng.Intn(256), rng.Intn(256), rng.Intn(256), 1 + rng.Intn(254),
					rng.Intn(256), rng.Intn(256), rng.Intn(256), rng.Intn(256)}
				f.Rows = append(f.Rows, row)
			}
		case 6:
			f.Fmt = "spz"
			version := 1 + rng.Intn(2)
			np := rng.Intn(maxv + 1)
			deg := rng.Intn(4)
			f.Hdr = []int{version, np, deg, rng.Intn(24)}
			psz := 3
			if version == 1 {
				psz = 2
			}
			total := np*3*psz + np*10 + np*refenc.SpzShDim(deg)*3
			pay := make([]int, total)
			for b := range pay {
				pay[b] = rng.Intn(256)
			}
			if version == 1 { // finite half floats only (exponent field < 31)
				for b := 1; b < np*6; b += 2 {
					pay[b] &^= 0x40
				}
			}
			f.Rows = [][]int{pay}
			f.Frame = []string{"stored", "deflate"}[rng.Intn(2)]
			f.Blk = []int{0, 5, 64}[rng.Intn(3)]
		}
		normalise(&f)
		if err := enc.Encode(f); err != nil {
			return err
		}
	}
	return nil
}

// WriteReal produces files with polyform's own writers (PLY three encodings
// with and without faces / texture coordinates, binary STL, .splat) into dir
// and returns their paths.
func WriteReal(dir string, seed int64, nv int) ([]string, error) {
	rng := rand.New(rand.NewSource(seed))
	v3 := func() vector3.Float64 {
		return vector3.New(float64(1+rng.Intn(90)), float64(1+rng.Intn(90)), float64(1+rng.Intn(90)))
	}
	pos := make([]vector3.Float64, nv)
	nrm := make([]vector3.Float64, nv)
	col := make([]vector3.Float64, nv)
	uv := make([]vector2.Float64, nv)
	for i := range pos {
		pos[i], nrm[i] = v3(), v3()
		col[i] = vector3.New(float64(1+rng.Intn(254))/255, float64(1+rng.Intn(254))/255, float64(1+rng.Intn(254))/255)
		uv[i] = vector2.New(float64(1+rng.Intn(15))/16, float64(1+rng.Intn(15))/16)
	}
	ntri := nv / 3
	idx := make([]int, ntri*3)
	for i := range idx {
		idx[i] = i
	}
	tri := modeling.NewTriangleMesh(idx).
		SetFloat3Attribute(modeling.PositionAttribute, pos[:ntri*3]).
		SetFloat3Attribute(modeling.NormalAttribute, nrm[:ntri*3])
	triUV := tri.SetFloat2Attribute(modeling.TexCoordAttribute, uv[:ntri*3])
	cloud := modeling.NewPointCloud(nil, map[string][]vector3.Float64{
		modeling.PositionAttribute: pos, modeling.ColorAttribute: col}, nil, nil, nil)
	sp, sc, fd := make([]vector3.Float64, nv), make([]vector3.Float64, nv), make([]vector3.Float64, nv)
	op := make([]float64, nv)
	rot := make([]vector4.Float64, nv)
	for i := range sp {
		sp[i] = v3()
		sc[i] = vector3.New(rng.Float64()*4-3, rng.Float64()*4-3, rng.Float64()*4-3)
		fd[i] = vector3.New(rng.Float64()*2-1, rng.Float64()*2-1, rng.Float64()*2-1)
		op[i] = rng.Float64()*6 - 3
		rot[i] = vector4.New(rng.Float64()-0.5, rng.Float64()-0.5, rng.Float64()-0.5, rng.Float64()-0.5)
	}
	splats := modeling.NewPointCloud(
		map[string][]vector4.Float64{modeling.RotationAttribute: rot},
		map[string][]vector3.Float64{modeling.PositionAttribute: sp, modeling.ScaleAttribute: sc, modeling.FDCAttribute: fd},
		nil, map[string][]float64{modeling.OpacityAttribute: op}, nil)
	paths := []string{}
	save := func(name string, write func(f *os.File) error) error {
		p := filepath.Join(dir, name)
		f, err := os.Create(p)
		if err != nil {
			return err
		}
		defer f.Close()
		if err := write(f); err != nil {
			return fmt.Errorf("%s: %w", name, err)
		}
		paths = append(paths, p)
		return nil
	}
	type pm struct {
		name string
		m    modeling.Mesh
	}
	for _, fm := range []struct {
		tag string
		f   ply.Format
	}{{"ascii", ply.ASCII}, {"le", ply.BinaryLittleEndian}, {"be", ply.BinaryBigEndian}} {
		for _, m := range []pm{{"tri", tri}, {"triuv", triUV}, {"cloud", cloud}, {"splats", splats}} {
			fm, m := fm, m
			if err := save(fmt.Sprintf("w%d-%s-%s.ply", nv, m.name, fm.tag), func(f *os.File) error { return ply.Write(f, m.m, fm.f) }); err != nil {
				return nil, err
			}
		}
	}
	if err := save(fmt.Sprintf("w%d-tri.stl", nv), func(f *os.File) error { return stl.WriteMesh(f, tri) }); err != nil {
		return nil, err
	}
	if err := save(fmt.Sprintf("w%d-splats.splat", nv), func(f *os.File) error { return splat.Write(f, splats) }); err != nil {
		return nil, err
	}
	return paths, nil
}
