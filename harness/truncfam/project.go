// Package truncfam executes prefixes of model files on the real polyform
// readers (C14). It only executes and projects: every decode runs in a worker
// child process under a deadline, the observed outcome
// (mesh | error | panic | timeout | crash) and the projection of a returned
// mesh are written to the trace; TraceTrunc.tla judges.
package truncfam

import (
	"fmt"
	"hash/fnv"
	"math"
	"sort"
	"strconv"
	"strings"

	"github.com/EliCDavis/polyform/modeling"
)

// PAttr: one attribute; Vals[i] is the hex image of the float64 bit patterns
// of vertex i's components (16 hex digits per component).
type PAttr struct {
	Name string   `json:"name"`
	Vals []string `json:"vals"`
}

// PMesh is a lossless projection of a mesh through public observers.
type PMesh struct {
	Topo  string  `json:"topo"`
	N     int     `json:"n"`
	Prims [][]int `json:"prims"`
	Attrs []PAttr `json:"attrs"`
}

// Outcome of one decode call.
type Outcome struct {
	Kind string `json:"kind"` // mesh | error | panic | timeout | crash
	Err  bool   `json:"err"`  // an error value was returned
	Mesh PMesh  `json:"mesh"` // topo "NULL" when no mesh was returned
	Msg  string `json:"msg"`
}

func NullMesh() PMesh { return PMesh{Topo: "NULL", Prims: [][]int{}, Attrs: []PAttr{}} }

func hex64(vals ...float64) string {
	var sb strings.Builder
	for _, v := range vals {
		s := strconv.FormatUint(math.Float64bits(v), 16)
		sb.WriteString(strings.Repeat("0", 16-len(s)))
		sb.WriteString(s)
	}
	return sb.String()
}

// DigestLimit: meshes with more vertices are projected as a digest of the
// same data (lossless up to a 64 bit hash) to keep trace lines small.
const DigestLimit = 400

func Project(m modeling.Mesh, digest bool) PMesh {
	p := PMesh{Topo: m.Topology().String(), N: m.AttributeLength(), Prims: [][]int{}, Attrs: []PAttr{}}
	size := m.Topology().IndexSize()
	if size <= 0 {
		size = 1
	}
	idx := m.Indices()
	for i := 0; i < idx.Len(); i += size {
		pr := []int{}
		for j := i; j < i+size && j < idx.Len(); j++ {
			pr = append(pr, idx.At(j))
		}
		p.Prims = append(p.Prims, pr)
	}
	for _, name := range m.Float1Attributes() {
		it := m.Float1Attribute(name)
		a := PAttr{Name: name, Vals: []string{}}
		for i := 0; i < it.Len(); i++ {
			a.Vals = append(a.Vals, hex64(it.At(i)))
		}
		p.Attrs = append(p.Attrs, a)
	}
	for _, name := range m.Float2Attributes() {
		it := m.Float2Attribute(name)
		a := PAttr{Name: name, Vals: []string{}}
		for i := 0; i < it.Len(); i++ {
			v := it.At(i)
			a.Vals = append(a.Vals, hex64(v.X(), v.Y()))
		}
		p.Attrs = append(p.Attrs, a)
	}
	for _, name := range m.Float3Attributes() {
		it := m.Float3Attribute(name)
		a := PAttr{Name: name, Vals: []string{}}
		for i := 0; i < it.Len(); i++ {
			v := it.At(i)
			a.Vals = append(a.Vals, hex64(v.X(), v.Y(), v.Z()))
		}
		p.Attrs = append(p.Attrs, a)
	}
	for _, name := range m.Float4Attributes() {
		it := m.Float4Attribute(name)
		a := PAttr{Name: name, Vals: []string{}}
		for i := 0; i < it.Len(); i++ {
			v := it.At(i)
			a.Vals = append(a.Vals, hex64(v.X(), v.Y(), v.Z(), v.W()))
		}
		p.Attrs = append(p.Attrs, a)
	}
	sort.Slice(p.Attrs, func(i, j int) bool { return p.Attrs[i].Name < p.Attrs[j].Name })
	if digest && (p.N > DigestLimit || len(p.Prims) > DigestLimit) {
		h := fnv.New64a()
		for _, pr := range p.Prims {
			fmt.Fprint(h, pr)
		}
		for _, a := range p.Attrs {
			h.Write([]byte(a.Name))
			for _, v := range a.Vals {
				h.Write([]byte(v))
			}
		}
		p.Attrs = []PAttr{{Name: "#digest", Vals: []string{strconv.FormatUint(h.Sum64(), 16), strconv.Itoa(len(p.Prims))}}}
		p.Prims = [][]int{}
	}
	return p
}

// IntPositions reads the Position attribute of a projection back as integers
// (for the sanity binding of the abstract file content to what the reader
// saw); exact is false when a component is not an integer below 2^30.
func IntPositions(p PMesh) (pos [][]int, exact bool) {
	pos = [][]int{}
	exact = true
	for _, a := range p.Attrs {
		if a.Name != modeling.PositionAttribute {
			continue
		}
		for _, v := range a.Vals {
			row := []int{}
			for c := 0; c+16 <= len(v); c += 16 {
				u, err := strconv.ParseUint(v[c:c+16], 16, 64)
				if err != nil {
					exact = false
					row = append(row, 0)
					continue
				}
				x := math.Float64frombits(u)
				r := math.Round(x)
				if math.IsNaN(x) || math.Abs(x) > 1<<30 || r != x {
					exact = false
					r = 0
				}
				row = append(row, int(r))
			}
			pos = append(pos, row)
		}
	}
	return pos, exact
}
