package truncfam

import (
	"bufio"
	"bytes"
	"compress/gzip"
	"encoding/json"
	"fmt"
	"io"
	"math/rand"
	"os"
	"path/filepath"
	"sort"
	"strings"
	"sync"

	"verifharness/refenc"
)

type fileLine struct {
	K       string        `json:"k"` // "file"
	F       refenc.File   `json:"f"`
	Name    string        `json:"name"`
	Len     int           `json:"len"`  // file length in bytes
	SLen    int           `json:"slen"` // stream length (cells refer to the stream)
	Cells   []refenc.Cell `json:"cells"`
	Blocks  [][]int       `json:"blocks"`
	Ascii   bool          `json:"ascii"`
	Opaque  bool          `json:"opaque"`  // a real file without cell table
	Sampled bool          `json:"sampled"` // only a sample of the cut points was executed
	Full    Outcome       `json:"full"`    // decode of the complete file
	FullPos [][]int       `json:"fullpos"`
	PosOk   bool          `json:"posok"`
	Rk      int           `json:"rk"` // reader kind the decoders were handed (ReaderKinds)
}

type cutLine struct {
	K     string  `json:"k"` // "cut"
	At    int     `json:"at"`
	Avail int     `json:"avail"` // stream bytes recoverable from the prefix (-1: the specification computes it)
	G     string  `json:"g"`     // group of the cell the cut falls in (signatures only)
	Out   Outcome `json:"out"`
}

type skipLine struct {
	K    string `json:"k"` // "skip"
	Cuts []int  `json:"cuts"`
}

type endLine struct {
	K string `json:"k"` // "end"
	N int    `json:"n"`
}

// job: one file to cut
type job struct {
	line    fileLine
	data    []byte
	maxCuts int
	seed    int64
	cuts    []int // opaque ASCII files: header bytes and token boundaries (nil: derive from the cells)
	only    int   // >= 0: execute just this cut (replay)
}

// CutPoints: every byte offset 0..len-1 for binary and framed files; for
// ASCII files every byte of the header cells and every cell boundary of the
// body (token boundaries).
func CutPoints(l fileLine) []int {
	set := map[int]bool{}
	if !l.Ascii || len(l.Blocks) > 0 || l.F.Frame == "deflate" {
		for k := 0; k < l.Len; k++ {
			set[k] = true
		}
	} else {
		for _, c := range l.Cells {
			if c.G == "hdr" || c.G == "count" {
				for k := c.O; k < c.O+c.S; k++ {
					set[k] = true
				}
			}
			set[c.O] = true
			set[c.O+c.S] = true
		}
	}
	out := []int{}
	for k := range set {
		if k >= 0 && k < l.Len {
			out = append(out, k)
		}
	}
	sort.Ints(out)
	return out
}

// availDeflate: number of stream bytes the standard library's gzip reader
// yields from the prefix before it fails.
func availDeflate(prefix []byte) int {
	zr, err := gzip.NewReader(bytes.NewReader(prefix))
	if err != nil {
		return 0
	}
	n, _ := io.Copy(io.Discard, zr)
	return int(n)
}

func groupAt(l fileLine, k int) string {
	if len(l.Blocks) > 0 || l.F.Frame == "deflate" {
		return "gz"
	}
	for _, c := range l.Cells {
		if k >= c.O && k < c.O+c.S {
			if k == c.O {
				return c.G + "|" + c.K + "0"
			}
			return c.G + "|" + c.K
		}
	}
	return "end"
}

func runJob(j job) ([]interface{}, error) {
	d := &decoder{rk: j.line.Rk}
	defer d.close()
	l := j.line
	digest := l.Opaque
	// the complete file first
	got := false
	_, err := d.run(l.F.Fmt, j.data, []int{len(j.data)}, digest, 1, func(at int, out Outcome) {
		l.Full = out
		got = true
	})
	if err != nil {
		return nil, err
	}
	if !got {
		l.Full = Outcome{Kind: "timeout", Mesh: NullMesh()}
	}
	l.FullPos, l.PosOk = IntPositions(l.Full.Mesh)
	cuts := j.cuts
	if cuts == nil {
		cuts = CutPoints(l)
	} else {
		l.Sampled = true // the specification cannot re-derive the token boundaries of a file without cell table
	}
	if j.only >= 0 {
		l.Sampled = true
		cuts = []int{j.only}
	} else if j.maxCuts > 0 && len(cuts) > j.maxCuts {
		l.Sampled = true
		rng := rand.New(rand.NewSource(j.seed))
		pick := map[int]bool{}
		for _, k := range []int{0, 1, l.Len - 1, l.Len - 2, l.Len - 3, l.Len / 2} {
			if k >= 0 && k < l.Len {
				pick[k] = true
			}
		}
		for len(pick) < j.maxCuts {
			pick[cuts[rng.Intn(len(cuts))]] = true
		}
		valid := map[int]bool{}
		for _, k := range cuts {
			valid[k] = true
		}
		cuts = cuts[:0]
		for k := range pick {
			if valid[k] {
				cuts = append(cuts, k)
			}
		}
		sort.Ints(cuts)
	}
	lines := []interface{}{nil}
	skipped, err := d.run(l.F.Fmt, j.data, cuts, digest, 2, func(at int, out Outcome) {
		cl := cutLine{K: "cut", At: at, Avail: -1, G: groupAt(l, at), Out: out}
		if l.F.Frame == "deflate" {
			cl.Avail = availDeflate(j.data[:at])
		}
		lines = append(lines, cl)
	})
	if err != nil {
		return nil, err
	}
	if len(skipped) > 0 {
		lines = append(lines, skipLine{K: "skip", Cuts: skipped})
	}
	lines[0] = l
	lines = append(lines, endLine{K: "end", N: len(lines)})
	return lines, nil
}

func runJobs(jobs []job, out string, par int) error {
	if par < 1 {
		par = 1
	}
	for i := range jobs {
		jobs[i].line.Rk = i % ReaderKinds
		if PinRk >= 0 {
			jobs[i].line.Rk = PinRk
		}
	}
	res := make([][]interface{}, len(jobs))
	errs := make([]error, len(jobs))
	var wg sync.WaitGroup
	ch := make(chan int)
	for w := 0; w < par; w++ {
		wg.Add(1)
		go func() {
			defer wg.Done()
			for i := range ch {
				res[i], errs[i] = runJob(jobs[i])
			}
		}()
	}
	for i := range jobs {
		ch <- i
	}
	close(ch)
	wg.Wait()
	fo, err := os.Create(out)
	if err != nil {
		return err
	}
	defer fo.Close()
	w := bufio.NewWriterSize(fo, 1<<20)
	defer w.Flush()
	enc := json.NewEncoder(w)
	for i := range jobs {
		if errs[i] != nil {
			return fmt.Errorf("file %d: %w", i, errs[i])
		}
		for _, ln := range res[i] {
			if err := enc.Encode(ln); err != nil {
				return err
			}
		}
	}
	return nil
}

func normalise(f *refenc.File) {
	if f.Cols == nil {
		f.Cols = []refenc.Col{}
	}
	if f.Rows == nil {
		f.Rows = [][]int{}
	}
	for i := range f.Rows {
		if f.Rows[i] == nil {
			f.Rows[i] = []int{}
		}
	}
	if f.Faces == nil {
		f.Faces = []refenc.Face{}
	}
	for i := range f.Faces {
		if f.Faces[i].Idx == nil {
			f.Faces[i].Idx = []int{}
		}
		if f.Faces[i].UV == nil {
			f.Faces[i].UV = []int{}
		}
	}
	if f.Hdr == nil {
		f.Hdr = []int{}
	}
}

// RunCases encodes abstract files (ndjson) with the reference encoders and
// decodes every cut point on the real readers.
func RunCases(in, out string, par, maxCuts int, seed int64, only int) error {
	fi, err := os.Open(in)
	if err != nil {
		return err
	}
	defer fi.Close()
	sc := bufio.NewScanner(fi)
	sc.Buffer(make([]byte, 1<<20), 1<<28)
	jobs := []job{}
	for sc.Scan() {
		if len(bytes.TrimSpace(sc.Bytes())) == 0 {
			continue
		}
		var f refenc.File
		if err := json.Unmarshal(sc.Bytes(), &f); err != nil {
			return fmt.Errorf("case %d: %w", len(jobs), err)
		}
		normalise(&f)
		e, err := refenc.Encode(f)
		if err != nil {
			return fmt.Errorf("case %d: %w", len(jobs), err)
		}
		jobs = append(jobs, job{data: e.Bytes, maxCuts: maxCuts, seed: seed + int64(len(jobs)), only: only,
			line: fileLine{K: "file", F: f, Name: fmt.Sprintf("case%d", f.Id), Len: len(e.Bytes), SLen: e.SLen,
				Cells: e.Cells, Blocks: e.Blocks, Ascii: e.Ascii}})
	}
	if err := sc.Err(); err != nil {
		return err
	}
	return runJobs(jobs, out, par)
}

// opaqueCells: cell table of a real file without abstract content: the
// header, one required cell up to the last non-blank byte, trailing blanks as
// optional framing. opaqueAsciiCuts lists the cut points of the property's
// quantifier for such a file: every header byte and every token boundary.
func opaqueCells(data []byte, ascii bool, bodyStart int) []refenc.Cell {
	if len(data) == 0 {
		return []refenc.Cell{}
	}
	if !ascii {
		return []refenc.Cell{{K: "H", O: 0, S: len(data), G: "hdr"}}
	}
	isSp := func(b byte) bool { return b == ' ' || b == '\n' || b == '\r' || b == '\t' }
	end := len(data)
	for end > bodyStart && isSp(data[end-1]) {
		end--
	}
	cells := []refenc.Cell{}
	if bodyStart > 0 {
		cells = append(cells, refenc.Cell{K: "H", O: 0, S: bodyStart, G: "hdr"})
	}
	if end > bodyStart {
		cells = append(cells, refenc.Cell{K: "D", O: bodyStart, S: end - bodyStart, G: "body"})
	}
	if len(data) > end {
		cells = append(cells, refenc.Cell{K: "S", O: end, S: len(data) - end, G: "body"})
	}
	return cells
}

func opaqueAsciiCuts(data []byte, bodyStart int) []int {
	isSp := func(b byte) bool { return b == ' ' || b == '\n' || b == '\r' || b == '\t' }
	cuts := []int{}
	for k := 0; k < bodyStart && k < len(data); k++ {
		cuts = append(cuts, k)
	}
	for k := bodyStart; k < len(data); k++ {
		if k == bodyStart || isSp(data[k]) != isSp(data[k-1]) {
			if k >= bodyStart && (len(cuts) == 0 || cuts[len(cuts)-1] != k) {
				cuts = append(cuts, k)
			}
		}
	}
	return cuts
}

// RunFiles cuts real files (repository test models, output of polyform's own
// writers). The format is taken from the extension.
func RunFiles(paths []string, out string, par, maxCuts int, seed int64, only int) error {
	jobs := []job{}
	for i, p := range paths {
		data, err := os.ReadFile(p)
		if err != nil {
			return err
		}
		format := strings.TrimPrefix(strings.ToLower(filepath.Ext(p)), ".")
		f := refenc.File{Id: 100000 + i, Fmt: format, Enc: "bin", Frame: "none"}
		normalise(&f)
		ascii := false
		bodyStart := 0
		switch format {
		case "pts":
			ascii = true
			f.Enc = "ascii"
			if nl := bytes.IndexByte(data, '\n'); nl >= 0 {
				bodyStart = nl + 1
			}
		case "ply":
			end := bytes.Index(data, []byte("end_header\n"))
			if end < 0 {
				return fmt.Errorf("%s: no end_header", p)
			}
			if bytes.Contains(data[:end], []byte("format ascii")) {
				ascii = true
				f.Enc = "ascii"
				bodyStart = end + len("end_header\n")
			}
		case "spz":
			f.Frame = "deflate"
		case "stl", "splat":
		default:
			return fmt.Errorf("%s: unknown extension", p)
		}
		cells := opaqueCells(data, ascii, bodyStart)
		slen := len(data)
		if format == "spz" {
			slen = availDeflate(data)
			cells = []refenc.Cell{}
			if slen > 0 {
				cells = append(cells, refenc.Cell{K: "H", O: 0, S: slen, G: "hdr"})
			}
		}
		jb := job{data: data, maxCuts: maxCuts, seed: seed + int64(i), only: only,
			line: fileLine{K: "file", F: f, Name: filepath.Base(p), Len: len(data), SLen: slen, Cells: cells,
				Blocks: [][]int{}, Ascii: ascii, Opaque: true}}
		if ascii {
			jb.cuts = opaqueAsciiCuts(data, bodyStart)
		}
		jobs = append(jobs, jb)
	}
	return runJobs(jobs, out, par)
}
