package truncfam

import (
	"bufio"
	"bytes"
	"encoding/base64"
	"encoding/json"
	"fmt"
	"io"
	"os"
	"os/exec"
	"testing/iotest"
	"time"

	"github.com/EliCDavis/polyform/formats/ply"
	"github.com/EliCDavis/polyform/formats/pts"
	"github.com/EliCDavis/polyform/formats/splat"
	"github.com/EliCDavis/polyform/formats/spz"
	"github.com/EliCDavis/polyform/formats/stl"
	"github.com/EliCDavis/polyform/modeling"
)

// request / reply of the worker protocol (one JSON document per line)
type request struct {
	Fmt    string `json:"fmt"`
	Data   string `json:"data"` // base64 of the complete file
	Cuts   []int  `json:"cuts"` // prefix lengths to decode
	Digest bool   `json:"digest"`
	Rk     int    `json:"rk"` // reader kind (ReaderKinds)
}

type reply struct {
	At  int     `json:"at"`
	Out Outcome `json:"out"`
}

// Decode calls the real reader of the format on data. A panic of the code
// under test is an observation.
// ReaderKinds: what the caller hands the decoders.  The contract of C14 (an error, or only what is wholly
// present; never a hang) does not depend on it, the code paths do: readers test for *bufio.Reader, Read may
// return fewer bytes than asked for, and the end of the input may arrive together with the last bytes.
//
//	0 *bytes.Reader   1 *bufio.Reader with the smallest buffer (16 bytes)   2 one byte per Read
//	3 the last bytes arrive together with io.EOF   4 *bufio.Reader (4096 bytes) over one byte per Read
const ReaderKinds = 5

// PinRk >= 0 fixes the reader kind of every job (replays); otherwise the kinds rotate over the files.
var PinRk = -1

func mkReader(rk int, data []byte) io.Reader {
	switch rk {
	case 1:
		return bufio.NewReaderSize(bytes.NewReader(data), 16)
	case 2:
		return iotest.OneByteReader(bytes.NewReader(data))
	case 3:
		return iotest.DataErrReader(bytes.NewReader(data))
	case 4:
		return bufio.NewReader(iotest.OneByteReader(bytes.NewReader(data)))
	}
	return bytes.NewReader(data)
}

func Decode(format string, data []byte, digest bool, rk int) (out Outcome) {
	out = Outcome{Kind: "error", Mesh: NullMesh()}
	defer func() {
		if r := recover(); r != nil {
			out = Outcome{Kind: "panic", Mesh: NullMesh(), Msg: fmt.Sprint(r)}
		}
	}()
	var mp *modeling.Mesh
	var err error
	in := mkReader(rk, data)
	switch format {
	case "ply":
		mp, err = ply.ReadMesh(in)
	case "stl":
		mp, err = stl.ReadMesh(in)
	case "pts":
		mp, err = pts.ReadPointCloud(in)
	case "spz":
		var c *spz.Cloud
		c, err = spz.Read(in)
		if c != nil {
			mp = &c.Mesh
		}
	case "splat":
		var m modeling.Mesh
		m, err = splat.Read(in)
		mp = &m // the .splat reader returns what it has read next to the error
	default:
		panic("truncfam: unknown format " + format)
	}
	if err != nil {
		out.Err = true
		out.Msg = err.Error()
		if format == "splat" && mp != nil {
			out.Mesh = Project(*mp, digest)
		}
		return out
	}
	if mp == nil {
		// neither a mesh nor an error: report as an error-less null result
		out.Kind = "mesh"
		return out
	}
	out.Kind = "mesh"
	out.Mesh = Project(*mp, digest)
	return out
}

// Worker serves decode requests from stdin until EOF.
func Worker() error {
	in := bufio.NewReaderSize(os.Stdin, 1<<20)
	w := bufio.NewWriter(os.Stdout)
	enc := json.NewEncoder(w)
	for {
		line, err := in.ReadBytes('\n')
		if len(line) > 1 {
			var rq request
			if e := json.Unmarshal(line, &rq); e != nil {
				return e
			}
			data, e := base64.StdEncoding.DecodeString(rq.Data)
			if e != nil {
				return e
			}
			for _, k := range rq.Cuts {
				if k > len(data) {
					k = len(data)
				}
				_ = enc.Encode(reply{At: k, Out: Decode(rq.Fmt, data[:k], rq.Digest, rq.Rk)})
				_ = w.Flush()
			}
		}
		if err == io.EOF {
			return nil
		}
		if err != nil {
			return err
		}
	}
}

// proc is one worker child process.
type proc struct {
	cmd   *exec.Cmd
	stdin io.WriteCloser
	lines chan []byte // nil slice = process ended
}

func spawn() (*proc, error) {
	self, err := os.Executable()
	if err != nil {
		return nil, err
	}
	cmd := exec.Command(self, "trunc-worker")
	cmd.Stderr = io.Discard
	stdin, err := cmd.StdinPipe()
	if err != nil {
		return nil, err
	}
	stdout, err := cmd.StdoutPipe()
	if err != nil {
		return nil, err
	}
	if err := cmd.Start(); err != nil {
		return nil, err
	}
	p := &proc{cmd: cmd, stdin: stdin, lines: make(chan []byte, 64)}
	go func() {
		r := bufio.NewReaderSize(stdout, 1<<20)
		for {
			ln, err := r.ReadBytes('\n')
			if len(ln) > 0 && err == nil {
				p.lines <- ln
			}
			if err != nil {
				p.lines <- nil
				return
			}
		}
	}()
	return p, nil
}

func (p *proc) kill() {
	_ = p.stdin.Close()
	_ = p.cmd.Process.Kill()
	_, _ = p.cmd.Process.Wait()
}

// Deadline for decoding a prefix of a file of n bytes: proportional to the
// length with a floor (auxiliary wall-clock observer, not TLA+).
func Deadline(n int) time.Duration {
	return 2*time.Second + time.Duration(n)*4*time.Microsecond
}

// decoder runs decodes of prefixes of one file in worker processes.
type decoder struct {
	p  *proc
	rk int
}

func (d *decoder) close() {
	if d.p != nil {
		d.p.kill()
		d.p = nil
	}
}

// run decodes the given prefixes; every result is passed to emit in order.
// A decode that exceeds the deadline is retried once with twice the deadline
// in a fresh process before it is logged as TIMEOUT. After maxTimeouts
// timeouts the remaining cuts are returned as skipped.
func (d *decoder) run(format string, data []byte, cuts []int, digest bool, maxTimeouts int,
	emit func(at int, out Outcome)) (skipped []int, err error) {
	b64 := base64.StdEncoding.EncodeToString(data)
	dl := Deadline(len(data))
	timeouts := 0
	send := func(cs []int) error {
		if d.p == nil {
			p, err := spawn()
			if err != nil {
				return err
			}
			d.p = p
		}
		raw, _ := json.Marshal(request{Fmt: format, Data: b64, Cuts: cs, Digest: digest, Rk: d.rk})
		raw = append(raw, '\n')
		// write asynchronously: a hung worker must not block the parent
		go func(p *proc) { _, _ = p.stdin.Write(raw) }(d.p)
		return nil
	}
	// one(cs, dl): returns number of cuts answered and the reason for stopping
	const (
		done = iota
		timedOut
		died
	)
	one := func(cs []int, dl time.Duration) (int, int, error) {
		if err := send(cs); err != nil {
			return 0, died, err
		}
		for i := range cs {
			t := time.NewTimer(dl)
			select {
			case ln := <-d.p.lines:
				t.Stop()
				if ln == nil {
					d.close()
					return i, died, nil
				}
				var rp reply
				if e := json.Unmarshal(ln, &rp); e != nil {
					return i, died, e
				}
				emit(rp.At, rp.Out)
			case <-t.C:
				d.close()
				return i, timedOut, nil
			}
		}
		return len(cs), done, nil
	}
	rest := cuts
	for len(rest) > 0 {
		n, why, err := one(rest, dl)
		if err != nil {
			return nil, err
		}
		rest = rest[n:]
		if why == done {
			break
		}
		// the first of rest hung or killed the worker: retry it alone
		k := rest[0]
		rest = rest[1:]
		n2, why2, err := one([]int{k}, 2*dl)
		if err != nil {
			return nil, err
		}
		if n2 == 0 {
			kind := "timeout"
			if why2 == died {
				kind = "crash"
			}
			emit(k, Outcome{Kind: kind, Mesh: NullMesh()})
			if kind == "timeout" {
				timeouts++
				if timeouts >= maxTimeouts {
					return rest, nil
				}
			}
		}
	}
	return []int{}, nil
}
