package sdffam

import (
	"bufio"
	"encoding/json"
	"fmt"
	"math"
	"os"

	"github.com/EliCDavis/vector/vector3"
)

// Skeleton samples (round 5): the case carries descriptors chosen by SdfSkel.tla,
//   P = a + (tn/td) (b - a) + o     (a, b, o integer vectors in lattice units)
// the harness constructs P in float64 the way a user would ("seg": a + (b-a)*t,
// "lerp": a*(1-t) + b*t), evaluates the real closure and logs the value as a
// scaled integer plus its CLASS ("fin" | "nan" | "+inf" | "-inf").  No verdict here.

type SkSample struct {
	Part string `json:"part"`
	A    []int  `json:"a"`
	B    []int  `json:"b"`
	Tn   int    `json:"tn"`
	O    []int  `json:"o"`
}

type SkCase struct {
	K     string     `json:"k"`
	Den   int        `json:"den"`
	E2    int        `json:"e2"`
	Td    int        `json:"td"`
	Via   string     `json:"via"`
	Shape Shape      `json:"shape"`
	Smp   []SkSample `json:"smp"`
}

type skOut struct {
	Part string `json:"part"`
	A    []int  `json:"a"`
	B    []int  `json:"b"`
	Tn   int    `json:"tn"`
	O    []int  `json:"o"`
	Cl   string `json:"cl"`  // class of the float returned by the closure
	F    int    `json:"F"`   // round(f * den * q) when cl = "fin" (clamped to +-2^22), else 0
	Sg   int    `json:"sg"`  // sign of the float when finite
	Ops  []int  `json:"ops"` // per operand closure: F, sg, fin(1/0)
}

type skLine struct {
	K     string          `json:"k"`
	Id    int             `json:"id"`
	Den   int             `json:"den"`
	E2    int             `json:"e2"`
	Q     int             `json:"q"`
	Td    int             `json:"td"`
	Via   string          `json:"via"`
	Shape json.RawMessage `json:"shape"`
	Smp   []skOut         `json:"smp"`
}

const skQ = 64

func classOf(x float64) string {
	switch {
	case math.IsNaN(x):
		return "nan"
	case math.IsInf(x, 1):
		return "+inf"
	case math.IsInf(x, -1):
		return "-inf"
	}
	return "fin"
}

func skProject(x, den float64) (cl string, F, sg int) {
	cl = classOf(x)
	if cl != "fin" {
		return cl, 0, 0
	}
	y := math.Round(x * den * skQ)
	if y > 1<<22 {
		y = 1 << 22
	}
	if y < -(1 << 22) {
		y = -(1 << 22)
	}
	return cl, int(y), sign(x)
}

func skPoint(m SkSample, td int, via string, den float64) vector3.Float64 {
	a, b, o := vec(m.A, den), vec(m.B, den), vec(m.O, den)
	t := float64(m.Tn) / float64(td)
	var p vector3.Float64
	if via == "lerp" {
		p = a.Scale(1 - t).Add(b.Scale(t))
	} else {
		p = a.Add(b.Sub(a).Scale(t))
	}
	return p.Add(o)
}

func evalSkel(c SkCase, raw json.RawMessage, id int) (ln skLine) {
	ln = skLine{K: "skel", Id: id, Den: c.Den, E2: c.E2, Q: skQ, Td: c.Td, Via: c.Via, Shape: raw, Smp: []skOut{}}
	den := float64(c.Den) * math.Ldexp(1, -c.E2)
	nops := 0
	switch c.Shape.T {
	case "tr":
		nops = 1
	case "union", "inter", "sub":
		nops = len(c.Shape.Ss)
	}
	pre := buildCase(Case{Den: c.Den, E2: c.E2, Shape: c.Shape}, den)
	for _, m := range c.Smp {
		out := skOut{Part: m.Part, A: m.A, B: m.B, Tn: m.Tn, O: m.O, Ops: make([]int, 0, 3*nops)}
		func() {
			defer func() {
				if r := recover(); r != nil { // a panic of the code under test is an observation: no finite value
					out.Cl, out.F, out.Sg = "nan", 0, 0
					out.Ops = make([]int, 3*nops)
				}
			}()
			if !pre.ok {
				panic("constructor panicked")
			}
			p := skPoint(m, c.Td, c.Via, den)
			out.Cl, out.F, out.Sg = skProject(pre.f(p), den)
			for _, o := range pre.ops {
				cl, F, sg := skProject(o(p.Sub(pre.shift)), den)
				fin := 0
				if cl == "fin" {
					fin = 1
				}
				out.Ops = append(out.Ops, F, sg, fin)
			}
		}()
		ln.Smp = append(ln.Smp, out)
	}
	return ln
}

// RunSkel evaluates every skeleton case: one trace line per case.
func RunSkel(in, out string) error {
	fi, err := os.Open(in)
	if err != nil {
		return err
	}
	defer fi.Close()
	fo, err := os.Create(out)
	if err != nil {
		return err
	}
	defer fo.Close()
	w := bufio.NewWriterSize(fo, 1<<20)
	defer w.Flush()
	enc := json.NewEncoder(w)
	sc := bufio.NewScanner(fi)
	sc.Buffer(make([]byte, 1<<20), 1<<28)
	id := 0
	for sc.Scan() {
		if len(sc.Bytes()) == 0 {
			continue
		}
		var c SkCase
		if err := json.Unmarshal(sc.Bytes(), &c); err != nil {
			return fmt.Errorf("case %d: %w", id, err)
		}
		var raw struct {
			Shape json.RawMessage `json:"shape"`
		}
		_ = json.Unmarshal(sc.Bytes(), &raw)
		if c.Den < 1 || c.Td < 1 || len(c.Smp) == 0 {
			return fmt.Errorf("case %d: malformed", id)
		}
		for _, m := range c.Smp {
			if len(m.A) != 3 || len(m.B) != 3 || len(m.O) != 3 {
				return fmt.Errorf("case %d: malformed sample", id)
			}
		}
		if err := enc.Encode(evalSkel(c, raw.Shape, id)); err != nil {
			return err
		}
		id++
	}
	return sc.Err()
}
