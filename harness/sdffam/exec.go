// Package sdffam evaluates the real closures of polyform's math/sdf package on
// sample lattices (C19) and records the values as integers.  It only executes
// and projects; every judgement is made by TLC evaluating TraceSdf.tla /
// Sdf.tla on the recorded lines.
package sdffam

import (
	"bufio"
	"encoding/json"
	"fmt"
	"math"
	"math/rand"
	"os"
	"sync"
	"sync/atomic"

	"github.com/EliCDavis/polyform/math/sample"
	"github.com/EliCDavis/polyform/math/sdf"
	"github.com/EliCDavis/vector/vector3"
)

// Shape mirrors the shape records of Sdf.tla (integers in lattice units).
type Shape struct {
	T  string  `json:"t"`
	C  []int   `json:"c"`
	B  []int   `json:"b"`
	A  []int   `json:"a"`
	R  int     `json:"r"`
	R1 int     `json:"r1"`
	R2 int     `json:"r2"`
	Ra int     `json:"ra"`
	Rb int     `json:"rb"`
	H  int     `json:"h"`
	N  []int   `json:"n"`
	Nl int     `json:"nl"`
	O  []int   `json:"o"`
	Ss []Shape `json:"ss"`
}

// MarshalJSON writes exactly the fields Sdf.tla reads for the shape's type.
func (s Shape) MarshalJSON() ([]byte, error) {
	m := map[string]any{"t": s.T}
	switch s.T {
	case "sphere":
		m["c"], m["r"] = s.C, s.R
	case "box":
		m["c"], m["b"] = s.C, s.B
	case "rbox":
		m["c"], m["b"], m["r"] = s.C, s.B, s.R
	case "line":
		m["a"], m["b"], m["r"] = s.A, s.B, s.R
	case "rcone":
		m["a"], m["b"], m["r1"], m["r2"] = s.A, s.B, s.R1, s.R2
	case "rcyl":
		m["c"], m["ra"], m["rb"], m["h"] = s.C, s.Ra, s.Rb, s.H
	case "plane":
		m["c"], m["n"], m["nl"], m["h"] = s.C, s.N, s.Nl, s.H
	case "tr":
		m["ss"], m["o"] = s.Ss, s.O
	default:
		m["ss"] = s.Ss
	}
	return json.Marshal(m)
}

type Lattice struct {
	Lo []int `json:"lo"`
	St []int `json:"st"`
	N  int   `json:"n"`
}

type Case struct {
	K     string          `json:"k"`
	Den   int             `json:"den"`
	E2    int             `json:"e2"` // binary magnitude: every real parameter and coordinate is integer / den * 2^e2
	Shape Shape           `json:"shape"`
	Raw   json.RawMessage `json:"-"`
	Lat   Lattice         `json:"lat"`
}

type line struct {
	K     string          `json:"k"`
	Id    int             `json:"id"`
	Blk   int             `json:"blk"`
	Den   int             `json:"den"`
	E2    int             `json:"e2"`
	Q     int             `json:"q"`
	Shape json.RawMessage `json:"shape"`
	Pts   [][]int         `json:"pts"` // x, y, z, F, sign
	Nan   int             `json:"nan"`
	Ops   [][]int         `json:"ops"` // value and sign of the operand closures: F1, sg1, F2, sg2, ...
}

func vec(v []int, den float64) vector3.Float64 {
	return vector3.New(float64(v[0])/den, float64(v[1])/den, float64(v[2])/den)
}

// Build constructs the real closure of a shape (parameters = integers / den).
func Build(s Shape, den float64) sample.Vec3ToFloat {
	f := func(x int) float64 { return float64(x) / den }
	switch s.T {
	case "sphere":
		return sdf.Sphere(vec(s.C, den), f(s.R))
	case "box":
		return sdf.Box(vec(s.C, den), vec(s.B, den))
	case "rbox":
		return sdf.RoundedBox(vec(s.C, den), vec(s.B, den), f(s.R))
	case "line":
		return sdf.Line(vec(s.A, den), vec(s.B, den), f(s.R))
	case "rcone":
		return sdf.RoundedCone(vec(s.A, den), vec(s.B, den), f(s.R1), f(s.R2))
	case "rcyl":
		return sdf.RoundedCylinder(vec(s.C, den), f(s.Ra), f(s.Rb), f(s.H))
	case "plane":
		return sdf.Plane(vec(s.C, den), vec(s.N, float64(s.Nl)), f(s.H))
	case "tr":
		return sdf.Translate(Build(s.Ss[0], den), vec(s.O, den))
	case "union", "inter":
		ops := make([]sample.Vec3ToFloat, len(s.Ss))
		for i := range s.Ss {
			ops[i] = Build(s.Ss[i], den)
		}
		if s.T == "union" {
			return sdf.Union(ops...)
		}
		return sdf.Intersect(ops...)
	case "sub":
		return sdf.Subtract(Build(s.Ss[0], den), Build(s.Ss[1], den))
	}
	panic("unknown shape type " + s.T)
}

// span returns the largest |parameter| of a shape and the factor by which the
// specification multiplies distances before squaring (int32 budget only).
func span(s Shape) (maxAbs float64, fac float64) {
	fac = 1
	upd := func(vs ...int) {
		for _, v := range vs {
			maxAbs = math.Max(maxAbs, math.Abs(float64(v)))
		}
	}
	upd(s.C...)
	upd(s.B...)
	upd(s.A...)
	upd(s.O...)
	upd(s.R, s.R1, s.R2, 2*s.Ra, s.Rb, s.H)
	switch s.T {
	case "box", "rbox":
		fac = 2
	case "line":
		d := 0.0
		for i := range s.A {
			d += float64((s.B[i] - s.A[i]) * (s.B[i] - s.A[i]))
		}
		fac = math.Max(1, math.Sqrt(d))
	case "plane":
		fac = float64(s.Nl)
	}
	for _, c := range s.Ss {
		m, f := span(c)
		maxAbs = math.Max(maxAbs, m)
		fac = math.Max(fac, f)
	}
	if s.T == "tr" { // the inner shape is seen from p - o
		maxAbs *= 2
	}
	return
}

// scaleFor picks the largest power of two q <= 512 with q * bound <= 40000
// (bound covers q*(distance+radius)*sqrt(d) and q*|p1-p2| of Sdf.tla).
func scaleFor(s Shape, pts [][]int) int {
	maxAbs, fac := span(s)
	pm, dm := 0.0, 0.0
	for _, p := range pts {
		pm = math.Max(pm, math.Sqrt(float64(p[0]*p[0]+p[1]*p[1]+p[2]*p[2])))
		dx, dy, dz := float64(p[0]-pts[0][0]), float64(p[1]-pts[0][1]), float64(p[2]-pts[0][2])
		dm = math.Max(dm, math.Sqrt(dx*dx+dy*dy+dz*dz))
	}
	bound := math.Max((pm+1+3*maxAbs)*fac, 2*dm+1)
	q := 512
	for q > 1 && float64(q)*bound > 40000 {
		q /= 2
	}
	return q
}

func sign(x float64) int {
	if x < 0 {
		return -1
	}
	if x > 0 {
		return 1
	}
	return 0
}

// built: the closures of one case, constructed once and shared by every line
// of the case (concurrent mode); nil = construct them for this line.
type built struct {
	f     sample.Vec3ToFloat
	ops   []sample.Vec3ToFloat
	shift vector3.Float64
	ok    bool
}

func buildCase(c Case, den float64) (b *built) {
	b = &built{}
	defer func() {
		if r := recover(); r != nil {
			b.ok = false
		}
	}()
	b.f = Build(c.Shape, den)
	switch c.Shape.T {
	case "union", "inter", "sub":
		for _, o := range c.Shape.Ss {
			b.ops = append(b.ops, Build(o, den))
		}
	case "tr":
		b.ops = append(b.ops, Build(c.Shape.Ss[0], den))
		b.shift = vec(c.Shape.O, den)
	}
	b.ok = true
	return b
}

func evalLine(c Case, raw json.RawMessage, id, blk int, pts [][]int, pre *built) (ln line) {
	ln = line{K: "sdf", Id: id, Blk: blk, Den: c.Den, E2: c.E2, Shape: raw, Pts: [][]int{}, Ops: [][]int{}}
	ln.Q = scaleFor(c.Shape, pts)
	// one lattice unit is 2^e2 / den (den is 1, 2 or 4: dividing by den * 2^-e2 is exact); values are logged in
	// lattice units times q, whatever the size of the unit: the judge sees the same integers at every magnitude
	den := float64(c.Den) * math.Ldexp(1, -c.E2)
	defer func() {
		if r := recover(); r != nil { // a panic of the code under test is an observation
			ln.Nan = len(pts) + 1
			ln.Pts = [][]int{}
			ln.Ops = [][]int{}
			nops := 0
			if c.Shape.T == "tr" {
				nops = 1
			} else if c.Shape.T == "union" || c.Shape.T == "inter" || c.Shape.T == "sub" {
				nops = len(c.Shape.Ss)
			}
			for _, p := range pts {
				ln.Pts = append(ln.Pts, []int{p[0], p[1], p[2], 0, 0})
				if nops > 0 {
					ln.Ops = append(ln.Ops, make([]int, 2*nops))
				}
			}
		}
	}()
	if pre == nil {
		pre = buildCase(c, den)
	}
	if !pre.ok {
		panic("constructor panicked")
	}
	f, ops, shift := pre.f, pre.ops, pre.shift // operands are evaluated at p - shift
	project := func(x float64) (F, sg int, ok bool) {
		if math.IsNaN(x) || math.IsInf(x, 0) {
			return 0, 0, false
		}
		y := math.Round(x * den * float64(ln.Q))
		if math.Abs(y) > 1<<22 {
			return 0, 0, false
		}
		return int(y), sign(x), true
	}
	for _, p := range pts {
		v := vec(p, den)
		F, sg, ok := project(f(v))
		if !ok {
			ln.Nan++
		}
		ln.Pts = append(ln.Pts, []int{p[0], p[1], p[2], F, sg})
		if ops != nil {
			row := make([]int, 0, 2*len(ops))
			for _, o := range ops {
				oF, osg, ok := project(o(v.Sub(shift)))
				if !ok {
					ln.Nan++
				}
				row = append(row, oF, osg)
			}
			ln.Ops = append(ln.Ops, row)
		}
	}
	return ln
}

// RunCases evaluates every case on its lattice: 27 overlapping 3x3x3 blocks of
// the 7x7x7 lattice (every pair of neighbouring lattice points shares a block)
// plus one line of `far` seeded random points around the shape (seeded by
// seed and idBase + case index, so that a single case can be replayed).
// With par > 1 the closures of a case are constructed once and its lines are
// evaluated by par goroutines at the same time, lines of different cases
// interleaved - the way the marching canvas evaluates a field from its workers.
func RunCases(in, out string, seed int64, far int, idBase int, par int) error {
	fi, err := os.Open(in)
	if err != nil {
		return err
	}
	defer fi.Close()
	fo, err := os.Create(out)
	if err != nil {
		return err
	}
	defer fo.Close()
	w := bufio.NewWriterSize(fo, 1<<20)
	defer w.Flush()
	enc := json.NewEncoder(w)
	sc := bufio.NewScanner(fi)
	sc.Buffer(make([]byte, 1<<20), 1<<28)
	type job struct {
		c   Case
		raw json.RawMessage
		id  int
		blk int
		pts [][]int
		pre *built
	}
	jobs := []job{}
	id := 0
	for sc.Scan() {
		if len(sc.Bytes()) == 0 {
			continue
		}
		var c Case
		if err := json.Unmarshal(sc.Bytes(), &c); err != nil {
			return fmt.Errorf("case %d: %w", id, err)
		}
		var raw struct {
			Shape json.RawMessage `json:"shape"`
		}
		_ = json.Unmarshal(sc.Bytes(), &raw)
		if c.Den < 1 || c.Lat.N < 3 || len(c.Lat.Lo) != 3 || len(c.Lat.St) != 3 {
			return fmt.Errorf("case %d: malformed", id)
		}
		var pre *built
		if par > 1 {
			pre = buildCase(c, float64(c.Den)*math.Ldexp(1, -c.E2))
		}
		at := func(i, j, k int) []int {
			return []int{c.Lat.Lo[0] + i*c.Lat.St[0], c.Lat.Lo[1] + j*c.Lat.St[1], c.Lat.Lo[2] + k*c.Lat.St[2]}
		}
		blk := 0
		for bi := 0; bi+2 < c.Lat.N; bi += 2 {
			for bj := 0; bj+2 < c.Lat.N; bj += 2 {
				for bk := 0; bk+2 < c.Lat.N; bk += 2 {
					pts := make([][]int, 0, 27)
					for i := 0; i < 3; i++ {
						for j := 0; j < 3; j++ {
							for k := 0; k < 3; k++ {
								pts = append(pts, at(bi+i, bj+j, bk+k))
							}
						}
					}
					jobs = append(jobs, job{c, raw.Shape, id, blk, pts, pre})
					blk++
				}
			}
		}
		if far > 0 {
			r := rand.New(rand.NewSource(seed*1000003 + int64(idBase+id)))
			lo, hi := at(0, 0, 0), at(c.Lat.N-1, c.Lat.N-1, c.Lat.N-1)
			pts := make([][]int, far)
			for i := range pts {
				pts[i] = []int{lo[0] - 10 + r.Intn(hi[0]-lo[0]+21), lo[1] - 10 + r.Intn(hi[1]-lo[1]+21), lo[2] - 10 + r.Intn(hi[2]-lo[2]+21)}
			}
			jobs = append(jobs, job{c, raw.Shape, id, blk, pts, pre})
		}
		id++
	}
	if err := sc.Err(); err != nil {
		return err
	}
	if par <= 1 {
		for _, j := range jobs {
			_ = enc.Encode(evalLine(j.c, j.raw, j.id, j.blk, j.pts, nil))
		}
		return nil
	}
	lines := make([]line, len(jobs))
	var wg sync.WaitGroup
	next := int64(-1)
	for g := 0; g < par; g++ {
		wg.Add(1)
		go func() {
			defer wg.Done()
			for {
				n := int(atomic.AddInt64(&next, 1))
				if n >= len(jobs) {
					return
				}
				j := jobs[n]
				lines[n] = evalLine(j.c, j.raw, j.id, j.blk, j.pts, j.pre)
			}
		}()
	}
	wg.Wait()
	for n := range lines {
		_ = enc.Encode(lines[n])
	}
	return nil
}
