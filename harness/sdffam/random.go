package sdffam

import (
	"bufio"
	"encoding/json"
	"math/rand"
	"os"
)

// Seeded random cases (binding B2): shapes with parameters outside the small
// sets TLC enumerates (coordinates in -6..6, radii 1..6, denominators 1/2/4,
// nested translations and combinators; every other case at a binary magnitude
// 2^e2 other than 1, e2 in -40..40: shapes of size 1e-12 .. 1e12).  Only admissible parameters are
// produced (radii and sizes > 0, 2*ra >= rb, integer-length plane normals);
// this is input preparation, the judgement of the values is TLC's.

var normals = [][]int{{1, 0, 0, 1}, {0, 1, 0, 1}, {0, 0, 1, 1}, {-1, 0, 0, 1}, {0, -1, 0, 1}, {0, 0, -1, 1},
	{3, 4, 0, 5}, {0, -3, 4, 5}, {-4, 0, 3, 5}, {1, 2, 2, 3}, {2, -1, 2, 3}, {-2, -2, 1, 3}, {2, 3, 6, 7}, {6, -2, 3, 7}, {4, 4, 7, 9}, {1, 4, 8, 9}}

func rv(r *rand.Rand, span int) []int {
	return []int{r.Intn(2*span+1) - span, r.Intn(2*span+1) - span, r.Intn(2*span+1) - span}
}

func primitive(r *rand.Rand) Shape {
	switch r.Intn(7) {
	case 0:
		return Shape{T: "sphere", C: rv(r, 6), R: 1 + r.Intn(6)}
	case 1:
		return Shape{T: "box", C: rv(r, 6), B: []int{1 + r.Intn(9), 1 + r.Intn(9), 1 + r.Intn(9)}}
	case 2:
		return Shape{T: "rbox", C: rv(r, 6), B: []int{1 + r.Intn(7), 1 + r.Intn(7), 1 + r.Intn(7)}, R: 1 + r.Intn(3)}
	case 3:
		a := rv(r, 5)
		b := rv(r, 5)
		if r.Intn(8) == 0 {
			b = append([]int{}, a...)
		}
		return Shape{T: "line", A: a, B: b, R: 1 + r.Intn(4)}
	case 4:
		a := rv(r, 5)
		b := rv(r, 5)
		if r.Intn(8) == 0 {
			b = append([]int{}, a...)
		}
		return Shape{T: "rcone", A: a, B: b, R1: 1 + r.Intn(5), R2: 1 + r.Intn(5)}
	case 5:
		ra := 1 + r.Intn(4)
		return Shape{T: "rcyl", C: rv(r, 6), Ra: ra, Rb: 1 + r.Intn(2*ra), H: 1 + r.Intn(5)}
	}
	n := normals[r.Intn(len(normals))]
	return Shape{T: "plane", C: rv(r, 6), N: n[:3], Nl: n[3], H: r.Intn(7) - 3}
}

func randomShape(r *rand.Rand, depth int) Shape {
	if depth >= 2 {
		return primitive(r)
	}
	switch r.Intn(10) {
	case 0, 1:
		return Shape{T: "tr", Ss: []Shape{randomShape(r, depth+1)}, O: rv(r, 5)}
	case 2:
		n := 1 + r.Intn(3)
		ss := make([]Shape, n)
		for i := range ss {
			ss[i] = randomShape(r, depth+1)
		}
		return Shape{T: "union", Ss: ss}
	case 3:
		n := 1 + r.Intn(3)
		ss := make([]Shape, n)
		for i := range ss {
			ss[i] = randomShape(r, depth+1)
		}
		return Shape{T: "inter", Ss: ss}
	case 4:
		return Shape{T: "sub", Ss: []Shape{randomShape(r, depth+1), randomShape(r, depth+1)}}
	}
	return primitive(r)
}

type box struct{ lo, hi [3]int }

func cube(c []int, r int) box {
	return box{[3]int{c[0] - r, c[1] - r, c[2] - r}, [3]int{c[0] + r, c[1] + r, c[2] + r}}
}

func hull(a, b box) box {
	for i := 0; i < 3; i++ {
		if b.lo[i] < a.lo[i] {
			a.lo[i] = b.lo[i]
		}
		if b.hi[i] > a.hi[i] {
			a.hi[i] = b.hi[i]
		}
	}
	return a
}

func bounds(s Shape) box {
	switch s.T {
	case "sphere":
		return cube(s.C, s.R)
	case "box", "rbox":
		b := box{}
		for i := 0; i < 3; i++ {
			b.lo[i] = s.C[i] - s.B[i]/2 - 1 - s.R
			b.hi[i] = s.C[i] + s.B[i]/2 + 1 + s.R
		}
		return b
	case "line":
		return hull(cube(s.A, s.R), cube(s.B, s.R))
	case "rcone":
		return hull(cube(s.A, s.R1), cube(s.B, s.R2))
	case "rcyl":
		return box{[3]int{s.C[0] - 2*s.Ra, s.C[1] - s.H - s.Rb, s.C[2] - 2*s.Ra}, [3]int{s.C[0] + 2*s.Ra, s.C[1] + s.H + s.Rb, s.C[2] + 2*s.Ra}}
	case "plane":
		return cube(s.C, 3)
	case "tr":
		b := bounds(s.Ss[0])
		for i := 0; i < 3; i++ {
			b.lo[i] += s.O[i]
			b.hi[i] += s.O[i]
		}
		return b
	}
	b := bounds(s.Ss[0])
	for _, c := range s.Ss[1:] {
		b = hull(b, bounds(c))
	}
	return b
}

// LatticeFor: 7 samples per axis covering the bounds plus a margin of one.
func LatticeFor(s Shape) Lattice {
	b := bounds(s)
	l := Lattice{Lo: []int{0, 0, 0}, St: []int{1, 1, 1}, N: 7}
	for i := 0; i < 3; i++ {
		ext := b.hi[i] - b.lo[i] + 2
		if ext > 6 {
			l.St[i] = (ext + 5) / 6
		}
		l.Lo[i] = b.lo[i] - 1
	}
	return l
}

// GenRandom writes n seeded random cases.
func GenRandom(out string, seed int64, n int) error {
	fo, err := os.Create(out)
	if err != nil {
		return err
	}
	defer fo.Close()
	w := bufio.NewWriter(fo)
	defer w.Flush()
	enc := json.NewEncoder(w)
	r := rand.New(rand.NewSource(seed))
	dens := []int{1, 2, 4}
	exps := []int{-40, -20, -12, -5, -2, 3, 12, 20, 40}
	for i := 0; i < n; i++ {
		s := randomShape(r, 0)
		c := struct {
			K     string  `json:"k"`
			Den   int     `json:"den"`
			E2    int     `json:"e2"`
			Shape Shape   `json:"shape"`
			Lat   Lattice `json:"lat"`
		}{K: "sdf", Den: dens[r.Intn(3)], Shape: s, Lat: LatticeFor(s)}
		if i%2 == 1 {
			c.E2 = exps[(i/2+int(seed))%len(exps)]
		}
		if err := enc.Encode(c); err != nil {
			return err
		}
	}
	return nil
}
