package syncfam

import (
	"encoding/json"
	"math/rand"
	"os"
)

// GenSeqRandom writes seeded sequential histories at sizes TLC does not
// enumerate: 3-4 keys (one of them the empty string), paths up to length 3,
// nested map values, several handles kept alive and written by the client.
func GenSeqRandom(out string, seed int64, n, steps int) error {
	fo, err := os.Create(out)
	if err != nil {
		return err
	}
	defer fo.Close()
	enc := json.NewEncoder(fo)
	keyTables := [][]string{{"a", "b", "c"}, {"", "nodes", "Node-0"}, {"x y", "ü", "0", "notes"}}
	for i := 0; i < n; i++ {
		r := rand.New(rand.NewSource(seed*15485863 + int64(i)))
		keys := keyTables[i%len(keyTables)]
		nk := len(keys)
		h := History{NK: nk, NH: 3, Sweep: 2, Keys: keys, Tag: "random", Steps: []Step{}}
		if nk == 3 && i%2 == 0 {
			h.Sweep = 3
		}
		path := func(max int) []int {
			l := 1 + r.Intn(max)
			p := make([]int, l)
			for j := range p {
				p[j] = 1 + r.Intn(nk)
				if r.Intn(3) > 0 { // concentrate on few keys so that paths collide
					p[j] = 1 + r.Intn(2)
				}
			}
			return p
		}
		leaf := func(v int) Value { return Value{V: v, Sub: []Entry{}} }
		var randVal func(d int) Value
		randVal = func(d int) Value {
			switch x := r.Intn(8); {
			case x < 3:
				return leaf(1 + r.Intn(8))
			case x == 3:
				return leaf(codeNil)
			case x == 4 || d == 0:
				return Value{V: codeMap, Sub: []Entry{}}
			}
			v := Value{V: codeMap, Sub: []Entry{}}
			seen := map[int]bool{}
			for c := 0; c < 1+r.Intn(2); c++ {
				k := 1 + r.Intn(nk)
				if seen[k] {
					continue
				}
				seen[k] = true
				sub := randVal(d - 1)
				v.Sub = append(v.Sub, Entry{P: []int{k}, V: sub.V})
				for _, e := range sub.Sub {
					v.Sub = append(v.Sub, Entry{P: append([]int{k}, e.P...), V: e.V})
				}
			}
			return v
		}
		for s := 0; s < steps; s++ {
			st := Step{P: []int{}, Val: leaf(codeNil)}
			switch x := r.Intn(20); {
			case x < 6:
				st.Op, st.P, st.Val = "set", path(3), randVal(2)
			case x < 9:
				st.Op, st.P = "del", path(3)
			case x < 11:
				st.Op, st.P, st.H = "get", path(2), r.Intn(4)
			case x < 12:
				st.Op, st.P = "exists", path(3)
			case x < 14:
				st.Op, st.H = "data", 1+r.Intn(3)
			case x < 15:
				st.Op, st.Val = "over", randVal(2)
				if st.Val.V != codeMap {
					st.Val = leaf(codeNil)
				}
			case x < 17:
				st.Op, st.P, st.Val, st.H = "hset", path(2), leaf(1+r.Intn(8)), 1+r.Intn(3)
			case x < 18:
				st.Op, st.P, st.H = "hdel", path(2), 1+r.Intn(3)
			case x < 19:
				st.Op, st.P, st.Val = "fset", []int{1 + r.Intn(nk)}, leaf(1+r.Intn(5))
			default:
				st.Op, st.P = "fget", []int{1 + r.Intn(nk)}
			}
			h.Steps = append(h.Steps, st)
		}
		if err := enc.Encode(h); err != nil {
			return err
		}
	}
	return nil
}
