// Package syncfam drives generator/sync (NestedSyncMap, SyncMap) and the
// metadata paths of graph.Instance / generator.App for property X01. It only
// executes operations and projects what it observed (trees as entry lists over
// integer key ids); SyncTree.tla evaluated by TLC decides.
package syncfam

import (
	"encoding/json"
	"sort"
	"strings"
)

// node codes shared with SyncTree.tla
const (
	codeMap     = 0
	codeNil     = -1
	codeGate    = 9
	codeForeign = -99 // a value the projection does not know (never produced by the harness itself)
	keyForeign  = 99
)

type Entry struct {
	P []int `json:"p"`
	V int   `json:"v"`
}

type Value struct {
	V   int     `json:"v"`
	Sub []Entry `json:"sub"`
}

type Result struct {
	St  string  `json:"st"` // "ok" | "PANIC" | "nowalk"
	V   int     `json:"v"`
	Sub []Entry `json:"sub"`
}

// Keys is the table key id (1-based) -> map key string. Paths are joined with
// "." exactly as the callers of NestedSyncMap do, so no name contains a dot.
type Keys []string

var defaultKeys = Keys{"a", "b", "c", "d"}

func (k Keys) name(id int) string {
	if id >= 1 && id <= len(k) {
		return k[id-1]
	}
	return "?" + strings.Repeat("?", id)
}

func (k Keys) id(name string) int {
	for i, n := range k {
		if n == name {
			return i + 1
		}
	}
	return keyForeign
}

func (k Keys) dotted(p []int) string {
	parts := make([]string, len(p))
	for i, id := range p {
		parts[i] = k.name(id)
	}
	return strings.Join(parts, ".")
}

// leafMaker builds the Go value of a leaf code; the concurrent harness swaps in
// a maker that turns GATE into a blocking json.Marshaler.
type leafMaker func(code int) any

func plainLeaf(code int) any {
	if code == codeNil {
		return nil
	}
	return code
}

// build turns a model value into a fresh Go value (map[string]any / leaf).
func (k Keys) build(v Value, mk leafMaker) any {
	if v.V != codeMap {
		return mk(v.V)
	}
	root := map[string]any{}
	es := append([]Entry(nil), v.Sub...)
	sort.SliceStable(es, func(i, j int) bool { return len(es[i].P) < len(es[j].P) })
	for _, e := range es {
		cur := root
		for _, id := range e.P[:len(e.P)-1] {
			next, ok := cur[k.name(id)].(map[string]any)
			if !ok {
				next = map[string]any{}
				cur[k.name(id)] = next
			}
			cur = next
		}
		last := k.name(e.P[len(e.P)-1])
		if e.V == codeMap {
			if _, ok := cur[last].(map[string]any); !ok {
				cur[last] = map[string]any{}
			}
		} else {
			cur[last] = mk(e.V)
		}
	}
	return root
}

func leafCode(x any) int {
	switch t := x.(type) {
	case nil:
		return codeNil
	case int:
		return t
	case float64:
		if t == float64(int(t)) {
			return int(t)
		}
	case json.Number:
		if n, err := t.Int64(); err == nil {
			return int(n)
		}
	case gateLeaf:
		return codeGate
	case *gateLeaf:
		return codeGate
	}
	return codeForeign
}

// project flattens a Go value into (code, entries); entries are sorted by path.
func (k Keys) project(x any) (int, []Entry) {
	m, ok := x.(map[string]any)
	if !ok {
		return leafCode(x), []Entry{}
	}
	out := []Entry{}
	var walk func(prefix []int, m map[string]any)
	walk = func(prefix []int, m map[string]any) {
		for name, v := range m {
			p := append(append([]int{}, prefix...), k.id(name))
			if sub, ok := v.(map[string]any); ok {
				out = append(out, Entry{P: p, V: codeMap})
				walk(p, sub)
			} else {
				out = append(out, Entry{P: p, V: leafCode(v)})
			}
		}
	}
	walk(nil, m)
	sort.Slice(out, func(i, j int) bool { return lessPath(out[i].P, out[j].P) })
	return codeMap, out
}

func lessPath(a, b []int) bool {
	for i := 0; i < len(a) && i < len(b); i++ {
		if a[i] != b[i] {
			return a[i] < b[i]
		}
	}
	return len(a) < len(b)
}

func (k Keys) projectTree(m map[string]any) []Entry {
	if m == nil {
		return []Entry{}
	}
	_, es := k.project(m)
	return es
}

// allPaths enumerates every path over keys 1..nk of length 1..maxLen.
func allPaths(nk, maxLen int) [][]int {
	out := [][]int{}
	var rec func(p []int)
	rec = func(p []int) {
		if len(p) > 0 {
			out = append(out, append([]int{}, p...))
		}
		if len(p) == maxLen {
			return
		}
		for id := 1; id <= nk; id++ {
			rec(append(p, id))
		}
	}
	rec(nil)
	return out
}
