package syncfam

import (
	"math/rand"
	"runtime"
	"sync"
	"time"
)

// gateLeaf is a leaf value (code GATE = 9) whose JSON encoding is a scheduling
// point owned by the harness: in a directed case the goroutine that serialises
// a map containing it blocks inside MarshalJSON until the cooperative scheduler
// releases it; in a stress case it yields / sleeps at random to widen the
// window between reading one Go map and the next. For the contract it is an
// ordinary leaf. No hook inside polyform or encoding/json is needed.
type gateLeaf struct {
	g *gates
}

func (x gateLeaf) MarshalJSON() ([]byte, error) {
	if x.g != nil {
		x.g.hit()
	}
	return []byte("9"), nil
}

type gateEvent struct {
	client int
	kind   string // "gate" | "opdone"
}

type gates struct {
	mu      sync.Mutex
	open    bool
	stress  *rand.Rand
	clients map[int64]int // goroutine id -> client
	events  chan gateEvent
	release map[int]chan struct{}
}

func newGates() *gates {
	return &gates{open: true, clients: map[int64]int{}, events: make(chan gateEvent, 4096), release: map[int]chan struct{}{}}
}

func goid() int64 {
	var buf [64]byte
	n := runtime.Stack(buf[:], false)
	s := buf[len("goroutine "):n]
	var id int64
	for _, c := range s {
		if c < '0' || c > '9' {
			break
		}
		id = id*10 + int64(c-'0')
	}
	return id
}

func (g *gates) hit() {
	g.mu.Lock()
	if g.open {
		st := g.stress
		r := 0
		if st != nil {
			r = st.Intn(6)
		}
		g.mu.Unlock()
		if st != nil {
			switch r {
			case 0:
				time.Sleep(60 * time.Microsecond)
			case 1, 2, 3:
				runtime.Gosched()
			}
		}
		return
	}
	c, ok := g.clients[goid()]
	if !ok {
		g.mu.Unlock()
		return
	}
	ch := g.release[c]
	g.mu.Unlock()
	g.events <- gateEvent{client: c, kind: "gate"}
	<-ch
}
