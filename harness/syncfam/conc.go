package syncfam

import (
	"bufio"
	"encoding/json"
	"fmt"
	"math/rand"
	"os"
	"sync"
	"sync/atomic"
	"time"

	"github.com/EliCDavis/polyform/generator"
	"github.com/EliCDavis/polyform/generator/artifact"
	"github.com/EliCDavis/polyform/generator/artifact/basics"
	"github.com/EliCDavis/polyform/generator/graph"
	"github.com/EliCDavis/polyform/generator/parameter"
	psync "github.com/EliCDavis/polyform/generator/sync"
	"github.com/EliCDavis/polyform/nodes"
)

// ---------------------------------------------------------------------------
// Concurrent histories: several goroutines operate on ONE NestedSyncMap
// (kind "map": the bare type; kind "app": the metadata of a real
// generator.App through graph.Instance.SetMetadata/DeleteMetadata, App.Schema()
// - the save path of the editor - and json.Marshal(Instance.Schema()) - the
// schema endpoint). Invocations and responses are stamped from one counter.
// Directed cases impose a TLC-generated schedule (SyncSave.tla) through gate
// leaves; stress cases run freely. TraceSyncLin.tla judges the histories.
// ---------------------------------------------------------------------------

type ConcOp struct {
	Op  string `json:"op"`
	P   []int  `json:"p"`
	Val Value  `json:"val"`
}

type ConcCase struct {
	Kind  string     `json:"kind"` // "map" | "app"
	Init  Value      `json:"init"`
	Progs [][]ConcOp `json:"progs"`
	Sched []int      `json:"sched"`
	Mode  string     `json:"mode"` // "directed" | "stress"
	Proj  string     `json:"proj"` // "now": a handed-out map is serialised inside the operation; "late": after all clients finished
	Seed  int64      `json:"seed"`
	Tag   string     `json:"tag,omitempty"`
}

type concLine struct {
	K    string  `json:"k"`
	Seq  int64   `json:"seq"`
	H    int     `json:"h"`
	C    int     `json:"c"`
	Op   string  `json:"op"`
	P    []int   `json:"p"`
	Val  Value   `json:"val"`
	Res  Result  `json:"res"`
	Init []Entry `json:"init"`
	NC   int     `json:"nc"`
}

type concSystem interface {
	// call executes one operation; when the answer is a handed-out map that is to be
	// serialised later, the second result is the deferred serialisation.
	call(op ConcOp, late bool) (Result, func() Result)
	observe() []Entry
}

// serialise a value the way a caller that writes it out does (encoding/json) and project the document
func marshalProject(k Keys, v any) (res Result) {
	defer func() {
		if r := recover(); r != nil {
			res = Result{St: "PANIC", Sub: []Entry{}}
		}
	}()
	b, err := json.Marshal(v)
	if err != nil {
		return Result{St: "ERR", Sub: []Entry{}}
	}
	var x any
	if err := json.Unmarshal(b, &x); err != nil {
		return Result{St: "ERR", Sub: []Entry{}}
	}
	code, sub := k.project(x)
	return okRes(code, sub)
}

// ---- kind "map" ------------------------------------------------------------

type mapSystem struct {
	k    Keys
	m    *psync.NestedSyncMap
	flat *psync.SyncMap[string, int]
	mk   leafMaker
}

func (s *mapSystem) observe() []Entry { return s.k.projectTree(s.m.Data()) }

func (s *mapSystem) call(op ConcOp, late bool) (res Result, deferred func() Result) {
	k := s.k
	defer func() {
		if r := recover(); r != nil {
			res, deferred = Result{St: "PANIC", Sub: []Entry{}}, nil
		}
	}()
	switch op.Op {
	case "set":
		s.m.Set(k.dotted(op.P), k.build(op.Val, s.mk))
		return okRes(0, nil), nil
	case "del":
		s.m.Delete(k.dotted(op.P))
		return okRes(0, nil), nil
	case "exists":
		if s.m.PathExists(k.dotted(op.P)) {
			return okRes(1, nil), nil
		}
		return okRes(0, nil), nil
	case "over":
		if op.Val.V != codeMap {
			s.m.OverwriteData(nil)
		} else {
			s.m.OverwriteData(k.build(op.Val, s.mk).(map[string]any))
		}
		return okRes(0, nil), nil
	case "get": // the answer is read at once, by walking it
		code, sub := k.project(s.m.Get(k.dotted(op.P)))
		return okRes(code, sub), nil
	case "getm", "data": // the answer is serialised by the caller (now or later)
		var v any
		if op.Op == "data" {
			v = s.m.Data()
		} else {
			v = s.m.Get(k.dotted(op.P))
		}
		if _, isMap := v.(map[string]any); !isMap {
			return okRes(leafCode(v), nil), nil
		}
		if late {
			return okRes(0, nil), func() Result { return marshalProject(k, v) }
		}
		return marshalProject(k, v), nil
	case "fset":
		s.flat.Set(k.name(op.P[0]), op.Val.V)
		return okRes(0, nil), nil
	case "fget":
		return okRes(s.flat.Get(k.name(op.P[0])), nil), nil
	}
	return Result{St: "unknown-op", Sub: []Entry{}}, nil
}

// ---- kind "app" ------------------------------------------------------------

type appSystem struct {
	k      Keys
	app    *generator.App
	inst   *graph.Instance
	nodeID string
	mk     leafMaker
}

func newAppSystem(mk leafMaker) *appSystem {
	txt := &parameter.Value[string]{Name: "txt", DefaultValue: "x"}
	app := &generator.App{Name: "verif", Version: "1", Description: "metadata under concurrency",
		Files: map[string]nodes.NodeOutput[artifact.Artifact]{"out.txt": basics.NewTextNode(txt.Out())}}
	inst := app.VerifGraph()
	id := inst.NodeId(txt)
	return &appSystem{k: Keys{id, "m", "nodes"}, app: app, inst: inst, nodeID: id, mk: mk}
}

func (s *appSystem) savedMetadata() Result {
	var doc struct {
		Data struct {
			Metadata map[string]any `json:"metadata"`
		} `json:"data"`
		Metadata map[string]any `json:"metadata"`
	}
	if err := json.Unmarshal(s.app.Schema(), &doc); err != nil {
		return Result{St: "ERR", Sub: []Entry{}}
	}
	md := doc.Metadata
	if md == nil {
		md = doc.Data.Metadata
	}
	return okRes(codeMap, s.k.projectTree(md))
}

func (s *appSystem) observe() []Entry { return s.savedMetadata().Sub }

func (s *appSystem) call(op ConcOp, late bool) (res Result, deferred func() Result) {
	k := s.k
	defer func() {
		if r := recover(); r != nil {
			res, deferred = Result{St: "PANIC", Sub: []Entry{}}, nil
		}
	}()
	switch op.Op {
	case "set":
		s.inst.SetMetadata(k.dotted(op.P), k.build(op.Val, s.mk))
		return okRes(0, nil), nil
	case "del":
		s.inst.DeleteMetadata(k.dotted(op.P))
		return okRes(0, nil), nil
	case "save": // GraphSaver.Save / the graph endpoint: App.Schema()
		return s.savedMetadata(), nil
	case "schema": // the schema endpoint: json.Marshal(graphInstance.Schema()); the answer is the node's metadata
		b, err := json.Marshal(s.inst.Schema())
		if err != nil {
			return Result{St: "ERR", Sub: []Entry{}}, nil
		}
		var doc struct {
			Nodes map[string]struct {
				Metadata any `json:"metadata"`
			} `json:"nodes"`
		}
		if err := json.Unmarshal(b, &doc); err != nil {
			return Result{St: "ERR", Sub: []Entry{}}, nil
		}
		code, sub := k.project(doc.Nodes[s.nodeID].Metadata)
		return okRes(code, sub), nil
	}
	return Result{St: "unknown-op", Sub: []Entry{}}, nil
}

// ---- running a case ----------------------------------------------------------

type concRecorder struct {
	mu    sync.Mutex
	seq   int64
	lines []concLine
}

func (r *concRecorder) add(l concLine) int {
	r.mu.Lock()
	defer r.mu.Unlock()
	r.seq++
	l.Seq = r.seq
	r.lines = append(r.lines, l)
	return len(r.lines) - 1
}

type lateJob struct {
	line int
	f    func() Result
}

func runConcCase(h int, cs ConcCase) []concLine {
	g := newGates()
	mk := func(code int) any {
		if code == codeGate {
			return gateLeaf{g: g}
		}
		return plainLeaf(code)
	}
	var sys concSystem
	if cs.Kind == "app" {
		as := newAppSystem(mk)
		for _, e := range cs.Init.Sub { // top-level keys, each with its whole subtree
			if len(e.P) == 1 {
				as.inst.SetMetadata(as.k.dotted(e.P), as.k.build(subValue(cs.Init, e), mk))
			}
		}
		sys = as
	} else {
		ms := &mapSystem{k: defaultKeys, m: psync.NewNestedSyncMap(), flat: psync.NewSyncMap[string, int](), mk: mk}
		if cs.Init.V == codeMap && len(cs.Init.Sub) > 0 {
			ms.m.OverwriteData(ms.k.build(cs.Init, mk).(map[string]any))
		}
		sys = ms
	}
	rec := &concRecorder{}
	nc := len(cs.Progs)
	rec.add(concLine{K: "reset", H: h, NC: nc, Init: sys.observe()})
	directed := cs.Mode != "stress"
	late := cs.Proj == "late"
	g.mu.Lock()
	g.open = !directed
	if !directed {
		g.stress = rand.New(rand.NewSource(cs.Seed))
	}
	g.mu.Unlock()

	start := make([]chan struct{}, nc+1)
	var freeRun atomic.Bool
	freeRun.Store(!directed)
	var wg sync.WaitGroup
	var lateMu sync.Mutex
	lates := []lateJob{}
	for c := 1; c <= nc; c++ {
		start[c] = make(chan struct{}, len(cs.Progs[c-1])+1)
		g.release[c] = make(chan struct{}, 64)
		wg.Add(1)
		go func(c int) {
			defer wg.Done()
			g.mu.Lock()
			g.clients[goid()] = c
			g.mu.Unlock()
			for _, op := range cs.Progs[c-1] {
				if !freeRun.Load() {
					<-start[c]
				}
				rec.add(concLine{K: "inv", C: c, Op: op.Op, P: op.P, Val: op.Val, H: h})
				res, deferred := sys.call(op, late)
				li := rec.add(concLine{K: "resp", C: c, Op: op.Op, P: op.P, Val: op.Val, Res: res, H: h})
				if deferred != nil {
					lateMu.Lock()
					lates = append(lates, lateJob{line: li, f: deferred})
					lateMu.Unlock()
				}
				if directed {
					g.events <- gateEvent{client: c, kind: "opdone"}
				}
			}
		}(c)
	}

	if directed {
		state := make([]string, nc+1) // idle | running | gate | fin
		next := make([]int, nc+1)
		for c := 1; c <= nc; c++ {
			state[c] = "idle"
		}
		absorb := func(ev gateEvent) {
			if ev.kind == "gate" {
				state[ev.client] = "gate"
			} else if next[ev.client] >= len(cs.Progs[ev.client-1]) {
				state[ev.client] = "fin"
			} else {
				state[ev.client] = "idle"
			}
		}
		waitFor := func(c int) {
			deadline := time.After(250 * time.Millisecond)
			for {
				select {
				case ev := <-g.events:
					absorb(ev)
					if ev.client == c {
						return
					}
				case <-deadline:
					return // c is blocked: an outcome (which schedule was realised), never a verdict
				}
			}
		}
		for _, c := range cs.Sched {
			if c < 1 || c > nc {
				continue
			}
			for drained := false; !drained; {
				select {
				case ev := <-g.events:
					absorb(ev)
				default:
					drained = true
				}
			}
			switch state[c] {
			case "idle":
				if next[c] < len(cs.Progs[c-1]) {
					next[c]++
					state[c] = "running"
					start[c] <- struct{}{}
					waitFor(c)
				}
			case "gate":
				state[c] = "running"
				g.release[c] <- struct{}{}
				waitFor(c)
			}
		}
		freeRun.Store(true)
		g.mu.Lock()
		g.open = true
		g.mu.Unlock()
		for c := 1; c <= nc; c++ {
			for k := 0; k < len(cs.Progs[c-1])+1; k++ {
				select {
				case start[c] <- struct{}{}:
				default:
				}
			}
			for k := 0; k < 48; k++ {
				select {
				case g.release[c] <- struct{}{}:
				default:
				}
			}
		}
	}
	fin := make(chan struct{})
	go func() { wg.Wait(); close(fin) }()
	timeout := time.After(10 * time.Second)
	hung := false
	for done := false; !done; {
		select {
		case <-fin:
			done = true
		case <-g.events:
		case <-timeout:
			rec.add(concLine{K: "hang", H: h})
			done, hung = true, true
		}
	}
	if !hung {
		// every client has finished: serialise the maps that were handed out and kept
		for _, j := range lates {
			res := j.f()
			rec.mu.Lock()
			rec.lines[j.line].Res = res
			rec.mu.Unlock()
		}
	}
	rec.mu.Lock()
	defer rec.mu.Unlock()
	out := make([]concLine, len(rec.lines))
	copy(out, rec.lines)
	return out
}

// subValue: the value bound to the top-level entry e of the map value v
func subValue(v Value, e Entry) Value {
	if e.V != codeMap {
		return Value{V: e.V, Sub: []Entry{}}
	}
	out := Value{V: codeMap, Sub: []Entry{}}
	for _, x := range v.Sub {
		if len(x.P) > 1 && x.P[0] == e.P[0] {
			out.Sub = append(out.Sub, Entry{P: append([]int{}, x.P[1:]...), V: x.V})
		}
	}
	return out
}

func normLine(l concLine) concLine {
	if l.P == nil {
		l.P = []int{}
	}
	if l.Val.Sub == nil {
		l.Val.Sub = []Entry{}
		if l.Op == "" {
			l.Val.V = codeNil
		}
	}
	if l.Res.Sub == nil {
		l.Res.Sub = []Entry{}
	}
	if l.Res.St == "" {
		l.Res.St = "ok"
	}
	if l.Init == nil {
		l.Init = []Entry{}
	}
	if l.Op == "" {
		l.Op = "none"
	}
	return l
}

// RunConc executes cases (ndjson) and writes the histories; the output is flushed after
// every case so that a crash of the process (Go's "concurrent map ..." fatal errors cannot
// be recovered) loses only the case that caused it.
func RunConc(in, out string, reps int) error {
	fi, err := os.Open(in)
	if err != nil {
		return err
	}
	defer fi.Close()
	fo, err := os.Create(out)
	if err != nil {
		return err
	}
	defer fo.Close()
	w := bufio.NewWriterSize(fo, 1<<20)
	defer w.Flush()
	enc := json.NewEncoder(w)
	sc := bufio.NewScanner(fi)
	sc.Buffer(make([]byte, 1<<20), 1<<26)
	h := 0
	for sc.Scan() {
		if len(sc.Bytes()) == 0 {
			continue
		}
		var cs ConcCase
		if err := json.Unmarshal(sc.Bytes(), &cs); err != nil {
			return fmt.Errorf("case %d: %w", h, err)
		}
		for r := 0; r < reps; r++ {
			for _, l := range runConcCase(h, cs) {
				if err := enc.Encode(normLine(l)); err != nil {
					return err
				}
			}
			if err := w.Flush(); err != nil {
				return err
			}
		}
		h++
	}
	return sc.Err()
}

// GenConcStress writes seeded free-running cases.
func GenConcStress(out string, seed int64, n int, kind string, clients, ops int, proj string) error {
	fo, err := os.Create(out)
	if err != nil {
		return err
	}
	defer fo.Close()
	enc := json.NewEncoder(fo)
	leaf := func(v int) Value { return Value{V: v, Sub: []Entry{}} }
	for i := 0; i < n; i++ {
		r := rand.New(rand.NewSource(seed*7919 + int64(i)))
		cs := ConcCase{Kind: kind, Mode: "stress", Proj: proj, Seed: seed*131 + int64(i), Sched: []int{}, Tag: "stress"}
		var paths [][]int
		var readers []ConcOp
		if kind == "app" {
			cs.Init = Value{V: codeMap, Sub: []Entry{{P: []int{1}, V: codeGate}, {P: []int{2}, V: 1}, {P: []int{3}, V: codeMap},
				{P: []int{3, 1}, V: codeMap}, {P: []int{3, 1, 1}, V: codeGate}, {P: []int{3, 1, 2}, V: 1},
				{P: []int{3, 1, 3}, V: codeMap}, {P: []int{3, 1, 3, 1}, V: codeGate}, {P: []int{3, 1, 3, 2}, V: 1}}}
			paths = [][]int{{2}, {1}, {3, 1, 2}, {3, 1, 3, 2}, {3, 1, 3, 3}, {3, 2}, {2, 2}, {3, 1, 3}, {3, 1, 2}, {3, 1, 3, 2}, {3, 1}, {3}}
			readers = []ConcOp{{Op: "save", P: []int{}}, {Op: "schema", P: []int{3, 1}}}
		} else {
			cs.Init = Value{V: codeMap, Sub: []Entry{{P: []int{1}, V: codeGate}, {P: []int{2}, V: codeMap}, {P: []int{2, 1}, V: codeGate},
				{P: []int{2, 2}, V: 1}, {P: []int{2, 3}, V: codeMap}, {P: []int{2, 3, 1}, V: codeGate}, {P: []int{2, 3, 2}, V: 1}, {P: []int{3}, V: 1}}}
			paths = [][]int{{3}, {1}, {2, 2}, {2, 3, 2}, {2, 3, 3}, {2, 3}, {3, 1}, {2}, {2, 2, 1}}
			readers = []ConcOp{{Op: "data", P: []int{}}, {Op: "getm", P: []int{2}}, {Op: "getm", P: []int{2, 3}}}
		}
		nc := 1
		if clients > 1 {
			nc = 2 + r.Intn(clients-1)
		}
		val := 2
		for c := 0; c < nc; c++ {
			prog := []ConcOp{}
			for k := 0; k < ops; k++ {
				p := paths[r.Intn(len(paths))]
				x := r.Intn(12)
				switch {
				case x < 4:
					v := leaf(val%7 + 2)
					val++
					if r.Intn(5) == 0 && len(p) >= 2 && kind == "map" || (len(p) == 4 && r.Intn(3) == 0) {
						v = Value{V: codeMap, Sub: []Entry{{P: []int{1}, V: codeGate}, {P: []int{2}, V: val%7 + 2}}}
					}
					if kind == "app" && (len(p) == 3 && p[2] == 3 || len(p) <= 2 && p[0] == 3 && r.Intn(3) > 0) {
						// nodes, nodes.<id>, nodes.<id>.nodes are usually objects (sometimes a leaf: Schema must cope)
						v = Value{V: codeMap, Sub: []Entry{{P: []int{1}, V: codeGate}, {P: []int{2}, V: val%7 + 2}}}
						if len(p) == 1 {
							v = Value{V: codeMap, Sub: []Entry{{P: []int{1}, V: codeMap}, {P: []int{1, 1}, V: codeGate}, {P: []int{1, 2}, V: val%7 + 2}}}
						}
					}
					prog = append(prog, ConcOp{Op: "set", P: p, Val: v})
				case x < 6:
					prog = append(prog, ConcOp{Op: "del", P: p, Val: leaf(codeNil)})
				case x < 10 || kind == "app":
					o := readers[r.Intn(len(readers))]
					o.Val = leaf(codeNil)
					prog = append(prog, o)
				case x == 10:
					if r.Intn(2) == 0 {
						prog = append(prog, ConcOp{Op: "get", P: p, Val: leaf(codeNil)})
					} else {
						prog = append(prog, ConcOp{Op: "exists", P: p, Val: leaf(codeNil)})
					}
				default:
					switch r.Intn(3) {
					case 0:
						prog = append(prog, ConcOp{Op: "fset", P: []int{1 + r.Intn(2)}, Val: leaf(1 + r.Intn(3))})
					case 1:
						prog = append(prog, ConcOp{Op: "fget", P: []int{1 + r.Intn(2)}, Val: leaf(codeNil)})
					default:
						prog = append(prog, ConcOp{Op: "over", P: []int{}, Val: Value{V: codeMap, Sub: []Entry{{P: []int{1}, V: codeGate}, {P: []int{3}, V: val%7 + 2}}}})
					}
				}
			}
			cs.Progs = append(cs.Progs, prog)
		}
		if err := enc.Encode(cs); err != nil {
			return err
		}
	}
	return nil
}
