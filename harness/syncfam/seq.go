package syncfam

import (
	"bufio"
	"encoding/json"
	"fmt"
	"os"

	psync "github.com/EliCDavis/polyform/generator/sync"
)

// ---------------------------------------------------------------------------
// Sequential replay: one NestedSyncMap, one SyncMap[string,int] and the maps a
// client was handed (handles) per history. After EVERY step the harness
// projects the whole observable state: the tree (through Data), every handle,
// the flat map, and a sweep of PathExists/Get over all short paths.
// TraceSyncMap.tla judges each line.
// ---------------------------------------------------------------------------

type Step struct {
	Op  string `json:"op"`
	P   []int  `json:"p"`
	Val Value  `json:"val"`
	H   int    `json:"h"`
}

type History struct {
	NK    int      `json:"nk"`
	NH    int      `json:"nh,omitempty"`
	Sweep int      `json:"sweep,omitempty"` // max length of the probed paths
	Keys  []string `json:"keys,omitempty"`
	Steps []Step   `json:"steps"`
	Tag   string   `json:"tag,omitempty"`
}

type handleObs struct {
	H    int     `json:"h"`
	Live bool    `json:"live"`
	T    []Entry `json:"t"`
}

type probeObs struct {
	P []int  `json:"p"`
	E int    `json:"e"` // PathExists: 1 / 0 / -1 (panicked)
	G Result `json:"g"` // Get
}

type seqLine struct {
	K     string      `json:"k"`
	H     int         `json:"h"`
	I     int         `json:"i"`
	NK    int         `json:"nk"`
	Step  Step        `json:"step"`
	Res   Result      `json:"res"`
	Tree  []Entry     `json:"tree"`
	Hs    []handleObs `json:"hs"`
	Flat  []Entry     `json:"flat"`
	Probe []probeObs  `json:"probe"`
}

func emptyStep() Step { return Step{Op: "none", P: []int{}, Val: Value{V: codeNil, Sub: []Entry{}}} }

type seqSystem struct {
	keys    Keys
	m       *psync.NestedSyncMap
	flat    *psync.SyncMap[string, int]
	handles []map[string]any
}

func guard(f func() Result) (res Result) {
	defer func() {
		if r := recover(); r != nil {
			res = Result{St: "PANIC", Sub: []Entry{}}
		}
	}()
	return f()
}

func okRes(v int, sub []Entry) Result {
	if sub == nil {
		sub = []Entry{}
	}
	return Result{St: "ok", V: v, Sub: sub}
}

// walkHandle follows p[:len-1] through plain maps, as client code holding the map would.
func walkHandle(k Keys, m map[string]any, p []int) (map[string]any, string, bool) {
	cur := m
	for _, id := range p[:len(p)-1] {
		next, ok := cur[k.name(id)].(map[string]any)
		if !ok {
			return nil, "", false
		}
		cur = next
	}
	return cur, k.name(p[len(p)-1]), true
}

func (s *seqSystem) apply(st Step) Result {
	k := s.keys
	return guard(func() Result {
		switch st.Op {
		case "set":
			s.m.Set(k.dotted(st.P), k.build(st.Val, plainLeaf))
			return okRes(0, nil)
		case "del":
			s.m.Delete(k.dotted(st.P))
			return okRes(0, nil)
		case "get":
			v := s.m.Get(k.dotted(st.P))
			code, sub := k.project(v)
			if mm, ok := v.(map[string]any); ok && st.H >= 1 && st.H <= len(s.handles) {
				s.handles[st.H-1] = mm
			}
			return okRes(code, sub)
		case "exists":
			if s.m.PathExists(k.dotted(st.P)) {
				return okRes(1, nil)
			}
			return okRes(0, nil)
		case "data":
			d := s.m.Data()
			if st.H >= 1 && st.H <= len(s.handles) {
				s.handles[st.H-1] = d
			}
			return okRes(codeMap, k.projectTree(d))
		case "over":
			if st.Val.V != codeMap {
				s.m.OverwriteData(nil)
			} else {
				s.m.OverwriteData(k.build(st.Val, plainLeaf).(map[string]any))
			}
			return okRes(0, nil)
		case "hset", "hdel":
			if st.H < 1 || st.H > len(s.handles) || s.handles[st.H-1] == nil || len(st.P) == 0 {
				return Result{St: "nowalk", Sub: []Entry{}}
			}
			mm, last, ok := walkHandle(k, s.handles[st.H-1], st.P)
			if !ok {
				return Result{St: "nowalk", Sub: []Entry{}}
			}
			if st.Op == "hset" {
				mm[last] = k.build(st.Val, plainLeaf)
			} else {
				delete(mm, last)
			}
			return okRes(0, nil)
		case "fset":
			s.flat.Set(k.name(st.P[0]), st.Val.V)
			return okRes(0, nil)
		case "fget":
			return okRes(s.flat.Get(k.name(st.P[0])), nil)
		}
		return Result{St: "unknown-op", Sub: []Entry{}}
	})
}

func (s *seqSystem) observe(ln *seqLine, nk, sweep int) {
	k := s.keys
	// the tree through Data(); a panic is an observation
	tr := guard(func() Result { return okRes(0, k.projectTree(s.m.Data())) })
	ln.Tree = tr.Sub
	if tr.St != "ok" {
		ln.Tree = []Entry{{P: []int{keyForeign}, V: codeForeign}}
	}
	ln.Hs = []handleObs{}
	for i, h := range s.handles {
		ln.Hs = append(ln.Hs, handleObs{H: i + 1, Live: h != nil, T: k.projectTree(h)})
	}
	ln.Flat = []Entry{}
	for id := 1; id <= nk; id++ {
		if v := s.flat.Get(k.name(id)); v != 0 {
			ln.Flat = append(ln.Flat, Entry{P: []int{id}, V: v})
		}
	}
	ln.Probe = []probeObs{}
	for _, p := range allPaths(nk, sweep) {
		po := probeObs{P: p}
		e := guard(func() Result {
			if s.m.PathExists(k.dotted(p)) {
				return okRes(1, nil)
			}
			return okRes(0, nil)
		})
		po.E = e.V
		if e.St != "ok" {
			po.E = -1
		}
		po.G = guard(func() Result {
			code, sub := k.project(s.m.Get(k.dotted(p)))
			return okRes(code, sub)
		})
		ln.Probe = append(ln.Probe, po)
	}
}

func runSeq(enc *json.Encoder, h int, hist History) error {
	keys := Keys(hist.Keys)
	if len(keys) == 0 {
		keys = defaultKeys
	}
	nh := hist.NH
	if nh == 0 {
		nh = 2
	}
	sweep := hist.Sweep
	if sweep == 0 {
		sweep = 2
	}
	s := &seqSystem{keys: keys, m: psync.NewNestedSyncMap(), flat: psync.NewSyncMap[string, int](), handles: make([]map[string]any, nh)}
	reset := seqLine{K: "reset", H: h, NK: hist.NK, Step: emptyStep(), Res: okRes(0, nil)}
	s.observe(&reset, hist.NK, sweep)
	if err := enc.Encode(reset); err != nil {
		return err
	}
	for i, st := range hist.Steps {
		if st.P == nil {
			st.P = []int{}
		}
		if st.Val.Sub == nil {
			st.Val.Sub = []Entry{}
		}
		ln := seqLine{K: "step", H: h, I: i, NK: hist.NK, Step: st}
		ln.Res = s.apply(st)
		s.observe(&ln, hist.NK, sweep)
		if err := enc.Encode(ln); err != nil {
			return err
		}
	}
	return nil
}

// RunSeq executes histories (ndjson) on the real types and writes the observed trace.
func RunSeq(in, out string) error {
	fi, err := os.Open(in)
	if err != nil {
		return err
	}
	defer fi.Close()
	fo, err := os.Create(out)
	if err != nil {
		return err
	}
	defer fo.Close()
	w := bufio.NewWriterSize(fo, 1<<20)
	defer w.Flush()
	enc := json.NewEncoder(w)
	sc := bufio.NewScanner(fi)
	sc.Buffer(make([]byte, 1<<20), 1<<28)
	h := 0
	for sc.Scan() {
		if len(sc.Bytes()) == 0 {
			continue
		}
		var hist History
		if err := json.Unmarshal(sc.Bytes(), &hist); err != nil {
			return fmt.Errorf("history %d: %w", h, err)
		}
		if err := runSeq(enc, h, hist); err != nil {
			return err
		}
		h++
	}
	return sc.Err()
}
