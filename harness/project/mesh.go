// Package project holds the abstraction functions: real polyform values ->
// the integer domain of the TLA+ specifications (and back, for inputs that
// the specifications generate). It contains no property logic.
package project

import (
	"fmt"
	"hash/fnv"
	"image/color"
	"math"
	"sort"
	"strconv"

	"github.com/EliCDavis/polyform/modeling"
	"github.com/EliCDavis/vector/vector2"
	"github.com/EliCDavis/vector/vector3"
	"github.com/EliCDavis/vector/vector4"
)

// Q is the lattice denominator of MeshValue.tla.
const Q = 1024

type PAttr struct {
	Ar   int     `json:"ar"`
	Id   int     `json:"id"`
	Data [][]int `json:"data"`
}

type PMat struct {
	N int `json:"n"`
	M int `json:"m"`
}

type PMesh struct {
	Topo  string  `json:"topo"`
	Idx   []int   `json:"idx"`
	Attrs []PAttr `json:"attrs"`
	Mats  []PMat  `json:"mats"`
	Exact bool    `json:"exact"`
	Bx    bool    `json:"bx"` // every value is bit-exactly on the lattice (no floating-point noise at all)
	Fp    []int   `json:"fp"`
}

func NullMesh() PMesh {
	return PMesh{Topo: "NULL", Idx: []int{}, Attrs: []PAttr{}, Mats: []PMat{}, Exact: true, Bx: true, Fp: []int{}}
}

func FailMesh() PMesh {
	m := NullMesh()
	m.Topo = "FAIL"
	return m
}

var attrNames = map[int]string{
	1: modeling.PositionAttribute, 2: modeling.NormalAttribute, 3: modeling.ColorAttribute,
	4: modeling.TexCoordAttribute, 5: modeling.ClassAttribute, 6: modeling.IntensityAttribute,
	7: modeling.JointAttribute, 8: modeling.WeightAttribute, 9: modeling.ScaleAttribute,
	10: modeling.RotationAttribute, 11: modeling.OpacityAttribute, 12: modeling.FDCAttribute,
	13: "Custom", 14: "other_user", 15: "Zeta",
}

var attrIds = func() map[string]int {
	m := map[string]int{}
	for k, v := range attrNames {
		m[v] = k
	}
	return m
}()

func AttrName(id int) string {
	if n, ok := attrNames[id]; ok {
		return n
	}
	return "attr" + strconv.Itoa(id)
}

func AttrId(name string) int {
	if id, ok := attrIds[name]; ok {
		return id
	}
	if len(name) > 4 && name[:4] == "attr" {
		if v, err := strconv.Atoi(name[4:]); err == nil {
			return v
		}
	}
	return 99
}

func TopoName(t modeling.Topology) string { return t.String() }

func TopoOf(s string) modeling.Topology {
	switch s {
	case "triangle":
		return modeling.TriangleTopology
	case "point":
		return modeling.PointTopology
	case "quad":
		return modeling.QuadTopology
	case "line":
		return modeling.LineTopology
	case "line strip":
		return modeling.LineStripTopology
	case "line loop":
		return modeling.LineLoopTopology
	}
	panic("unknown topology " + s)
}

// Scaled converts a real to lattice units; ok=false when it is not on the lattice.
func Scaled(x float64) (int, bool) {
	if math.IsNaN(x) || math.IsInf(x, 0) || math.Abs(x) > 1<<20 { // 2^20 * Q = 2^30: the largest magnitude the 32-bit integers of TLC hold with headroom
		return 0, false
	}
	r := math.Round(x * Q)
	return int(r), math.Abs(x*Q-r) <= 1e-6
}

func Unscaled(v int) float64 { return float64(v) / Q }

var matPtrs = map[int]*modeling.Material{}

// Mat returns the canonical material pointer for identity id (0 = nil).
func Mat(id int) *modeling.Material {
	if id == 0 {
		return nil
	}
	if m, ok := matPtrs[id]; ok {
		return m
	}
	m := &modeling.Material{Name: "m" + strconv.Itoa(id)}
	matPtrs[id] = m
	return m
}

var matCopies = map[*modeling.Material]int{}

// MatId returns the identity of a material POINTER: the canonical pointer of
// identity id (project.Mat) projects to id; any other pointer whose value is
// named like identity id - a copy made by Mesh.SetMaterial or
// SplitOnUniqueMaterials, which store the address of a copied value - projects
// to id + 1000*k with a fresh k per pointer. polyform's split keys materials by
// pointer, so copies are different materials for it.
func MatId(m *modeling.Material) int {
	if m == nil {
		return 0
	}
	base := 98
	if len(m.Name) > 1 && m.Name[0] == 'm' {
		if v, err := strconv.Atoi(m.Name[1:]); err == nil {
			base = v
		}
	}
	if canon, ok := matPtrs[base]; ok && canon == m {
		return base
	}
	if id, ok := matCopies[m]; ok {
		return id
	}
	id := base + 1000*(len(matCopies)+1)
	matCopies[m] = id
	return id
}

// Mesh projects a real mesh through PUBLIC observers only.
func Mesh(m modeling.Mesh) PMesh {
	p := PMesh{Topo: TopoName(m.Topology()), Exact: true, Bx: true, Idx: []int{}, Attrs: []PAttr{}, Mats: []PMat{}}
	h := fnv.New64a()
	wr := func(u uint64) {
		var b [8]byte
		for i := 0; i < 8; i++ {
			b[i] = byte(u >> (8 * i))
		}
		h.Write(b[:])
	}
	idx := m.Indices()
	for i := 0; i < idx.Len(); i++ {
		p.Idx = append(p.Idx, idx.At(i))
		wr(uint64(idx.At(i)))
	}
	conv := func(vals ...float64) []int {
		out := make([]int, len(vals))
		for i, x := range vals {
			v, ok := Scaled(x)
			if !ok {
				p.Exact = false
			}
			if !ok || x*Q != float64(v) {
				p.Bx = false
			}
			out[i] = v
			wr(math.Float64bits(x))
		}
		return out
	}
	for _, name := range m.Float1Attributes() {
		it := m.Float1Attribute(name)
		a := PAttr{Ar: 1, Id: AttrId(name), Data: [][]int{}}
		for i := 0; i < it.Len(); i++ {
			a.Data = append(a.Data, conv(it.At(i)))
		}
		p.Attrs = append(p.Attrs, a)
	}
	for _, name := range m.Float2Attributes() {
		it := m.Float2Attribute(name)
		a := PAttr{Ar: 2, Id: AttrId(name), Data: [][]int{}}
		for i := 0; i < it.Len(); i++ {
			v := it.At(i)
			a.Data = append(a.Data, conv(v.X(), v.Y()))
		}
		p.Attrs = append(p.Attrs, a)
	}
	for _, name := range m.Float3Attributes() {
		it := m.Float3Attribute(name)
		a := PAttr{Ar: 3, Id: AttrId(name), Data: [][]int{}}
		for i := 0; i < it.Len(); i++ {
			v := it.At(i)
			a.Data = append(a.Data, conv(v.X(), v.Y(), v.Z()))
		}
		p.Attrs = append(p.Attrs, a)
	}
	for _, name := range m.Float4Attributes() {
		it := m.Float4Attribute(name)
		a := PAttr{Ar: 4, Id: AttrId(name), Data: [][]int{}}
		for i := 0; i < it.Len(); i++ {
			v := it.At(i)
			a.Data = append(a.Data, conv(v.X(), v.Y(), v.Z(), v.W()))
		}
		p.Attrs = append(p.Attrs, a)
	}
	sort.SliceStable(p.Attrs, func(i, j int) bool {
		return p.Attrs[i].Ar*100+p.Attrs[i].Id < p.Attrs[j].Ar*100+p.Attrs[j].Id
	})
	for _, a := range p.Attrs {
		wr(uint64(a.Ar*100 + a.Id))
	}
	for _, mm := range m.Materials() {
		p.Mats = append(p.Mats, PMat{N: mm.PrimitiveCount, M: MatId(mm.Material)})
		wr(uint64(mm.PrimitiveCount))
		wr(uint64(MatId(mm.Material)))
		// what the material says (a material is reported through a pointer: its content is part of what
		// the mesh reports, and nothing may edit it in place)
		if mat := mm.Material; mat != nil {
			h.Write([]byte(mat.Name))
			for _, c := range []color.Color{mat.AmbientColor, mat.DiffuseColor, mat.SpecularColor} {
				if c == nil {
					wr(1 << 40)
					continue
				}
				r, g, b, a := c.RGBA()
				wr(uint64(r)<<48 | uint64(g)<<32 | uint64(b)<<16 | uint64(a))
			}
			wr(math.Float64bits(mat.SpecularHighlight))
			wr(math.Float64bits(mat.OpticalDensity))
			wr(math.Float64bits(mat.Transparency))
			for _, t := range []*string{mat.ColorTextureURI, mat.NormalTextureURI, mat.SpecularTextureURI} {
				if t == nil {
					wr(2 << 40)
				} else {
					h.Write([]byte(*t))
				}
			}
		}
	}
	s := h.Sum64()
	p.Fp = []int{int(s & 0xFFFFF), int((s >> 20) & 0xFFFFF), int((s >> 40) & 0xFFFFF)}
	return p
}

// Build constructs a real mesh from an abstract one with public constructors.
func Build(p PMesh) modeling.Mesh {
	idx := make([]int, len(p.Idx))
	copy(idx, p.Idx)
	m := modeling.NewMesh(TopoOf(p.Topo), idx)
	for _, a := range p.Attrs {
		name := AttrName(a.Id)
		switch a.Ar {
		case 1:
			d := make([]float64, len(a.Data))
			for i, v := range a.Data {
				d[i] = Unscaled(v[0])
			}
			m = m.SetFloat1Attribute(name, d)
		case 2:
			d := make([]vector2.Float64, len(a.Data))
			for i, v := range a.Data {
				d[i] = vector2.New(Unscaled(v[0]), Unscaled(v[1]))
			}
			m = m.SetFloat2Attribute(name, d)
		case 3:
			d := make([]vector3.Float64, len(a.Data))
			for i, v := range a.Data {
				d[i] = vector3.New(Unscaled(v[0]), Unscaled(v[1]), Unscaled(v[2]))
			}
			m = m.SetFloat3Attribute(name, d)
		case 4:
			d := make([]vector4.Float64, len(a.Data))
			for i, v := range a.Data {
				d[i] = vector4.New(Unscaled(v[0]), Unscaled(v[1]), Unscaled(v[2]), Unscaled(v[3]))
			}
			m = m.SetFloat4Attribute(name, d)
		default:
			panic(fmt.Sprintf("bad arity %d", a.Ar))
		}
	}
	if len(p.Mats) > 0 {
		mats := make([]modeling.MeshMaterial, len(p.Mats))
		for i, mm := range p.Mats {
			mats[i] = modeling.MeshMaterial{PrimitiveCount: mm.N, Material: Mat(mm.M)}
		}
		m = m.SetMaterials(mats)
	}
	return m
}

func V3(v []int) vector3.Float64 {
	return vector3.New(Unscaled(v[0]), Unscaled(v[1]), Unscaled(v[2]))
}

func V3i(v []int) vector3.Float64 {
	return vector3.New(float64(v[0]), float64(v[1]), float64(v[2]))
}
