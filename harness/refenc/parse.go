package refenc

import (
	"bytes"
	"encoding/binary"
	"fmt"
	"strconv"
	"strings"
)

// SplatRecord is one 32 byte .splat record as raw fields (float32 bit
// patterns and bytes), parsed without any polyform code.
type SplatRecord struct {
	Pos   [3]uint32
	Scale [3]uint32
	RGBA  [4]byte
	Rot   [4]byte
}

// ParseSplat splits a .splat file into records; rest is the number of
// trailing bytes that do not form a record.
func ParseSplat(data []byte) (recs []SplatRecord, rest int) {
	for len(data) >= 32 {
		var r SplatRecord
		for c := 0; c < 3; c++ {
			r.Pos[c] = binary.LittleEndian.Uint32(data[4*c:])
			r.Scale[c] = binary.LittleEndian.Uint32(data[12+4*c:])
		}
		copy(r.RGBA[:], data[24:28])
		copy(r.Rot[:], data[28:32])
		recs = append(recs, r)
		data = data[32:]
	}
	return recs, len(data)
}

type PlyProp struct {
	Name string
	Type string // scalar type, "" for list properties
	List bool
}

type PlyElement struct {
	Name  string
	Count int
	Props []PlyProp
}

type PlyHeader struct {
	Format   string
	Elements []PlyElement
	BodyOff  int
}

// ParsePlyHeader reads a PLY header (independent of polyform's reader).
func ParsePlyHeader(data []byte) (PlyHeader, error) {
	var h PlyHeader
	end := bytes.Index(data, []byte("end_header\n"))
	if end < 0 {
		return h, fmt.Errorf("no end_header")
	}
	h.BodyOff = end + len("end_header\n")
	lines := strings.Split(string(data[:end]), "\n")
	if len(lines) == 0 || strings.TrimSpace(lines[0]) != "ply" {
		return h, fmt.Errorf("no ply magic")
	}
	for _, ln := range lines[1:] {
		f := strings.Fields(ln)
		if len(f) == 0 {
			continue
		}
		switch f[0] {
		case "format":
			if len(f) != 3 {
				return h, fmt.Errorf("bad format line")
			}
			h.Format = f[1]
		case "comment", "obj_info":
		case "element":
			if len(f) != 3 {
				return h, fmt.Errorf("bad element line")
			}
			n, err := strconv.Atoi(f[2])
			if err != nil {
				return h, err
			}
			h.Elements = append(h.Elements, PlyElement{Name: f[1], Count: n})
		case "property":
			if len(h.Elements) == 0 {
				return h, fmt.Errorf("property before element")
			}
			e := &h.Elements[len(h.Elements)-1]
			if len(f) == 5 && f[1] == "list" {
				e.Props = append(e.Props, PlyProp{Name: f[4], List: true})
			} else if len(f) == 3 {
				e.Props = append(e.Props, PlyProp{Name: f[2], Type: f[1]})
			} else {
				return h, fmt.Errorf("bad property line %q", ln)
			}
		default:
			return h, fmt.Errorf("unknown header line %q", ln)
		}
	}
	return h, nil
}

// PlyFloatColumns reads the first element of a binary little endian PLY
// whose properties are all 4 byte floats and returns, per property, the raw
// bit patterns of every row. ok is false when the element has another shape
// or the body is too short; bodyLen is the number of bytes after the header.
func PlyFloatColumns(data []byte, h PlyHeader) (cols [][]uint32, bodyLen int, ok bool) {
	bodyLen = len(data) - h.BodyOff
	if len(h.Elements) == 0 {
		return nil, bodyLen, false
	}
	e := h.Elements[0]
	for _, p := range e.Props {
		if p.List || (p.Type != "float" && p.Type != "float32") {
			return nil, bodyLen, false
		}
	}
	if bodyLen < e.Count*4*len(e.Props) {
		return nil, bodyLen, false
	}
	cols = make([][]uint32, len(e.Props))
	for j := range cols {
		cols[j] = make([]uint32, e.Count)
	}
	body := data[h.BodyOff:]
	for i := 0; i < e.Count; i++ {
		for j := range e.Props {
			cols[j][i] = binary.LittleEndian.Uint32(body[(i*len(e.Props)+j)*4:])
		}
	}
	return cols, bodyLen, true
}
