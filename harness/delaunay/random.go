package delaunay

import (
	"bufio"
	"encoding/json"
	"math/rand"
	"os"
)

func orient(a, b, c []int) int64 {
	return int64(b[0]-a[0])*int64(c[1]-a[1]) - int64(c[0]-a[0])*int64(b[1]-a[1])
}

func inCircle(a, b, c, p []int) int64 {
	ax, ay := int64(a[0]-p[0]), int64(a[1]-p[1])
	bx, by := int64(b[0]-p[0]), int64(b[1]-p[1])
	cx, cy := int64(c[0]-p[0]), int64(c[1]-p[1])
	return (ax*ax+ay*ay)*(bx*cy-cx*by) - (bx*bx+by*by)*(ax*cy-cx*ay) + (cx*cx+cy*cy)*(ax*by-bx*ay)
}

// extends: p keeps pts in general position. Used only to steer the generator
// towards inputs inside the property's antecedent; TLC evaluates
// GeneralPosition itself on every case.
func extends(pts [][]int, p []int) bool {
	for i := range pts {
		if pts[i][0] == p[0] && pts[i][1] == p[1] {
			return false
		}
		for j := i + 1; j < len(pts); j++ {
			if orient(pts[i], pts[j], p) == 0 {
				return false
			}
			for k := j + 1; k < len(pts); k++ {
				if inCircle(pts[i], pts[j], pts[k], p) == 0 {
					return false
				}
			}
		}
	}
	return true
}

func clamp(x int) int {
	if x < 0 {
		return 0
	}
	if x > 100 {
		return 100
	}
	return x
}

// GenRandom writes seeded point sets on the lattice 0..100: uniform,
// clustered, thin bands, very flat sets (aspect up to 100:1) and near-collinear convex hulls, at 3..maxn points,
// each as the identity or as a scaled/offset exact copy.
func GenRandom(out string, seed int64, n, maxn int) error {
	fo, err := os.Create(out)
	if err != nil {
		return err
	}
	defer fo.Close()
	w := bufio.NewWriterSize(fo, 1<<20)
	defer w.Flush()
	enc := json.NewEncoder(w)
	r := rand.New(rand.NewSource(seed))
	dists := []string{"uniform", "cluster", "band", "arc", "diagonal", "small", "flat"}
	sizes := []int{3, 4, 5, 6, 8, 10, 14, 20, maxn}
	for i := 0; i < n; i++ {
		dist := dists[r.Intn(len(dists))]
		want := sizes[r.Intn(len(sizes))]
		if want > maxn {
			want = maxn
		}
		filter := r.Intn(20) != 0 // a few sets are left as they come (possibly outside the antecedent)
		centers := [][]int{}
		for k := 0; k < 1+r.Intn(3); k++ {
			centers = append(centers, []int{10 + r.Intn(81), 10 + r.Intn(81)})
		}
		band := r.Intn(95)
		thin := 1 + r.Intn(2) // "flat": 1 or 2 lattice units across, 30..100 along: aspect ratios 15:1 .. 100:1
		long := 30 + r.Intn(71)
		along := r.Intn(101 - long)
		slope := 1 + r.Intn(3)
		draw := func() []int {
			switch dist {
			case "cluster":
				c := centers[r.Intn(len(centers))]
				return []int{clamp(c[0] + r.Intn(21) - 10), clamp(c[1] + r.Intn(21) - 10)}
			case "band": // thin horizontal or vertical band: a near-collinear hull
				if slope == 1 {
					return []int{r.Intn(101), band + r.Intn(4)}
				}
				return []int{band + r.Intn(4), r.Intn(101)}
			case "arc": // points close to a flat parabola: all of them on or near the hull
				x := r.Intn(101)
				y := (x - 50) * (x - 50) / (25 * slope)
				return []int{x, clamp(y + r.Intn(2))}
			case "diagonal":
				x := r.Intn(101)
				return []int{x, clamp(x/slope + r.Intn(5))}
			case "flat": // very flat (or tall) sets, left/bottom end included: at most two points per lattice row
				u := along + r.Intn(long+1)
				if r.Intn(4) == 0 {
					u = along + r.Intn(1+long/10)
				}
				if slope != 2 {
					return []int{u, band + r.Intn(thin+1)}
				}
				return []int{band + r.Intn(thin+1), u}
			case "small":
				return []int{r.Intn(8), r.Intn(8)}
			}
			return []int{r.Intn(101), r.Intn(101)}
		}
		pts := [][]int{}
		for tries := 0; len(pts) < want && tries < 400*want; tries++ {
			p := draw()
			if !filter || extends(pts, p) {
				pts = append(pts, p)
			}
		}
		if len(pts) < 3 {
			pts = [][]int{{0, 0}, {7, 1}, {2, 9}}
		}
		c := Case{Id: i, Tag: "random-" + dist, Pts: pts, J: []int{0, 0}, Mul: 1}
		// scales: half of them within 2^-14..2^6, where absolute constants of an
		// implementation meet the size of these sets, the rest up to 2^+-40
		scale := func(wide int) int {
			if r.Intn(2) == 0 {
				return r.Intn(21) - 14
			}
			return r.Intn(2*wide+1) - wide
		}
		switch r.Intn(7) {
		case 5, 6: // stretched copy: aspect ratio 2^a along one axis (circles become ellipses: a different triangulation)
			a := 1 + r.Intn(9)
			if r.Intn(2) == 0 {
				c.Ax = a
			} else {
				c.Ay = a
			}
			c.K = r.Intn(13) - 8
			c.Tag += "-stretched"
		case 0, 3: // scaled copy (odd multiplier: scales between the powers of two)
			c.K = scale(40)
			c.Mul = 1 + 2*r.Intn(32)
			c.Tag += "-scaled"
		case 1: // offset copy
			c.M = []int{0, 8, 16, 30, 40}[r.Intn(5)]
			c.J = []int{r.Intn(2001) - 1000, r.Intn(2001) - 1000}
			c.Tag += "-offset"
		case 2: // both
			c.K = scale(30)
			c.Mul = 1 + 2*r.Intn(16)
			c.M = []int{4, 12, 24, 36}[r.Intn(4)]
			c.J = []int{r.Intn(2001) - 1000, r.Intn(2001) - 1000}
			c.Tag += "-scaled-offset"
		}
		if err := enc.Encode(c); err != nil {
			return err
		}
	}
	return nil
}

// GenAspect writes the aspect-ratio ladder: sets whose bounding box is
// target:1 (wide) or 1:target (tall) for targets 1.5 .. maxAspect in steps of
// about 9%, `per` sets of 5..24 points for each. A set is drawn uniformly from
// a 100 x S lattice box (50 < S <= 100) and stretched by 2^a along its long
// side, so that 2^a * 100 / S is the target; a construction that sizes
// something by the width where the height was meant (or the reverse) shows in
// a window of aspect ratios only.
func GenAspect(out string, seed int64, per int, maxAspect float64) error {
	fo, err := os.Create(out)
	if err != nil {
		return err
	}
	defer fo.Close()
	w := bufio.NewWriterSize(fo, 1<<20)
	defer w.Flush()
	enc := json.NewEncoder(w)
	r := rand.New(rand.NewSource(seed))
	id := 0
	for target := 1.5; target <= maxAspect; target *= 1.09 {
		a := 0
		for float64(int(1)<<(a+1)) <= target {
			a++
		}
		short := int(100*float64(int(1)<<a)/target + 0.5)
		if a > 10 || short < 10 {
			break
		}
		for rep := 0; rep < 2*per; rep++ {
			wide := rep%2 == 0
			want := 5 + r.Intn(20)
			lo := r.Intn(101 - short)
			pts := [][]int{}
			for tries := 0; len(pts) < want && tries < 400*want; tries++ {
				u, v := r.Intn(101), lo+r.Intn(short+1)
				switch len(pts) { // the box is spanned: both ends of both sides are used
				case 0:
					u = 0
				case 1:
					u = 100
				case 2:
					v = lo
				case 3:
					v = lo + short
				}
				p := []int{u, v}
				if !wide {
					p = []int{v, u}
				}
				if extends(pts, p) {
					pts = append(pts, p)
				}
			}
			if len(pts) < 4 {
				continue
			}
			r.Shuffle(len(pts), func(i, j int) { pts[i], pts[j] = pts[j], pts[i] })
			c := Case{Id: id, Tag: "aspect-stretched", Pts: pts, J: []int{0, 0}, Mul: 1, K: r.Intn(9) - 6 - a/2}
			if wide {
				c.Ax = a
			} else {
				c.Ay = a
			}
			id++
			if err := enc.Encode(c); err != nil {
				return err
			}
		}
	}
	return nil
}
