// Package delaunay executes 2D triangulation cases (C20) on the real
// modeling/triangulation.BowyerWatson and projects the resulting mesh back to
// the integer lattice the case was drawn on. It decides nothing: orientation,
// overlap and in-circle tests are evaluated by TLC (specs/Delaunay.tla).
package delaunay

import (
	"bufio"
	"encoding/json"
	"fmt"
	"math"
	"os"
	"sync"
	"sync/atomic"

	"github.com/EliCDavis/polyform/modeling"
	"github.com/EliCDavis/polyform/modeling/triangulation"
	"github.com/EliCDavis/vector/vector2"
)

// Case: lattice points pts (0..100); the real input is the exact affine image
//
//	x = (lat + J*2^M) * Mul * 2^K        (Mul a small odd integer, default 1)
//
// (a scaled copy, offset by a large multiple of the spacing). Every such x is
// exactly representable (checked: the integer (lat + J*2^M)*Mul stays below
// 2^52), so the judged lattice coordinates are the true coordinates of the
// input up to that affine map, and dividing by Mul gives the lattice value
// back exactly (IEEE division is correctly rounded).
type Case struct {
	Id  int     `json:"id"`
	Tag string  `json:"tag,omitempty"`
	Pts [][]int `json:"pts"`
	K   int     `json:"k"`
	J   []int   `json:"j"`
	M   int     `json:"m"`
	Mul int     `json:"mul"`
	// anisotropic copy: x is stretched by 2^Ax, y by 2^Ay on top of the above (at most one of them > 0)
	Ax int `json:"ax"`
	Ay int `json:"ay"`
	// entry point: "" = BowyerWatson, "constrained" = ConstrainedBowyerWatson without constraints
	Entry string `json:"entry,omitempty"`
}

type line struct {
	K     string  `json:"k"`
	Case  int     `json:"case"`
	St    string  `json:"st"`
	N     int     `json:"n"`
	Pts   [][]int `json:"pts"`
	Pos   [][]int `json:"pos"`
	Flat  bool    `json:"flat"`
	Exact bool    `json:"exact"`
	Wf    bool    `json:"wf"`
	Tris  [][]int `json:"tris"`
	U     int     `json:"u"` // 4^Ax
	V     int     `json:"v"` // 4^Ay
}

func (c Case) to(lat, j, stretch int) (float64, error) {
	base := (float64(j)*math.Ldexp(1, c.M) + float64(lat)) * float64(c.Mul)
	if math.Abs(base) >= math.Ldexp(1, 52) {
		return 0, fmt.Errorf("offset %d*2^%d times %d leaves no room for the lattice", j, c.M, c.Mul)
	}
	return math.Ldexp(base, c.K+stretch), nil
}

// from maps a real coordinate back to the lattice; ok is false when it is not
// the exact image of an integer.
func (c Case) from(x float64, j, stretch int) (int, bool) {
	if math.IsNaN(x) || math.IsInf(x, 0) {
		return 0, false
	}
	lat := math.Ldexp(x, -c.K-stretch)/float64(c.Mul) - float64(j)*math.Ldexp(1, c.M)
	r := math.Round(lat)
	if r != lat || math.Abs(r) > 1e6 {
		return 0, false
	}
	back, err := c.to(int(r), j, stretch)
	return int(r), err == nil && back == x
}

func runOne(c Case) (line, error) {
	if len(c.J) != 2 {
		c.J = []int{0, 0}
	}
	if c.Mul == 0 {
		c.Mul = 1
	}
	if c.Entry != "" && c.Entry != "constrained" {
		return line{}, fmt.Errorf("unknown entry point %q", c.Entry)
	}
	if c.Ax < 0 || c.Ay < 0 || c.Ax > 10 || c.Ay > 10 || (c.Ax > 0 && c.Ay > 0) {
		return line{}, fmt.Errorf("stretch exponents %d, %d outside what the judge handles", c.Ax, c.Ay)
	}
	ln := line{K: "dt", U: 1 << (2 * c.Ax), V: 1 << (2 * c.Ay), Case: c.Id, N: len(c.Pts), Pts: c.Pts, Pos: [][]int{}, Tris: [][]int{}, Flat: true, Exact: true, Wf: true}
	in := make([]vector2.Float64, len(c.Pts))
	for i, p := range c.Pts {
		x, err := c.to(p[0], c.J[0], c.Ax)
		if err != nil {
			return ln, err
		}
		y, err := c.to(p[1], c.J[1], c.Ay)
		if err != nil {
			return ln, err
		}
		in[i] = vector2.New(x, y)
	}
	var mesh modeling.Mesh
	ln.St = "OK"
	func() {
		defer func() {
			if r := recover(); r != nil {
				ln.St = "FAIL"
			}
		}()
		// len == cap: the function appends its super-triangle to the slice it is given
		if c.Entry == "constrained" {
			mesh = triangulation.ConstrainedBowyerWatson(in[:len(in):len(in)], nil)
		} else {
			mesh = triangulation.BowyerWatson(in[:len(in):len(in)])
		}
	}()
	if ln.St != "OK" {
		return ln, nil
	}
	ln.Wf = mesh.Topology() == modeling.TriangleTopology && mesh.Indices().Len()%3 == 0 &&
		mesh.HasFloat3Attribute(modeling.PositionAttribute)
	if !ln.Wf {
		return ln, nil
	}
	pos := mesh.Float3Attribute(modeling.PositionAttribute)
	for i := 0; i < pos.Len(); i++ {
		p := pos.At(i)
		x, okx := c.from(p.X(), c.J[0], c.Ax)
		y, oky := c.from(p.Z(), c.J[1], c.Ay)
		if !okx || !oky {
			ln.Exact = false
		}
		if p.Y() != 0 {
			ln.Flat = false
		}
		ln.Pos = append(ln.Pos, []int{x, y})
	}
	idx := mesh.Indices()
	for i := 0; i+2 < idx.Len(); i += 3 {
		ln.Tris = append(ln.Tris, []int{idx.At(i) + 1, idx.At(i+1) + 1, idx.At(i+2) + 1})
	}
	return ln, nil
}

// Run executes every case of `in` and writes one trace line per case, in case
// order. With par > 1 the calls are made from par goroutines at the same time
// (each on its own private input): a triangulation is a function of its input,
// whatever else the process is doing.
func Run(in, out string, par int) error {
	fi, err := os.Open(in)
	if err != nil {
		return err
	}
	defer fi.Close()
	fo, err := os.Create(out)
	if err != nil {
		return err
	}
	defer fo.Close()
	w := bufio.NewWriterSize(fo, 1<<20)
	defer w.Flush()
	enc := json.NewEncoder(w)
	sc := bufio.NewScanner(fi)
	sc.Buffer(make([]byte, 1<<20), 1<<28)
	cases := []Case{}
	for sc.Scan() {
		if len(sc.Bytes()) == 0 {
			continue
		}
		var c Case
		if err := json.Unmarshal(sc.Bytes(), &c); err != nil {
			return fmt.Errorf("case %d: %w", len(cases), err)
		}
		cases = append(cases, c)
	}
	if err := sc.Err(); err != nil {
		return err
	}
	lines := make([]line, len(cases))
	errs := make([]error, len(cases))
	if par <= 1 {
		for n, c := range cases {
			lines[n], errs[n] = runOne(c)
		}
	} else {
		var wg sync.WaitGroup
		next := int64(-1)
		for g := 0; g < par; g++ {
			wg.Add(1)
			go func() {
				defer wg.Done()
				for {
					n := int(atomic.AddInt64(&next, 1))
					if n >= len(cases) {
						return
					}
					lines[n], errs[n] = runOne(cases[n])
				}
			}()
		}
		wg.Wait()
	}
	for n := range cases {
		if errs[n] != nil {
			return fmt.Errorf("case %d: %w", n, errs[n])
		}
		if err := enc.Encode(lines[n]); err != nil {
			return err
		}
	}
	return nil
}
