package parfam

import (
	"bufio"
	"encoding/json"
	"fmt"
	"os"
)

// Writer writes one JSON value per line and flushes after every line, so the
// trace is complete up to the last event if a goroutine of the code under
// test crashes the process.
type Writer struct {
	w   *bufio.Writer
	enc *json.Encoder
}

func (w *Writer) Encode(v any) {
	_ = w.enc.Encode(v)
	_ = w.w.Flush()
}

// RunCases executes the cases of `in` (ndjson), skipping the first `skip`,
// and appends the observed trace to `out`. Before a case starts a marker line
// "CASE <id>" goes to stderr (unbuffered) so that reports of the race
// detector can be attributed to cases. Exit status 4 (via the returned
// error) tells the caller that a case timed out and the process must be
// restarted after it.
func RunCases(in, out string, skip int) error {
	fi, err := os.Open(in)
	if err != nil {
		return err
	}
	defer fi.Close()
	fo, err := os.OpenFile(out, os.O_CREATE|os.O_WRONLY|os.O_APPEND, 0o644)
	if err != nil {
		return err
	}
	defer fo.Close()
	bw := bufio.NewWriterSize(fo, 1<<20)
	w := &Writer{w: bw, enc: json.NewEncoder(bw)}
	sc := bufio.NewScanner(fi)
	sc.Buffer(make([]byte, 1<<20), 1<<28)
	k := 0
	for sc.Scan() {
		if len(sc.Bytes()) == 0 {
			continue
		}
		k++
		if k <= skip {
			continue
		}
		raw := append(json.RawMessage{}, sc.Bytes()...)
		var c Case
		if err := json.Unmarshal(raw, &c); err != nil {
			return fmt.Errorf("case %d: %w", k, err)
		}
		fmt.Fprintf(os.Stderr, "CASE %d\n", c.Id)
		ok := true
		switch c.Kind {
		case "scan":
			ok = runScan(w, c, raw)
		case "field":
			ok = runField(w, c, raw)
		default:
			return fmt.Errorf("case %d: unknown kind %q", k, c.Kind)
		}
		if !ok {
			fmt.Fprintf(os.Stderr, "TIMEOUT-IN-CASE %d\n", c.Id)
			os.Exit(4)
		}
	}
	fmt.Fprintf(os.Stderr, "CASE -1\n")
	return sc.Err()
}
