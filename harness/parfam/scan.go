package parfam

import (
	"encoding/json"
	"fmt"
	"math"
	"runtime"
	"sync"
	"sync/atomic"
	"time"

	"github.com/EliCDavis/polyform/modeling"
	"github.com/EliCDavis/vector/vector2"
	"github.com/EliCDavis/vector/vector3"
	"verifharness/project"
)

// Case is one generated input: a scan/modify call (kind "scan") or a field
// accumulation + marching scenario (kind "field").
type Case struct {
	Kind string `json:"kind"`
	Id   int    `json:"id"`

	// ---- scan ----
	Variant string  `json:"variant"` // ScanF1 ScanF2 ScanF3 ModF1 ModF2 ModF3 Prim
	DefPool bool    `json:"defpool"` // call the variant without WithPoolSize (runtime.NumCPU workers)
	Topo    string  `json:"topo"`    // Prim: topology of the mesh
	Idx     []int   `json:"idx"`     // Prim: index buffer
	In      [][]int `json:"in"`      // element values (attribute variants) / vertex positions (Prim)
	N       int     `json:"n"`
	W       int     `json:"w"`
	Fa      int     `json:"fa"`
	Fb      int     `json:"fb"`
	Gated   bool    `json:"gated"`
	Prio    []int   `json:"prio"`  // release order over keys (priority list)
	Hint    []int   `json:"hint"`  // expected number of blocked callbacks per release
	Seed    int64   `json:"seed"`  // perturbation seed of ungated runs
	Procs   int     `json:"procs"` // GOMAXPROCS for the parallel call (0: leave)

	// ---- field ----
	Api        string      `json:"api"` // AddFieldParallel | AddFieldParallel2
	Cpu        int         `json:"cpu"` // cubesPerUnit
	Fields     []FieldSpec `json:"fields"`
	Cuts2      []int       `json:"cuts2"`      // 2*cutoff for every marching comparison
	March      bool        `json:"march"`      // also compare March / MarchParallel results
	MAttrs     []int       `json:"mattrs"`     // attribute ids to march on
	Reps       []int       `json:"reps"`       // GOMAXPROCS values of the repeated MarchParallel runs
	NoSeq      bool        `json:"noseq"`      // race runs: skip the sequential reference
	Bits       bool        `json:"bits"`       // log triangle corners as IEEE bit patterns (real-valued fields)
	MarchEvery bool        `json:"marchevery"` // march after every field, not only after the last
}

const scanAttr = "attr20"

type evLog struct {
	mu  sync.Mutex
	ev  [][]int
	seq []int64
	ctr atomic.Int64
}

func (l *evLog) add(i int, v []int) {
	s := l.ctr.Add(1)
	l.mu.Lock()
	l.ev = append(l.ev, append([]int{i}, v...))
	l.seq = append(l.seq, s)
	l.mu.Unlock()
}

func ival(x float64) (int, bool) {
	if math.IsNaN(x) || math.IsInf(x, 0) || math.Abs(x) > 1e8 {
		return 0, false
	}
	r := math.Round(x)
	return int(r), r == x
}

type exact struct{ ok atomic.Bool }

func (e *exact) conv(xs ...float64) []int {
	out := make([]int, len(xs))
	for k, x := range xs {
		v, ok := ival(x)
		if !ok {
			e.ok.Store(false)
		}
		out[k] = v
	}
	return out
}

// primValue projects a primitive through its public interface: the bounding
// box of its positions. A panic of the primitive (e.g. an index outside the
// mesh) is an observation: the empty value.
func primValue(e *exact, p modeling.Primitive) (v []int) {
	defer func() {
		if r := recover(); r != nil {
			v = []int{}
		}
	}()
	bb := p.BoundingBox(modeling.PositionAttribute)
	mn, mx := bb.Min(), bb.Max()
	return e.conv(mn.X(), mn.Y(), mn.Z(), mx.X(), mx.Y(), mx.Z())
}

func fmod(c Case, i int, v []float64) []float64 {
	out := make([]float64, len(v))
	for k := range v {
		out[k] = float64(c.Fa)*v[k] + float64(c.Fb)*float64(i+1) + float64(k+1)
	}
	return out
}

func perturb(seed int64, i int) {
	h := uint64(seed)*0x9E3779B97F4A7C15 + uint64(i+1)*0xBF58476D1CE4E5B9
	h ^= h >> 29
	h *= 0x94D049BB133111EB
	h ^= h >> 32
	switch h % 8 {
	case 4, 5:
		runtime.Gosched()
	case 6:
		t := time.Now()
		for time.Since(t) < time.Duration(1+h%7)*time.Microsecond {
		}
	case 7:
		time.Sleep(time.Duration(5+h%40) * time.Microsecond)
	}
}

func buildScanMesh(c Case) modeling.Mesh {
	if c.Variant == "Prim" {
		idx := append([]int{}, c.Idx...)
		pos := make([]vector3.Float64, len(c.In))
		for i, v := range c.In {
			pos[i] = project.V3i(v)
		}
		return modeling.NewMesh(project.TopoOf(c.Topo), idx).SetFloat3Attribute(modeling.PositionAttribute, pos)
	}
	idx := make([]int, len(c.In))
	for i := range idx {
		idx[i] = i
	}
	m := modeling.NewMesh(modeling.PointTopology, idx)
	switch c.Variant {
	case "ScanF1", "ModF1":
		d := make([]float64, len(c.In))
		for i, v := range c.In {
			d[i] = float64(v[0])
		}
		return m.SetFloat1Attribute(scanAttr, d)
	case "ScanF2", "ModF2":
		d := make([]vector2.Float64, len(c.In))
		for i, v := range c.In {
			d[i] = vector2.New(float64(v[0]), float64(v[1]))
		}
		return m.SetFloat2Attribute(scanAttr, d)
	case "ScanF3", "ModF3":
		d := make([]vector3.Float64, len(c.In))
		for i, v := range c.In {
			d[i] = project.V3i(v)
		}
		return m.SetFloat3Attribute(scanAttr, d)
	}
	panic("unknown variant " + c.Variant)
}

// readAttr reads the scanned attribute back through public observers.
func readAttr(e *exact, c Case, m modeling.Mesh) (out [][]int) {
	out = [][]int{}
	defer func() {
		if r := recover(); r != nil {
			out = [][]int{}
		}
	}()
	switch c.Variant {
	case "ScanF1", "ModF1":
		it := m.Float1Attribute(scanAttr)
		for i := 0; i < it.Len(); i++ {
			out = append(out, e.conv(it.At(i)))
		}
	case "ScanF2", "ModF2":
		it := m.Float2Attribute(scanAttr)
		for i := 0; i < it.Len(); i++ {
			v := it.At(i)
			out = append(out, e.conv(v.X(), v.Y()))
		}
	case "ScanF3", "ModF3":
		it := m.Float3Attribute(scanAttr)
		for i := 0; i < it.Len(); i++ {
			v := it.At(i)
			out = append(out, e.conv(v.X(), v.Y(), v.Z()))
		}
	case "Prim":
		it := m.Float3Attribute(modeling.PositionAttribute)
		for i := 0; i < it.Len(); i++ {
			v := it.At(i)
			out = append(out, e.conv(v.X(), v.Y(), v.Z()))
		}
	}
	return out
}

// invoke calls the sequential (par=false) or the parallel variant with a
// callback that reports (i, projected value) to `visit` and, for Modify
// variants, returns the case's function of (i, value).
func invoke(c Case, m modeling.Mesh, par bool, e *exact, visit func(i int, v []int)) modeling.Mesh {
	f1 := func(i int, v float64) { visit(i, e.conv(v)) }
	f2 := func(i int, v vector2.Float64) { visit(i, e.conv(v.X(), v.Y())) }
	f3 := func(i int, v vector3.Float64) { visit(i, e.conv(v.X(), v.Y(), v.Z())) }
	m1 := func(i int, v float64) float64 {
		visit(i, e.conv(v))
		return fmod(c, i, []float64{v})[0]
	}
	m2 := func(i int, v vector2.Float64) vector2.Float64 {
		visit(i, e.conv(v.X(), v.Y()))
		r := fmod(c, i, []float64{v.X(), v.Y()})
		return vector2.New(r[0], r[1])
	}
	m3 := func(i int, v vector3.Float64) vector3.Float64 {
		visit(i, e.conv(v.X(), v.Y(), v.Z()))
		r := fmod(c, i, []float64{v.X(), v.Y(), v.Z()})
		return vector3.New(r[0], r[1], r[2])
	}
	fp := func(i int, p modeling.Primitive) { visit(i, primValue(e, p)) }
	if !par {
		switch c.Variant {
		case "ScanF1":
			return m.ScanFloat1Attribute(scanAttr, f1)
		case "ScanF2":
			return m.ScanFloat2Attribute(scanAttr, f2)
		case "ScanF3":
			return m.ScanFloat3Attribute(scanAttr, f3)
		case "ModF1":
			return m.ModifyFloat1Attribute(scanAttr, m1)
		case "ModF2":
			return m.ModifyFloat2Attribute(scanAttr, m2)
		case "ModF3":
			return m.ModifyFloat3Attribute(scanAttr, m3)
		case "Prim":
			return m.ScanPrimitives(fp)
		}
		panic("unknown variant " + c.Variant)
	}
	if c.DefPool {
		switch c.Variant {
		case "ScanF1":
			return m.ScanFloat1AttributeParallel(scanAttr, f1)
		case "ScanF2":
			return m.ScanFloat2AttributeParallel(scanAttr, f2)
		case "ScanF3":
			return m.ScanFloat3AttributeParallel(scanAttr, f3)
		case "ModF1":
			return m.ModifyFloat1AttributeParallel(scanAttr, m1)
		case "ModF2":
			return m.ModifyFloat2AttributeParallel(scanAttr, m2)
		case "ModF3":
			return m.ModifyFloat3AttributeParallel(scanAttr, m3)
		case "Prim":
			return m.ScanPrimitivesParallel(fp)
		}
		panic("unknown variant " + c.Variant)
	}
	switch c.Variant {
	case "ScanF1":
		return m.ScanFloat1AttributeParallelWithPoolSize(scanAttr, c.W, f1)
	case "ScanF2":
		return m.ScanFloat2AttributeParallelWithPoolSize(scanAttr, c.W, f2)
	case "ScanF3":
		return m.ScanFloat3AttributeParallelWithPoolSize(scanAttr, c.W, f3)
	case "ModF1":
		return m.ModifyFloat1AttributeParallelWithPoolSize(scanAttr, c.W, m1)
	case "ModF2":
		return m.ModifyFloat2AttributeParallelWithPoolSize(scanAttr, c.W, m2)
	case "ModF3":
		return m.ModifyFloat3AttributeParallelWithPoolSize(scanAttr, c.W, m3)
	case "Prim":
		return m.ScanPrimitivesParallelWithPoolSize(c.W, fp)
	}
	panic("unknown variant " + c.Variant)
}

type caseLine struct {
	K      string          `json:"k"`
	C      json.RawMessage `json:"c"`
	NumCPU int             `json:"numcpu"`
}

type seqLine struct {
	K   string  `json:"k"`
	Ev  [][]int `json:"ev"`
	Out [][]int `json:"out"`
	St  string  `json:"st"`
	Ex  bool    `json:"ex"`
}

type visitLine struct {
	K    string `json:"k"`
	S    int    `json:"s"`
	I    int    `json:"i"`
	V    []int  `json:"v"`
	Late bool   `json:"late"`
}

type doneLine struct {
	K   string  `json:"k"`
	Out [][]int `json:"out"`
	Src [][]int `json:"src"`
	St  string  `json:"st"`
	Ex  bool    `json:"ex"`
}

type runLine struct {
	K    string  `json:"k"`
	Ev   [][]int `json:"ev"`
	Late int     `json:"late"` // events stamped after the call had returned
	Out  [][]int `json:"out"`
	Src  [][]int `json:"src"`
	St   string  `json:"st"`
	Ex   bool    `json:"ex"`
}

const caseLimit = 10 * time.Second

// guarded runs call() on its own goroutine; a panic of the calling goroutine
// is the observation "FAIL". done is closed when the call is over.
func guarded(call func()) (done chan struct{}, status *string) {
	done = make(chan struct{})
	st := "OK"
	status = &st
	go func() {
		defer func() {
			if r := recover(); r != nil {
				st = "FAIL"
			}
			close(done)
		}()
		call()
	}()
	return done, status
}

// runScan executes one scan case: the sequential counterpart first, then the
// parallel variant (gated by the case's schedule, or free-running with seeded
// perturbation). Returns false when the process must not continue (timeout
// with goroutines left behind).
func runScan(out *Writer, c Case, raw json.RawMessage) bool {
	out.Encode(caseLine{K: "case", C: raw, NumCPU: runtime.NumCPU()})
	ex := &exact{}
	ex.ok.Store(true)

	// ---- sequential counterpart (reference) ----
	if !c.NoSeq {
		m := buildScanMesh(c)
		sl := &evLog{}
		var res modeling.Mesh
		done, st := guarded(func() { res = invoke(c, m, false, ex, func(i int, v []int) { sl.add(i, v) }) })
		<-done
		line := seqLine{K: "seq", Ev: sl.ev, Out: [][]int{}, St: *st, Ex: true}
		if line.Ev == nil {
			line.Ev = [][]int{}
		}
		if *st == "OK" {
			line.Out = readAttr(ex, c, res)
		}
		line.Ex = ex.ok.Load()
		out.Encode(line)
	}

	// ---- parallel variant ----
	ex = &exact{}
	ex.ok.Store(true)
	m := buildScanMesh(c)
	if c.Procs > 0 {
		old := runtime.GOMAXPROCS(c.Procs)
		defer runtime.GOMAXPROCS(old)
	}
	var res modeling.Mesh
	if c.Gated {
		g := &Gate{}
		rank := map[int]int{}
		for r, k := range c.Prio {
			if _, ok := rank[k]; !ok {
				rank[k] = r
			}
		}
		done, st := guarded(func() { res = invoke(c, m, true, ex, func(i int, v []int) { g.Enter(i, v) }) })
		s := 0
		status := g.Drive(done, func(k int) int {
			if r, ok := rank[k]; ok {
				return r
			}
			return 1 << 30
		}, c.Hint, caseLimit, func(key int, val []int, late bool) {
			s++
			out.Encode(visitLine{K: "visit", S: s, I: key, V: val, Late: late})
		})
		line := doneLine{K: "done", Out: [][]int{}, Src: [][]int{}, St: status, Ex: true}
		if status == "TIMEOUT" {
			out.Encode(line)
			return false
		}
		line.St = *st
		if *st == "OK" {
			line.Out = readAttr(ex, c, res)
		}
		line.Src = readAttr(ex, c, m)
		line.Ex = ex.ok.Load()
		out.Encode(line)
		return true
	}
	pl := &evLog{}
	done, st := guarded(func() {
		res = invoke(c, m, true, ex, func(i int, v []int) {
			pl.add(i, v)
			perturb(c.Seed, i)
		})
	})
	select {
	case <-done:
	case <-time.After(caseLimit):
		out.Encode(runLine{K: "run", Ev: [][]int{}, Out: [][]int{}, Src: [][]int{}, St: "TIMEOUT", Ex: true})
		return false
	}
	ret := pl.ctr.Add(1)
	time.Sleep(settleDone)
	pl.mu.Lock()
	line := runLine{K: "run", Ev: append([][]int{}, pl.ev...), Out: [][]int{}, Src: [][]int{}, St: *st, Ex: true}
	for _, s := range pl.seq {
		if s > ret {
			line.Late++
		}
	}
	pl.mu.Unlock()
	if *st == "OK" {
		line.Out = readAttr(ex, c, res)
	}
	line.Src = readAttr(ex, c, m)
	line.Ex = ex.ok.Load()
	out.Encode(line)
	return true
}

func (c Case) String() string { return fmt.Sprintf("%s#%d", c.Kind, c.Id) }
