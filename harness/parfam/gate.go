// Package parfam executes the parallel entry points of polyform (C10) under
// schedules chosen by the TLA+ generators and projects what happened into
// ndjson traces. It contains no property logic: every judgement is made by
// TLC on specs/TracePar.tla.
package parfam

import (
	"runtime"
	"sync"
	"sync/atomic"
	"time"
)

// A waiter is one callback invocation of the code under test that is blocked
// inside the harness callback until the controller releases it.
type waiter struct {
	key int   // element index (scans) or job id (fields)
	val []int // projected value the callback received
	ch  chan struct{}
}

// Gate turns user callbacks into scheduling points. Invocations block in
// Enter; Drive (the controller) waits until the goroutines of the code under
// test are quiescent and releases exactly one blocked invocation at a time, so
// the order of the callback bodies is the order the controller chooses.
type Gate struct {
	mu       sync.Mutex
	waiting  []*waiter
	activity atomic.Int64
}

// Enter blocks the calling goroutine until the controller releases it.
func (g *Gate) Enter(key int, val []int) {
	w := &waiter{key: key, val: val, ch: make(chan struct{})}
	g.mu.Lock()
	g.waiting = append(g.waiting, w)
	g.mu.Unlock()
	g.activity.Add(1)
	<-w.ch
}

// Touch tells the controller that the code under test is making progress
// (used by callbacks that do not block).
func (g *Gate) Touch() { g.activity.Add(1) }

func (g *Gate) nWaiting() int {
	g.mu.Lock()
	n := len(g.waiting)
	g.mu.Unlock()
	return n
}

const (
	stableNoHint = 400 * time.Microsecond
	stableHint   = 4 * time.Millisecond
	settleDone   = 300 * time.Microsecond
)

// waitQuiescent returns (finished, timedOut). It returns when the call has
// returned (finished) or when at least one invocation is blocked and either
// `hint` invocations are blocked or nothing moved for a while.
func (g *Gate) waitQuiescent(done <-chan struct{}, hint int, deadline time.Time) (bool, bool) {
	last := g.activity.Load()
	lastN := -1
	since := time.Now()
	spins := 0
	for {
		select {
		case <-done:
			// the call returned: give stragglers (callbacks still running
			// after the return) a moment to show up
			time.Sleep(settleDone)
			return true, false
		default:
		}
		n := g.nWaiting()
		a := g.activity.Load()
		now := time.Now()
		if a != last || n != lastN {
			last, lastN, since = a, n, now
		}
		if n > 0 {
			if hint > 0 && n >= hint {
				return false, false
			}
			lim := stableNoHint
			if hint > 0 {
				lim = stableHint
			}
			if now.Sub(since) > lim {
				return false, false
			}
		}
		if now.After(deadline) {
			return false, true
		}
		spins++
		if spins%64 == 0 {
			time.Sleep(20 * time.Microsecond)
		} else {
			runtime.Gosched()
		}
	}
}

// Drive releases blocked invocations one at a time until the call has
// returned and nothing is blocked any more. rank gives the priority of a key
// (lower first); hints[k] is the number of invocations the generator's model
// expects to be blocked before the k-th release (0: unknown). emit is called,
// on the controller goroutine, for every release in release order; late tells
// that the call had already returned. Returns "OK" or "TIMEOUT".
func (g *Gate) Drive(done <-chan struct{}, rank func(key int) int, hints []int, limit time.Duration,
	emit func(key int, val []int, late bool)) string {
	deadline := time.Now().Add(limit)
	step := 0
	for {
		hint := 0
		if step < len(hints) {
			hint = hints[step]
		}
		finished, timedOut := g.waitQuiescent(done, hint, deadline)
		if timedOut {
			return "TIMEOUT"
		}
		g.mu.Lock()
		best := -1
		for k, w := range g.waiting {
			if best < 0 {
				best = k
				continue
			}
			b := g.waiting[best]
			rw, rb := rank(w.key), rank(b.key)
			if rw < rb || (rw == rb && w.key < b.key) {
				best = k
			}
		}
		var w *waiter
		if best >= 0 {
			w = g.waiting[best]
			g.waiting = append(g.waiting[:best], g.waiting[best+1:]...)
		}
		g.mu.Unlock()
		if w == nil {
			if finished {
				return "OK"
			}
			continue
		}
		emit(w.key, w.val, finished)
		close(w.ch)
		step++
	}
}

// ReleaseAll unblocks everything (after a timeout, so leaked goroutines end).
func (g *Gate) ReleaseAll() {
	g.mu.Lock()
	for _, w := range g.waiting {
		close(w.ch)
	}
	g.waiting = nil
	g.mu.Unlock()
}
