package parfam

import (
	"encoding/json"
	"math"
	"runtime"
	"sort"
	"sync"
	"sync/atomic"
	"time"

	"github.com/EliCDavis/polyform/math/geometry"
	"github.com/EliCDavis/polyform/math/sample"
	"github.com/EliCDavis/polyform/modeling"
	"github.com/EliCDavis/polyform/modeling/marching"
	"github.com/EliCDavis/vector/vector3"
)

// FieldSpec describes one lattice field: a quantised ball (or, with Axis set,
// a quantised cylinder along that axis which the domain cuts off at both ends),
// values in {-2,-1,1,2}, evaluated with integer arithmetic on cell coordinates.
// Kinds "real" and "ring" have real (irrational) values: the true distance to
// the ball / cylinder, or to a shell / tube wall around it.
type FieldSpec struct {
	Lo    [3]int `json:"lo"` // domain box in cells (world = cells / cubesPerUnit)
	Hi    [3]int `json:"hi"`
	Attrs []int  `json:"attrs"` // attribute ids (1 = position)
	C2    [3]int `json:"c2"`    // 2 * centre, in cells
	R2    int    `json:"r2"`    // 2 * radius, in cells
	Axis  int    `json:"axis"`  // 0: ball; 1,2,3: cylinder along x,y,z
	Kind  string `json:"fkind"` // "" lattice values | "real" | "ring"
	Api   string `json:"api"`   // entry point used on the parallel canvas ("" = the case's)
	// kind "orth" (lattice values): an orthant solid / plate positioned relative to block seams. The
	// axes in Mask (bit k = axis k) constrain; along such an axis the signed distance in half cells is
	// d = Sgn*(2*p - C2) (C2 odd: the surface lies between two sample layers); the solid is where the
	// least d is positive and, when R2 > 0, less than R2 (a plate R2/2 cells thick).
	Mask int `json:"mask"`
	Sgn  int `json:"sgn"`
	// kinds "union" / "msline" (real values): fields of the marching package whose sampling closure has
	// shared internal structure (an octree over the parts). Shapes, in cells:
	//   [0, cx,cy,cz, r] sphere   [1, cx,cy,cz, sx,sy,sz] box   [2, x0,y0,z0, x1,y1,z1, r] line
	// "union": marching.CombineFields of the shapes; "msline": marching.MultiSegmentLine through the
	// points [3, x,y,z].. with radius R2/2. The domain is the box Lo..Hi (contains every part).
	Shapes [][]int `json:"shapes"`
}

// TriScale: triangle corners are logged in units of 1/TriScale cell. With
// sample values that are sums of at most two fields (|v| <= 4) and
// half-integer cutoffs every interpolation parameter has a denominator that
// divides 1680, so corners are integers in this unit.
const TriScale = 1680

const sectionCells = 100 // block edge of the canvas (used for scheduling keys only)

func attrName(id int) string {
	if id == 1 {
		return modeling.PositionAttribute
	}
	return "attr" + string(rune('0'+id/10)) + string(rune('0'+id%10))
}

func fieldValue(fs FieldSpec, rank int, x, y, z int) float64 {
	dx := 2*x - fs.C2[0] - 4*rank
	dy := 2*y - fs.C2[1]
	dz := 2*z - fs.C2[2] - 2*rank
	switch fs.Axis {
	case 1:
		dx = 0
	case 2:
		dy = 0
	case 3:
		dz = 0
	}
	d2 := dx*dx + dy*dy + dz*dz
	r := fs.R2
	if fs.Kind == "orth" {
		first := true
		d := 0
		for k, dk := range [3]int{2*x - fs.C2[0], 2*y - fs.C2[1], 2*z - fs.C2[2]} {
			if fs.Mask&(1<<k) == 0 {
				continue
			}
			if fs.Sgn < 0 {
				dk = -dk
			}
			if first || dk < d {
				d, first = dk, false
			}
		}
		if r > 0 && r-d < d {
			d = r - d
		}
		switch {
		case d >= 3:
			return -2
		case d >= 1:
			return -1
		case d >= -1:
			return 1
		}
		return 2
	}
	switch fs.Kind {
	case "real": // the true distance to the ball / cylinder
		return (math.Sqrt(float64(d2)) - float64(r)) / 2
	case "ring": // a shell / tube wall, 3 cells thick, around radius r
		return (math.Abs(math.Sqrt(float64(d2))-float64(r)) - 3) / 2
	}
	switch {
	case r >= 2 && d2 < (r-2)*(r-2):
		return -2
	case d2 < r*r:
		return -1
	case d2 < (r+2)*(r+2):
		return 1
	}
	return 2
}

// sampleLog counts how often the field function of every attribute was
// evaluated at every lattice point. Points inside the expected neighbourhood of
// the domain are counted in a dense array (lock free: a field covering a whole
// block is evaluated 10^6 times), anything else in a map.
type denseBox struct {
	lo, n [3]int
	cnt   []int32
}

type sampleLog struct {
	mu       sync.Mutex
	counts   map[[4]int]int
	dense    map[int]*denseBox // by attribute id; fixed before the call starts
	returned atomic.Bool       // the judged call has returned
	late     atomic.Int64      // evaluations that started after it had returned
	offLat   atomic.Bool
}

const denseLimit = 1 << 23

func newSampleLog(fs FieldSpec) *sampleLog {
	l := &sampleLog{counts: map[[4]int]int{}, dense: map[int]*denseBox{}}
	var d denseBox
	vol := 1
	for k := 0; k < 3; k++ {
		d.lo[k] = fs.Lo[k] - 4
		d.n[k] = fs.Hi[k] - fs.Lo[k] + 9
		if d.n[k] < 1 {
			return l
		}
		vol *= d.n[k]
		if vol > denseLimit {
			return l
		}
	}
	for _, id := range fs.Attrs {
		b := d
		b.cnt = make([]int32, vol)
		l.dense[id] = &b
	}
	return l
}

func (l *sampleLog) add(attr, x, y, z int) {
	if l.returned.Load() {
		l.late.Add(1)
	}
	if d := l.dense[attr]; d != nil {
		i, j, k := x-d.lo[0], y-d.lo[1], z-d.lo[2]
		if i >= 0 && i < d.n[0] && j >= 0 && j < d.n[1] && k >= 0 && k < d.n[2] {
			atomic.AddInt32(&d.cnt[(k*d.n[1]+j)*d.n[0]+i], 1)
			return
		}
	}
	l.mu.Lock()
	l.counts[[4]int{attr, x, y, z}]++
	l.mu.Unlock()
}

// boxes is the canonical, lossless encoding of the multiset of evaluated
// lattice points: <<attr, x0, x1, y0, y1, z0, z1, count>> (inclusive bounds)
// in lexicographic order. It is a function of the multiset alone: maximal runs
// of equal count along x; a run that recurs identically in consecutive rows y
// becomes a rectangle; a rectangle that recurs identically in consecutive
// slices z becomes a box. The multiset is the disjoint union of the boxes.
func (l *sampleLog) boxes() [][]int {
	l.mu.Lock()
	defer l.mu.Unlock()
	type run struct{ a, z, y, x0, x1, c int }
	runs := []run{}
	for id, d := range l.dense {
		for k := 0; k < d.n[2]; k++ {
			for j := 0; j < d.n[1]; j++ {
				row := d.cnt[(k*d.n[1]+j)*d.n[0] : (k*d.n[1]+j+1)*d.n[0]]
				for i := 0; i < len(row); {
					c := int(atomic.LoadInt32(&row[i]))
					e := i + 1
					for e < len(row) && int(atomic.LoadInt32(&row[e])) == c {
						e++
					}
					if c != 0 {
						runs = append(runs, run{id, d.lo[2] + k, d.lo[1] + j, d.lo[0] + i, d.lo[0] + e - 1, c})
					}
					i = e
				}
			}
		}
	}
	for p, c := range l.counts {
		runs = append(runs, run{p[0], p[3], p[2], p[1], p[1], c})
	}
	sort.Slice(runs, func(i, j int) bool {
		a, b := runs[i], runs[j]
		if a.a != b.a {
			return a.a < b.a
		}
		if a.z != b.z {
			return a.z < b.z
		}
		if a.y != b.y {
			return a.y < b.y
		}
		return a.x0 < b.x0
	})
	// maximal runs along x (a dense run and a map point may touch)
	mr := runs[:0]
	for _, r := range runs {
		if n := len(mr); n > 0 && mr[n-1].a == r.a && mr[n-1].z == r.z && mr[n-1].y == r.y && mr[n-1].c == r.c && mr[n-1].x1+1 == r.x0 {
			mr[n-1].x1 = r.x1
			continue
		}
		mr = append(mr, r)
	}
	// rectangles: identical runs in consecutive rows of one slice
	type rect struct{ a, z, x0, x1, y0, y1, c int }
	rects := []rect{}
	open := map[[5]int]int{}
	for _, r := range mr {
		key := [5]int{r.a, r.z, r.x0, r.x1, r.c}
		if p, ok := open[key]; ok && rects[p].y1+1 == r.y {
			rects[p].y1 = r.y
			continue
		}
		open[key] = len(rects)
		rects = append(rects, rect{r.a, r.z, r.x0, r.x1, r.y, r.y, r.c})
	}
	sort.SliceStable(rects, func(i, j int) bool {
		if rects[i].a != rects[j].a {
			return rects[i].a < rects[j].a
		}
		return rects[i].z < rects[j].z
	})
	// boxes: identical rectangles in consecutive slices
	out := [][]int{}
	openB := map[[6]int]int{}
	for _, r := range rects {
		key := [6]int{r.a, r.x0, r.x1, r.y0, r.y1, r.c}
		if p, ok := openB[key]; ok && out[p][6]+1 == r.z {
			out[p][6] = r.z
			continue
		}
		openB[key] = len(out)
		out = append(out, []int{r.a, r.x0, r.x1, r.y0, r.y1, r.z, r.z, r.c})
	}
	sort.Slice(out, func(i, j int) bool {
		for k := 0; k < 8; k++ {
			if out[i][k] != out[j][k] {
				return out[i][k] < out[j][k]
			}
		}
		return false
	})
	return out
}

// closureField builds the real marching-package field of kinds "union" / "msline".
func closureField(c Case, fs FieldSpec) marching.Field {
	cpu := float64(c.Cpu)
	v := func(s []int, k int) vector3.Float64 {
		return vector3.New(float64(s[k])/cpu, float64(s[k+1])/cpu, float64(s[k+2])/cpu)
	}
	if fs.Kind == "msline" {
		pts := []vector3.Float64{}
		for _, s := range fs.Shapes {
			pts = append(pts, v(s, 1))
		}
		return marching.MultiSegmentLine(pts, float64(fs.R2)/2/cpu, 1)
	}
	parts := []marching.Field{}
	for _, s := range fs.Shapes {
		switch s[0] {
		case 0:
			parts = append(parts, marching.Sphere(v(s, 1), float64(s[4])/cpu, 1))
		case 1:
			parts = append(parts, marching.Box(v(s, 1), v(s, 4), 1))
		default:
			parts = append(parts, marching.Line(v(s, 1), v(s, 4), float64(s[7])/cpu, 1))
		}
	}
	return marching.CombineFields(parts...)
}

func floorDiv(a, b int) int { return int(math.Floor(float64(a) / float64(b))) }

// mkField builds the real marching.Field. Every evaluation is logged; when g
// is not nil the first evaluation of every (attribute, block) job blocks in
// the gate.
func mkField(c Case, fs FieldSpec, log *sampleLog, g *Gate) marching.Field {
	cpu := float64(c.Cpu)
	// scheduling keys: rank of the block among the blocks the domain touches
	var bmin, bn [3]int
	for k := 0; k < 3; k++ {
		bmin[k] = floorDiv(fs.Lo[k]-1, sectionCells)
		bn[k] = floorDiv(fs.Hi[k]+1, sectionCells) - bmin[k] + 1
	}
	nblocks := bn[0] * bn[1] * bn[2]
	var seenMu sync.Mutex
	seen := map[int]bool{}
	fns := map[string]sample.Vec3ToFloat{}
	// the real closures of a marching-package field (shared by all jobs, called concurrently: the
	// wrapper below only counts, lock free, and then calls them)
	var real map[string]sample.Vec3ToFloat
	if fs.Kind == "union" || fs.Kind == "msline" {
		real = closureField(c, fs).Float1Functions
	}
	for rank, id := range fs.Attrs {
		rank, id := rank, id
		realFn := real[attrName(id)]
		fns[attrName(id)] = func(p vector3.Float64) float64 {
			fx, fy, fz := p.X()*cpu, p.Y()*cpu, p.Z()*cpu
			x, y, z := int(math.Round(fx)), int(math.Round(fy)), int(math.Round(fz))
			// the canvas hands out cell/cubesPerUnit: times cubesPerUnit that is the cell again, up to
			// one rounding when cubesPerUnit is not a power of two
			if math.Abs(float64(x)-fx) > 1e-9 || math.Abs(float64(y)-fy) > 1e-9 || math.Abs(float64(z)-fz) > 1e-9 {
				log.offLat.Store(true)
			}
			if g != nil {
				b := [3]int{floorDiv(x, sectionCells) - bmin[0], floorDiv(y, sectionCells) - bmin[1], floorDiv(z, sectionCells) - bmin[2]}
				key := 1 << 20
				if b[0] >= 0 && b[0] < bn[0] && b[1] >= 0 && b[1] < bn[1] && b[2] >= 0 && b[2] < bn[2] {
					key = rank*nblocks + (b[0]*bn[1]+b[1])*bn[2] + b[2] + 1
				} else {
					key += ((b[0]&31)<<10 | (b[1]&31)<<5 | (b[2] & 31)) + rank<<15
				}
				seenMu.Lock()
				first := !seen[key]
				seen[key] = true
				seenMu.Unlock()
				if first {
					g.Enter(key, []int{})
				} else {
					g.Touch()
				}
			}
			log.add(id, x, y, z)
			if realFn != nil {
				return realFn(p)
			}
			return fieldValue(fs, rank, x, y, z)
		}
	}
	return marching.Field{
		Domain: geometry.NewAABBFromPoints(
			vector3.New(float64(fs.Lo[0])/cpu, float64(fs.Lo[1])/cpu, float64(fs.Lo[2])/cpu),
			vector3.New(float64(fs.Hi[0])/cpu, float64(fs.Hi[1])/cpu, float64(fs.Hi[2])/cpu)),
		Float1Functions: fns,
	}
}

type fieldLine struct {
	K      string  `json:"k"`
	Fi     int     `json:"fi"`
	Api    string  `json:"api"` // entry point that filled the parallel canvas with this field
	Seq    [][]int `json:"seq"` // evaluated lattice points as boxes <<attr,x0,x1,y0,y1,z0,z1,count>>
	Par    [][]int `json:"par"`
	Sst    string  `json:"sst"`
	Pst    string  `json:"pst"`
	Late   int     `json:"late"`   // evaluations after the parallel call had returned
	OffLat bool    `json:"offlat"` // an evaluation position was not a lattice point
	Jobs   []int   `json:"jobs"`   // job ids in the order the controller released them
}

type marchLine struct {
	K    string  `json:"k"`
	What string  `json:"what"` // ref | fieldpar | marchpar
	Fi   int     `json:"fi"`   // marched after field fi had been added
	Attr int     `json:"attr"`
	Cut2 int     `json:"cut2"`
	Proc int     `json:"procs"`
	Tris [][]int `json:"tris"`
	St   string  `json:"st"`
	Ex   bool    `json:"ex"`
}

// coordinate projections: lattice cases log a corner coordinate as one integer
// in 1/TriScale cell; bit-exact cases (real-valued fields) log the IEEE bit
// pattern of the float64 as three integers (22 + 21 + 21 bits, int32 safe).
func latticeCoord(x, sc float64, ex *bool) []int {
	r := math.Round(x * sc)
	if math.Abs(x*sc-r) > 1e-5 || math.Abs(r) > 2e9 {
		*ex = false
		if math.IsNaN(r) || math.Abs(r) > 2e9 {
			r = 2e9
		}
	}
	return []int{int(r)}
}

func bitsCoord(x float64) []int {
	b := math.Float64bits(x)
	return []int{int(b >> 42), int((b >> 21) & (1<<21 - 1)), int(b & (1<<21 - 1))}
}

func lexLess(a, b []int) bool {
	for k := 0; k < len(a) && k < len(b); k++ {
		if a[k] != b[k] {
			return a[k] < b[k]
		}
	}
	return len(a) < len(b)
}

// triangles projects a mesh to a list of triangles, each the concatenation of
// its three corners. The list is written in the canonical form of the triangle
// multiset (each triangle rotated so that the least of its three corner
// rotations comes first, then the list sorted): lossless up to what the
// contract leaves free, and TracePar checks the form before it relies on it.
func triangles(m modeling.Mesh, attr string, cpu int, bits bool) (tris [][]int, ex bool) {
	tris = [][]int{}
	ex = true
	if m.PrimitiveCount() == 0 || !m.HasFloat3Attribute(attr) {
		return
	}
	idx := m.Indices()
	pos := m.Float3Attribute(attr)
	sc := float64(cpu) * TriScale
	for t := 0; t+2 < idx.Len(); t += 3 {
		var corner [3][]int
		for k := 0; k < 3; k++ {
			p := pos.At(idx.At(t + k))
			for _, x := range []float64{p.X(), p.Y(), p.Z()} {
				if bits {
					corner[k] = append(corner[k], bitsCoord(x)...)
				} else {
					corner[k] = append(corner[k], latticeCoord(x, sc, &ex)...)
				}
			}
		}
		var best []int
		for r := 0; r < 3; r++ {
			tri := make([]int, 0, 3*len(corner[0]))
			for k := 0; k < 3; k++ {
				tri = append(tri, corner[(r+k)%3]...)
			}
			if best == nil || lexLess(tri, best) {
				best = tri
			}
		}
		tris = append(tris, best)
	}
	sort.Slice(tris, func(i, j int) bool { return lexLess(tris[i], tris[j]) })
	return
}

// marchLimit is generous: marching a multi-block canvas can take many seconds on a loaded
// machine, and a deadline that fires on correct code would be a false alarm.
const marchLimit = 120 * time.Second

// marchOnce returns false when the call did not return within caseLimit (the
// goroutine is left behind, so the process must not continue).
func marchOnce(out *Writer, c Case, cv *marching.MarchingCanvas, what string, fi, attr, cut2, procs int, par bool) bool {
	name := attrName(attr)
	var m modeling.Mesh
	if procs > 0 {
		old := runtime.GOMAXPROCS(procs)
		defer runtime.GOMAXPROCS(old)
	}
	done, st := guarded(func() {
		if par {
			m = cv.MarchOnAttributeParallel(name, float64(cut2)/2)
		} else {
			m = cv.MarchOnAttribute(name, float64(cut2)/2)
		}
	})
	select {
	case <-done:
	case <-time.After(marchLimit):
		// a marching call that never returns is an observation, not a harness failure
		out.Encode(marchLine{K: "march", What: what, Fi: fi, Attr: attr, Cut2: cut2, Proc: procs, Tris: [][]int{}, St: "TIMEOUT", Ex: true})
		return false
	}
	line := marchLine{K: "march", What: what, Fi: fi, Attr: attr, Cut2: cut2, Proc: procs, Tris: [][]int{}, St: *st, Ex: true}
	if *st == "OK" {
		func() {
			defer func() {
				if r := recover(); r != nil {
					line.St = "FAIL"
				}
			}()
			line.Tris, line.Ex = triangles(m, name, c.Cpu, c.Bits)
		}()
	}
	out.Encode(line)
	return true
}

// runField executes one field case: every field is accumulated sequentially
// into one canvas and with the parallel entry point into another (several
// fields: one after the other into the SAME two canvases); then both canvases
// are marched (MarchEvery: after every field, not only after the last).
func runField(out *Writer, c Case, raw json.RawMessage) bool {
	out.Encode(caseLine{K: "case", C: raw, NumCPU: runtime.NumCPU()})
	seqCv := marching.NewMarchingCanvas(float64(c.Cpu))
	parCv := marching.NewMarchingCanvas(float64(c.Cpu))
	for fi, fs := range c.Fields {
		api := fs.Api
		if api == "" {
			api = c.Api
		}
		line := fieldLine{K: "field", Fi: fi, Api: api, Seq: [][]int{}, Par: [][]int{}, Sst: "SKIP", Pst: "OK", Jobs: []int{}}
		if !c.NoSeq {
			sl := newSampleLog(fs)
			done, st := guarded(func() { seqCv.AddField(mkField(c, fs, sl, nil)) })
			<-done
			line.Seq, line.Sst = sl.boxes(), *st
			line.OffLat = sl.offLat.Load()
		}
		pl := newSampleLog(fs)
		// a hang is an observation (TIMEOUT); the deadline grows with the number of samples so that a
		// whole-block field on a loaded machine (or under the race detector) is not mistaken for one
		limit := caseLimit
		if vol := (fs.Hi[0] - fs.Lo[0] + 2) * (fs.Hi[1] - fs.Lo[1] + 2) * (fs.Hi[2] - fs.Lo[2] + 2) * len(fs.Attrs); vol > 0 {
			limit += time.Duration(vol/50000) * time.Second
		}
		var g *Gate
		if c.Gated && api != "AddField" {
			g = &Gate{}
		}
		field := mkField(c, fs, pl, g)
		done, st := guarded(func() {
			switch api {
			case "AddFieldParallel2":
				parCv.AddFieldParallel2(field)
			case "AddField":
				parCv.AddField(field)
			default:
				parCv.AddFieldParallel(field)
			}
		})
		status := "OK"
		if g != nil {
			rank := map[int]int{}
			for r, k := range c.Prio {
				if _, ok := rank[k]; !ok {
					rank[k] = r
				}
			}
			status = g.Drive(done, func(k int) int {
				if r, ok := rank[k]; ok {
					return r
				}
				return 1 << 30
			}, nil, limit, func(key int, _ []int, late bool) {
				line.Jobs = append(line.Jobs, key)
			})
		} else {
			select {
			case <-done:
			case <-time.After(limit):
				status = "TIMEOUT"
			}
		}
		if status == "TIMEOUT" {
			line.Pst = status
			out.Encode(line)
			return false
		}
		pl.returned.Store(true)
		time.Sleep(settleDone)
		line.Par, line.Pst = pl.boxes(), *st
		line.Late = int(pl.late.Load())
		line.OffLat = line.OffLat || pl.offLat.Load()
		out.Encode(line)
		if c.March && (c.MarchEvery || fi == len(c.Fields)-1) {
			if !marchAll(out, c, fi, seqCv, parCv) {
				return false
			}
		}
	}
	return true
}

func marchAll(out *Writer, c Case, fi int, seqCv, parCv *marching.MarchingCanvas) bool {
	for _, a := range c.MAttrs {
		for _, cut2 := range c.Cuts2 {
			if !c.NoSeq {
				if !marchOnce(out, c, seqCv, "ref", fi, a, cut2, 0, false) {
					return false
				}
				if !marchOnce(out, c, parCv, "fieldpar", fi, a, cut2, 0, false) {
					return false
				}
			}
			for _, p := range c.Reps {
				if !marchOnce(out, c, seqOr(c, seqCv, parCv), "marchpar", fi, a, cut2, p, true) {
					return false
				}
			}
		}
	}
	return true
}

func seqOr(c Case, seqCv, parCv *marching.MarchingCanvas) *marching.MarchingCanvas {
	if c.NoSeq {
		return parCv
	}
	return seqCv
}
