package parfam

import (
	"encoding/json"
	"math"
	"runtime"
	"sort"
	"sync"
	"sync/atomic"
	"time"

	"github.com/EliCDavis/polyform/math/geometry"
	"github.com/EliCDavis/polyform/math/sample"
	"github.com/EliCDavis/polyform/modeling"
	"github.com/EliCDavis/polyform/modeling/marching"
	"github.com/EliCDavis/vector/vector3"
)

// FieldSpec describes one lattice field: a quantised ball, values in
// {-2,-1,1,2}, evaluated with integer arithmetic on cell coordinates.
type FieldSpec struct {
	Lo    [3]int `json:"lo"` // domain box in cells (world = cells / cubesPerUnit)
	Hi    [3]int `json:"hi"`
	Attrs []int  `json:"attrs"` // attribute ids (1 = position)
	C2    [3]int `json:"c2"`    // 2 * centre, in cells
	R2    int    `json:"r2"`    // 2 * radius, in cells
}

// TriScale: triangle corners are logged in units of 1/TriScale cell. With
// sample values that are sums of at most two fields (|v| <= 4) and
// half-integer cutoffs every interpolation parameter has a denominator that
// divides 1680, so corners are integers in this unit.
const TriScale = 1680

const sectionCells = 100 // block edge of the canvas (used for scheduling keys only)

func attrName(id int) string {
	if id == 1 {
		return modeling.PositionAttribute
	}
	return "attr" + string(rune('0'+id/10)) + string(rune('0'+id%10))
}

func fieldValue(fs FieldSpec, rank int, x, y, z int) float64 {
	dx := 2*x - fs.C2[0] - 4*rank
	dy := 2*y - fs.C2[1]
	dz := 2*z - fs.C2[2] - 2*rank
	d2 := dx*dx + dy*dy + dz*dz
	r := fs.R2
	switch {
	case r >= 2 && d2 < (r-2)*(r-2):
		return -2
	case d2 < r*r:
		return -1
	case d2 < (r+2)*(r+2):
		return 1
	}
	return 2
}

type sampleLog struct {
	mu     sync.Mutex
	counts map[[4]int]int
	stamps []int64
	ctr    atomic.Int64
	offLat bool
}

func newSampleLog() *sampleLog { return &sampleLog{counts: map[[4]int]int{}} }

func (l *sampleLog) add(attr, x, y, z int) {
	s := l.ctr.Add(1)
	l.mu.Lock()
	l.counts[[4]int{attr, x, y, z}]++
	l.stamps = append(l.stamps, s)
	l.mu.Unlock()
}

// sorted is the canonical (lossless) encoding of the multiset of sampled
// lattice points: <<attr, x, y, z, count>> in lexicographic order.
func (l *sampleLog) sorted() [][]int {
	l.mu.Lock()
	defer l.mu.Unlock()
	out := make([][]int, 0, len(l.counts))
	for k, n := range l.counts {
		out = append(out, []int{k[0], k[1], k[2], k[3], n})
	}
	sort.Slice(out, func(i, j int) bool {
		for k := 0; k < 4; k++ {
			if out[i][k] != out[j][k] {
				return out[i][k] < out[j][k]
			}
		}
		return false
	})
	return out
}

func floorDiv(a, b int) int { return int(math.Floor(float64(a) / float64(b))) }

// mkField builds the real marching.Field. Every evaluation is logged; when g
// is not nil the first evaluation of every (attribute, block) job blocks in
// the gate.
func mkField(c Case, fs FieldSpec, log *sampleLog, g *Gate) marching.Field {
	cpu := float64(c.Cpu)
	// scheduling keys: rank of the block among the blocks the domain touches
	var bmin, bn [3]int
	for k := 0; k < 3; k++ {
		bmin[k] = floorDiv(fs.Lo[k]-1, sectionCells)
		bn[k] = floorDiv(fs.Hi[k]+1, sectionCells) - bmin[k] + 1
	}
	nblocks := bn[0] * bn[1] * bn[2]
	var seenMu sync.Mutex
	seen := map[int]bool{}
	fns := map[string]sample.Vec3ToFloat{}
	for rank, id := range fs.Attrs {
		rank, id := rank, id
		fns[attrName(id)] = func(p vector3.Float64) float64 {
			fx, fy, fz := p.X()*cpu, p.Y()*cpu, p.Z()*cpu
			x, y, z := int(math.Round(fx)), int(math.Round(fy)), int(math.Round(fz))
			if float64(x) != fx || float64(y) != fy || float64(z) != fz {
				log.mu.Lock()
				log.offLat = true
				log.mu.Unlock()
			}
			if g != nil {
				b := [3]int{floorDiv(x, sectionCells) - bmin[0], floorDiv(y, sectionCells) - bmin[1], floorDiv(z, sectionCells) - bmin[2]}
				key := 1 << 20
				if b[0] >= 0 && b[0] < bn[0] && b[1] >= 0 && b[1] < bn[1] && b[2] >= 0 && b[2] < bn[2] {
					key = rank*nblocks + (b[0]*bn[1]+b[1])*bn[2] + b[2] + 1
				} else {
					key += ((b[0]&31)<<10 | (b[1]&31)<<5 | (b[2] & 31)) + rank<<15
				}
				seenMu.Lock()
				first := !seen[key]
				seen[key] = true
				seenMu.Unlock()
				if first {
					g.Enter(key, []int{})
				} else {
					g.Touch()
				}
			}
			log.add(id, x, y, z)
			return fieldValue(fs, rank, x, y, z)
		}
	}
	return marching.Field{
		Domain: geometry.NewAABBFromPoints(
			vector3.New(float64(fs.Lo[0])/cpu, float64(fs.Lo[1])/cpu, float64(fs.Lo[2])/cpu),
			vector3.New(float64(fs.Hi[0])/cpu, float64(fs.Hi[1])/cpu, float64(fs.Hi[2])/cpu)),
		Float1Functions: fns,
	}
}

type fieldLine struct {
	K      string  `json:"k"`
	Fi     int     `json:"fi"`
	Seq    [][]int `json:"seq"`
	Par    [][]int `json:"par"`
	Sst    string  `json:"sst"`
	Pst    string  `json:"pst"`
	Late   int     `json:"late"`   // evaluations after the parallel call had returned
	OffLat bool    `json:"offlat"` // an evaluation position was not a lattice point
	Jobs   []int   `json:"jobs"`   // job ids in the order the controller released them
}

type marchLine struct {
	K    string  `json:"k"`
	What string  `json:"what"` // ref | fieldpar | marchpar
	Attr int     `json:"attr"`
	Cut2 int     `json:"cut2"`
	Proc int     `json:"procs"`
	Tris [][]int `json:"tris"`
	St   string  `json:"st"`
	Ex   bool    `json:"ex"`
}

func triangles(m modeling.Mesh, attr string, cpu int) (tris [][]int, ex bool) {
	tris = [][]int{}
	ex = true
	if m.PrimitiveCount() == 0 || !m.HasFloat3Attribute(attr) {
		return
	}
	idx := m.Indices()
	pos := m.Float3Attribute(attr)
	sc := float64(cpu) * TriScale
	for t := 0; t+2 < idx.Len(); t += 3 {
		tri := make([]int, 0, 9)
		for k := 0; k < 3; k++ {
			p := pos.At(idx.At(t + k))
			for _, x := range []float64{p.X(), p.Y(), p.Z()} {
				r := math.Round(x * sc)
				if math.Abs(x*sc-r) > 1e-5 || math.Abs(r) > 2e9 {
					ex = false
				}
				tri = append(tri, int(r))
			}
		}
		tris = append(tris, tri)
	}
	return
}

// marchLimit is generous: marching a multi-block canvas can take many seconds on a loaded
// machine, and a deadline that fires on correct code would be a false alarm.
const marchLimit = 120 * time.Second

// marchOnce returns false when the call did not return within caseLimit (the
// goroutine is left behind, so the process must not continue).
func marchOnce(out *Writer, c Case, cv *marching.MarchingCanvas, what string, attr, cut2, procs int, par bool) bool {
	name := attrName(attr)
	var m modeling.Mesh
	if procs > 0 {
		old := runtime.GOMAXPROCS(procs)
		defer runtime.GOMAXPROCS(old)
	}
	done, st := guarded(func() {
		if par {
			m = cv.MarchOnAttributeParallel(name, float64(cut2)/2)
		} else {
			m = cv.MarchOnAttribute(name, float64(cut2)/2)
		}
	})
	select {
	case <-done:
	case <-time.After(marchLimit):
		// a marching call that never returns is an observation, not a harness failure
		out.Encode(marchLine{K: "march", What: what, Attr: attr, Cut2: cut2, Proc: procs, Tris: [][]int{}, St: "TIMEOUT", Ex: true})
		return false
	}
	line := marchLine{K: "march", What: what, Attr: attr, Cut2: cut2, Proc: procs, Tris: [][]int{}, St: *st, Ex: true}
	if *st == "OK" {
		func() {
			defer func() {
				if r := recover(); r != nil {
					line.St = "FAIL"
				}
			}()
			line.Tris, line.Ex = triangles(m, name, c.Cpu)
		}()
	}
	out.Encode(line)
	return true
}

// runField executes one field case: every field is accumulated sequentially
// into one canvas and with the parallel entry point into another; then both
// canvases are marched.
func runField(out *Writer, c Case, raw json.RawMessage) bool {
	out.Encode(caseLine{K: "case", C: raw, NumCPU: runtime.NumCPU()})
	seqCv := marching.NewMarchingCanvas(float64(c.Cpu))
	parCv := marching.NewMarchingCanvas(float64(c.Cpu))
	for fi, fs := range c.Fields {
		line := fieldLine{K: "field", Fi: fi, Seq: [][]int{}, Par: [][]int{}, Sst: "SKIP", Pst: "OK", Jobs: []int{}}
		if !c.NoSeq {
			sl := newSampleLog()
			done, st := guarded(func() { seqCv.AddField(mkField(c, fs, sl, nil)) })
			<-done
			line.Seq, line.Sst = sl.sorted(), *st
			line.OffLat = sl.offLat
		}
		pl := newSampleLog()
		var g *Gate
		if c.Gated {
			g = &Gate{}
		}
		field := mkField(c, fs, pl, g)
		done, st := guarded(func() {
			if c.Api == "AddFieldParallel2" {
				parCv.AddFieldParallel2(field)
			} else {
				parCv.AddFieldParallel(field)
			}
		})
		status := "OK"
		if c.Gated {
			rank := map[int]int{}
			for r, k := range c.Prio {
				if _, ok := rank[k]; !ok {
					rank[k] = r
				}
			}
			status = g.Drive(done, func(k int) int {
				if r, ok := rank[k]; ok {
					return r
				}
				return 1 << 30
			}, nil, caseLimit, func(key int, _ []int, late bool) {
				line.Jobs = append(line.Jobs, key)
			})
		} else {
			select {
			case <-done:
			case <-time.After(caseLimit):
				status = "TIMEOUT"
			}
		}
		if status == "TIMEOUT" {
			line.Pst = status
			out.Encode(line)
			return false
		}
		ret := pl.ctr.Add(1)
		time.Sleep(settleDone)
		line.Par, line.Pst = pl.sorted(), *st
		pl.mu.Lock()
		for _, s := range pl.stamps {
			if s > ret {
				line.Late++
			}
		}
		line.OffLat = line.OffLat || pl.offLat
		pl.mu.Unlock()
		out.Encode(line)
	}
	if !c.March {
		return true
	}
	ids := c.MAttrs
	for _, a := range ids {
		for _, cut2 := range c.Cuts2 {
			if !c.NoSeq {
				if !marchOnce(out, c, seqCv, "ref", a, cut2, 0, false) {
					return false
				}
				if !marchOnce(out, c, parCv, "fieldpar", a, cut2, 0, false) {
					return false
				}
			}
			for _, p := range c.Reps {
				if !marchOnce(out, c, seqOr(c, seqCv, parCv), "marchpar", a, cut2, p, true) {
					return false
				}
			}
		}
	}
	return true
}

func seqOr(c Case, seqCv, parCv *marching.MarchingCanvas) *marching.MarchingCanvas {
	if c.NoSeq {
		return parCv
	}
	return seqCv
}
