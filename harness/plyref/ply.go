// Package plyref is an independent PLY encoder and parser written from the PLY
// format description (Greg Turk, "The PLY Polygon File Format"): header of text
// lines, then one record per element instance, in ascii or in binary of either
// byte order. It shares no code with github.com/EliCDavis/polyform/formats/ply.
//
// Abstract files ("cells") are what the TLA+ module PlyFormat talks about:
//
//	integer typed cell  -> the integer
//	float/double cell   -> "lat" mode : round(value * D) (D = lattice denominator
//	                                   of the case) plus a file-wide exactness flag
//	                       "bits" mode: the IEEE-754 binary64 pattern of the value as
//	                                   four 16-bit chunks [c3,c2,c1,c0] (a binary
//	                                   float32 cell is widened, which is lossless)
//
// The package only encodes, parses and projects; it takes no decisions.
package plyref

import (
	"bytes"
	"encoding/json"
	"fmt"
	"math"
	"strconv"
	"strings"
)

// Cell is one scalar of a record: an integer, or the chunks of a float64.
type Cell struct {
	I    int
	B    []int
	Bits bool
}

func IntCell(v int) Cell { return Cell{I: v} }

func BitsCell(x float64) Cell {
	u := math.Float64bits(x)
	return Cell{Bits: true, B: []int{int(u >> 48), int((u >> 32) & 0xffff), int((u >> 16) & 0xffff), int(u & 0xffff)}}
}

func (c Cell) Float64FromBits() float64 {
	u := uint64(c.B[0])<<48 | uint64(c.B[1])<<32 | uint64(c.B[2])<<16 | uint64(c.B[3])
	return math.Float64frombits(u)
}

func (c Cell) MarshalJSON() ([]byte, error) {
	if c.Bits {
		return json.Marshal(c.B)
	}
	return json.Marshal(c.I)
}

func (c *Cell) UnmarshalJSON(b []byte) error {
	b = bytes.TrimSpace(b)
	if len(b) > 0 && b[0] == '[' {
		c.Bits = true
		return json.Unmarshal(b, &c.B)
	}
	c.Bits = false
	return json.Unmarshal(b, &c.I)
}

type Prop struct {
	N string `json:"n"` // property name as written in the header
	T string `json:"t"` // type token as written in the header (aliases allowed)
}

type LProp struct {
	N  string `json:"n"`
	CT string `json:"ct"`
	LT string `json:"lt"`
}

// Deco are the parts of a header that carry no data.
type Deco struct {
	CRLF     bool   `json:"crlf"`     // header lines end in \r\n
	Comments []int  `json:"comments"` // a comment line is inserted before header line #k (0-based, after "format")
	ObjInfo  []int  `json:"objinfo"`  // same for obj_info lines
	Blank    []int  `json:"blank"`    // same for empty lines
	FStyle   string `json:"fstyle"`   // ascii float style: "g" shortest, "f" fixed, "f6" six decimals, "e" exponent
}

// File is an abstract PLY file with a vertex element and an optional face element.
type File struct {
	Fmt    string     `json:"fmt"`
	VProps []Prop     `json:"vprops"`
	NV     int        `json:"nv"`
	VRecs  [][]Cell   `json:"vrecs"`
	Face   bool       `json:"face"`
	NF     int        `json:"nf"`
	FLists []LProp    `json:"flists"`
	FRecs  [][][]Cell `json:"frecs"`
}

// Parsed is what the parser found in a byte string.
type Parsed struct {
	OK  bool   `json:"ok"`
	Err string `json:"err"` // class of the first problem, "" when ok
	File
	Left      int  `json:"left"`      // bytes (binary) / non-blank tokens (ascii) after the last declared record
	Linewise  bool `json:"linewise"`  // ascii: every record was exactly one line
	HdrBytes  int  `json:"hdrbytes"`  // size of the header including the end_header line
	NBytes    int  `json:"nbytes"`    // size of the whole file
	Exact     bool `json:"exact"`     // lat mode: every float cell was on the lattice
	NComments int  `json:"ncomments"` // comment + obj_info lines seen
	NElems    int  `json:"nelems"`    // elements declared
}

var canon = map[string]string{
	"char": "char", "int8": "char",
	"uchar": "uchar", "uint8": "uchar",
	"short": "short", "int16": "short",
	"ushort": "ushort", "uint16": "ushort",
	"int": "int", "int32": "int",
	"uint": "uint", "uint32": "uint",
	"float": "float", "float32": "float",
	"double": "double", "float64": "double",
}

func Canon(t string) string { return canon[t] }

func size(ct string) int {
	switch ct {
	case "char", "uchar":
		return 1
	case "short", "ushort":
		return 2
	case "int", "uint", "float":
		return 4
	case "double":
		return 8
	}
	return 0
}

func isFloat(ct string) bool { return ct == "float" || ct == "double" }

// Scale describes how reals are projected.
type Scale struct {
	Bits bool
	D    int
}

// Real turns a float cell back into the real it stands for.
func (s Scale) Real(c Cell) float64 {
	if s.Bits {
		return c.Float64FromBits()
	}
	return float64(c.I) / float64(s.D)
}

// Project projects a real; ok=false when lat mode and the value is off the lattice.
func (s Scale) Project(x float64) (Cell, bool) {
	if s.Bits {
		return BitsCell(x), true
	}
	if math.IsNaN(x) || math.IsInf(x, 0) || x*float64(s.D) > math.MaxInt32 || x*float64(s.D) < math.MinInt32 {
		return IntCell(0), false
	}
	r := math.Round(x * float64(s.D))
	return IntCell(int(r)), math.Abs(x*float64(s.D)-r) <= 1e-6
}

// ---------------------------------------------------------------------------
// encoder
// ---------------------------------------------------------------------------

func fmtFloat(x float64, style string, ct string) string {
	switch style {
	case "f":
		// fixed notation with as many decimals as the value needs
		return strconv.FormatFloat(x, 'f', -1, 64)
	case "e":
		return strconv.FormatFloat(x, 'e', -1, 64)
	case "f6":
		s := strconv.FormatFloat(x, 'f', 6, 64)
		if v, err := strconv.ParseFloat(s, 64); err == nil && v == x {
			return s
		}
		return strconv.FormatFloat(x, 'f', -1, 64)
	}
	return strconv.FormatFloat(x, 'g', -1, 64)
}

func putInt(buf *bytes.Buffer, ct string, v int, big bool) {
	n := size(ct)
	u := uint64(int64(v))
	b := make([]byte, n)
	for i := 0; i < n; i++ {
		sh := uint(8 * i)
		if big {
			b[n-1-i] = byte(u >> sh)
		} else {
			b[i] = byte(u >> sh)
		}
	}
	buf.Write(b)
}

func putFloat(buf *bytes.Buffer, ct string, x float64, big bool) {
	var u uint64
	n := 8
	if ct == "float" {
		u = uint64(math.Float32bits(float32(x)))
		n = 4
	} else {
		u = math.Float64bits(x)
	}
	b := make([]byte, n)
	for i := 0; i < n; i++ {
		sh := uint(8 * i)
		if big {
			b[n-1-i] = byte(u >> sh)
		} else {
			b[i] = byte(u >> sh)
		}
	}
	buf.Write(b)
}

func has(xs []int, k int) int {
	n := 0
	for _, x := range xs {
		if x == k {
			n++
		}
	}
	return n
}

// Encode writes the abstract file in the encoding f.Fmt.
func Encode(f File, deco Deco, sc Scale) ([]byte, error) {
	var hdr []string
	hdr = append(hdr, fmt.Sprintf("element vertex %d", f.NV))
	for _, p := range f.VProps {
		if Canon(p.T) == "" {
			return nil, fmt.Errorf("unknown type %q", p.T)
		}
		hdr = append(hdr, fmt.Sprintf("property %s %s", p.T, p.N))
	}
	if f.Face {
		hdr = append(hdr, fmt.Sprintf("element face %d", f.NF))
		for _, p := range f.FLists {
			if Canon(p.CT) == "" || Canon(p.LT) == "" {
				return nil, fmt.Errorf("unknown list type %q %q", p.CT, p.LT)
			}
			hdr = append(hdr, fmt.Sprintf("property list %s %s %s", p.CT, p.LT, p.N))
		}
	}
	hdr = append(hdr, "end_header")
	eol := "\n"
	if deco.CRLF {
		eol = "\r\n"
	}
	out := &bytes.Buffer{}
	out.WriteString("ply" + eol)
	out.WriteString("format " + f.Fmt + " 1.0" + eol)
	for k, line := range hdr {
		for i := 0; i < has(deco.Blank, k); i++ {
			out.WriteString(eol)
		}
		for i := 0; i < has(deco.Comments, k); i++ {
			out.WriteString(fmt.Sprintf("comment made by plyref before line %d%s", k, eol))
		}
		for i := 0; i < has(deco.ObjInfo, k); i++ {
			out.WriteString(fmt.Sprintf("obj_info note %d%s", k, eol))
		}
		out.WriteString(line + eol)
	}
	if len(f.VRecs) != f.NV || (f.Face && len(f.FRecs) != f.NF) {
		return nil, fmt.Errorf("record count differs from declared count")
	}
	switch f.Fmt {
	case "ascii":
		for _, rec := range f.VRecs {
			if len(rec) != len(f.VProps) {
				return nil, fmt.Errorf("vertex record arity")
			}
			toks := make([]string, len(rec))
			for c, cell := range rec {
				ct := Canon(f.VProps[c].T)
				if isFloat(ct) {
					toks[c] = fmtFloat(sc.Real(cell), deco.FStyle, ct)
				} else {
					toks[c] = strconv.Itoa(cell.I)
				}
			}
			out.WriteString(strings.Join(toks, " ") + "\n")
		}
		if f.Face {
			for _, rec := range f.FRecs {
				if len(rec) != len(f.FLists) {
					return nil, fmt.Errorf("face record arity")
				}
				var toks []string
				for l, list := range rec {
					lt := Canon(f.FLists[l].LT)
					toks = append(toks, strconv.Itoa(len(list)))
					for _, cell := range list {
						if isFloat(lt) {
							toks = append(toks, fmtFloat(sc.Real(cell), deco.FStyle, lt))
						} else {
							toks = append(toks, strconv.Itoa(cell.I))
						}
					}
				}
				out.WriteString(strings.Join(toks, " ") + "\n")
			}
		}
	case "binary_little_endian", "binary_big_endian":
		big := f.Fmt == "binary_big_endian"
		for _, rec := range f.VRecs {
			if len(rec) != len(f.VProps) {
				return nil, fmt.Errorf("vertex record arity")
			}
			for c, cell := range rec {
				ct := Canon(f.VProps[c].T)
				if isFloat(ct) {
					putFloat(out, ct, sc.Real(cell), big)
				} else {
					putInt(out, ct, cell.I, big)
				}
			}
		}
		if f.Face {
			for _, rec := range f.FRecs {
				if len(rec) != len(f.FLists) {
					return nil, fmt.Errorf("face record arity")
				}
				for l, list := range rec {
					ct, lt := Canon(f.FLists[l].CT), Canon(f.FLists[l].LT)
					putInt(out, ct, len(list), big)
					for _, cell := range list {
						if isFloat(lt) {
							putFloat(out, lt, sc.Real(cell), big)
						} else {
							putInt(out, lt, cell.I, big)
						}
					}
				}
			}
		}
	default:
		return nil, fmt.Errorf("unknown format %q", f.Fmt)
	}
	return out.Bytes(), nil
}

// ---------------------------------------------------------------------------
// parser
// ---------------------------------------------------------------------------

func fail(p *Parsed, class string) Parsed {
	p.OK = false
	p.Err = class
	p.VRecs = [][]Cell{}
	p.FRecs = [][][]Cell{}
	return *p
}

func intRange(ct string, v int64) bool {
	switch ct {
	case "char":
		return v >= -128 && v <= 127
	case "uchar":
		return v >= 0 && v <= 255
	case "short":
		return v >= -32768 && v <= 32767
	case "ushort":
		return v >= 0 && v <= 65535
	case "int":
		return v >= math.MinInt32 && v <= math.MaxInt32
	case "uint":
		// values above the int32 range cannot be talked about by TLC
		return v >= 0 && v <= math.MaxInt32
	}
	return false
}

// Parse reads data as a PLY file made of a vertex element and an optional face
// element, strictly following the header it finds.
func Parse(data []byte, sc Scale) Parsed {
	p := Parsed{OK: true, Exact: true, Linewise: true, NBytes: len(data)}
	p.VProps = []Prop{}
	p.FLists = []LProp{}
	p.VRecs = [][]Cell{}
	p.FRecs = [][][]Cell{}

	// header: lines terminated by \n, an optional \r before it is not content
	pos := 0
	nextLine := func() (string, bool) {
		i := bytes.IndexByte(data[pos:], '\n')
		if i < 0 {
			return "", false
		}
		line := string(data[pos : pos+i])
		pos += i + 1
		return strings.TrimSuffix(line, "\r"), true
	}
	line, ok := nextLine()
	if !ok || strings.TrimSpace(line) != "ply" {
		return fail(&p, "magic")
	}
	cur := "" // element being declared
	sawFormat := false
	done := false
	for !done {
		line, ok = nextLine()
		if !ok {
			return fail(&p, "header-eof")
		}
		toks := strings.Fields(line)
		if len(toks) == 0 {
			continue
		}
		switch toks[0] {
		case "format":
			if len(toks) != 3 || toks[2] != "1.0" || sawFormat {
				return fail(&p, "format-line")
			}
			sawFormat = true
			p.Fmt = toks[1]
		case "comment", "obj_info":
			p.NComments++
		case "element":
			if len(toks) != 3 {
				return fail(&p, "element-line")
			}
			n, err := strconv.Atoi(toks[2])
			if err != nil || n < 0 {
				return fail(&p, "element-count")
			}
			p.NElems++
			cur = toks[1]
			switch cur {
			case "vertex":
				if p.NElems != 1 {
					return fail(&p, "element-order")
				}
				p.NV = n
			case "face":
				if p.NElems != 2 {
					return fail(&p, "element-order")
				}
				p.Face = true
				p.NF = n
			default:
				return fail(&p, "element-unknown")
			}
		case "property":
			if cur == "" {
				return fail(&p, "property-before-element")
			}
			if len(toks) == 3 {
				if cur != "vertex" || Canon(toks[1]) == "" {
					return fail(&p, "scalar-property")
				}
				p.VProps = append(p.VProps, Prop{N: toks[2], T: toks[1]})
			} else if len(toks) == 5 && toks[1] == "list" {
				if cur != "face" || Canon(toks[2]) == "" || Canon(toks[3]) == "" || isFloat(Canon(toks[2])) {
					return fail(&p, "list-property")
				}
				p.FLists = append(p.FLists, LProp{N: toks[4], CT: toks[2], LT: toks[3]})
			} else {
				return fail(&p, "property-line")
			}
		case "end_header":
			if len(toks) != 1 {
				return fail(&p, "end-header")
			}
			done = true
		default:
			return fail(&p, "header-keyword")
		}
	}
	if !sawFormat || p.NElems == 0 {
		return fail(&p, "header-incomplete")
	}
	p.HdrBytes = pos

	floatCell := func(x float64) Cell {
		c, ok := sc.Project(x)
		if !ok {
			p.Exact = false
		}
		return c
	}

	switch p.Fmt {
	case "ascii":
		body := string(data[pos:])
		lines := strings.Split(body, "\n")
		li := 0
		nextRec := func() ([]string, bool) {
			for li < len(lines) {
				l := strings.TrimSuffix(lines[li], "\r")
				li++
				toks := strings.Fields(l)
				if len(toks) == 0 {
					if li < len(lines) { // an empty line inside the body is not a record
						p.Linewise = false
					}
					continue
				}
				return toks, true
			}
			return nil, false
		}
		parseCell := func(ct, tok string) (Cell, bool) {
			if isFloat(ct) {
				x, err := strconv.ParseFloat(tok, 64)
				if err != nil || math.IsNaN(x) || math.IsInf(x, 0) {
					return Cell{}, false
				}
				// the decimal's double is kept even for a float property: the
				// specification states what a float property makes of it
				return floatCell(x), true
			}
			v, err := strconv.ParseInt(tok, 10, 64)
			if err != nil || !intRange(ct, v) {
				return Cell{}, false
			}
			return IntCell(int(v)), true
		}
		for i := 0; i < p.NV; i++ {
			toks, ok := nextRec()
			if !ok {
				return fail(&p, "vertex-eof")
			}
			if len(toks) != len(p.VProps) {
				return fail(&p, "vertex-arity")
			}
			rec := make([]Cell, len(toks))
			for c, tok := range toks {
				cell, ok := parseCell(Canon(p.VProps[c].T), tok)
				if !ok {
					return fail(&p, "vertex-cell")
				}
				rec[c] = cell
			}
			p.VRecs = append(p.VRecs, rec)
		}
		if p.Face {
			for i := 0; i < p.NF; i++ {
				toks, ok := nextRec()
				if !ok {
					return fail(&p, "face-eof")
				}
				rec := make([][]Cell, 0, len(p.FLists))
				k := 0
				for _, lp := range p.FLists {
					if k >= len(toks) {
						return fail(&p, "face-arity")
					}
					cnt, err := strconv.ParseInt(toks[k], 10, 64)
					if err != nil || !intRange(Canon(lp.CT), cnt) || cnt < 0 {
						return fail(&p, "face-count")
					}
					k++
					if k+int(cnt) > len(toks) {
						return fail(&p, "face-arity")
					}
					list := make([]Cell, 0, cnt)
					for j := 0; j < int(cnt); j++ {
						cell, ok := parseCell(Canon(lp.LT), toks[k])
						if !ok {
							return fail(&p, "face-cell")
						}
						list = append(list, cell)
						k++
					}
					rec = append(rec, list)
				}
				if k != len(toks) {
					return fail(&p, "face-arity")
				}
				p.FRecs = append(p.FRecs, rec)
			}
		}
		for {
			toks, ok := nextRec()
			if !ok {
				break
			}
			p.Left += len(toks)
		}
		// the last record must be terminated
		if len(data) > pos && data[len(data)-1] != '\n' {
			p.Linewise = false
		}
	case "binary_little_endian", "binary_big_endian":
		big := p.Fmt == "binary_big_endian"
		get := func(n int) (uint64, bool) {
			if pos+n > len(data) {
				return 0, false
			}
			var u uint64
			for i := 0; i < n; i++ {
				var b byte
				if big {
					b = data[pos+n-1-i]
				} else {
					b = data[pos+i]
				}
				u |= uint64(b) << uint(8*i)
			}
			pos += n
			return u, true
		}
		readCell := func(ct string) (Cell, string) {
			u, ok := get(size(ct))
			if !ok {
				return Cell{}, "eof"
			}
			switch ct {
			case "float":
				x := float64(math.Float32frombits(uint32(u)))
				if math.IsNaN(x) || math.IsInf(x, 0) {
					return Cell{}, "nonfinite"
				}
				return floatCell(x), ""
			case "double":
				x := math.Float64frombits(u)
				if math.IsNaN(x) || math.IsInf(x, 0) {
					return Cell{}, "nonfinite"
				}
				return floatCell(x), ""
			case "char":
				return IntCell(int(int8(u))), ""
			case "uchar":
				return IntCell(int(uint8(u))), ""
			case "short":
				return IntCell(int(int16(u))), ""
			case "ushort":
				return IntCell(int(uint16(u))), ""
			case "int":
				return IntCell(int(int32(u))), ""
			case "uint":
				if u > math.MaxInt32 {
					return Cell{}, "uint-too-big"
				}
				return IntCell(int(u)), ""
			}
			return Cell{}, "type"
		}
		for i := 0; i < p.NV; i++ {
			rec := make([]Cell, len(p.VProps))
			for c, pr := range p.VProps {
				cell, e := readCell(Canon(pr.T))
				if e != "" {
					return fail(&p, "vertex-"+e)
				}
				rec[c] = cell
			}
			p.VRecs = append(p.VRecs, rec)
		}
		if p.Face {
			for i := 0; i < p.NF; i++ {
				rec := make([][]Cell, 0, len(p.FLists))
				for _, lp := range p.FLists {
					cnt, e := readCell(Canon(lp.CT))
					if e != "" || cnt.I < 0 || cnt.I > 1<<16 {
						return fail(&p, "face-count")
					}
					list := make([]Cell, 0, cnt.I)
					for j := 0; j < cnt.I; j++ {
						cell, e := readCell(Canon(lp.LT))
						if e != "" {
							return fail(&p, "face-"+e)
						}
						list = append(list, cell)
					}
					rec = append(rec, list)
				}
				p.FRecs = append(p.FRecs, rec)
			}
		}
		p.Left = len(data) - pos
	default:
		return fail(&p, "format-keyword")
	}
	return p
}
