package surf

import (
	"math"

	"github.com/EliCDavis/vector/vector3"
)

// grazing turns a shape that MarchGraze.tla describes relative to the
// canvas' lattice into world units: the iso-surface of the case's threshold
// passes the lattice point P at the signed distance G[0] * 1e-7 cells (P
// inside when positive), with the outward normal Q (see Shape). It only
// constructs the INPUT; where the marched vertices have to be is not decided
// here.
func grazing(s Shape, c Case) solid {
	cpu := float64(c.Cpu)
	st := float64(s.S) / 1000
	cell := 1 / cpu
	p := vector3.New(float64(s.P[0]), float64(s.P[1]), float64(s.P[2])).Scale(cell) // world position of the lattice point
	depth := float64(s.G[0]) * 1e-7 * cell
	// the surface f = cut of a field strength * distance lies cut/strength outside the zero surface
	shift := float64(c.Cut) / 1000 / st
	r := float64(s.R) / 1000 * cell
	q := vector3.New(float64(s.Q[0]), float64(s.Q[1]), float64(s.Q[2]))
	switch s.T {
	case "gsphere":
		n := q.Normalized()
		return solid{t: "sphere", p: p.Sub(n.Scale(r + shift - depth)), r: r, s: st}
	case "gbox":
		// the corner in direction q of the box shrunk by -shift lies `depth` beyond p on every axis
		sg := vector3.New(sign(q.X()), sign(q.Y()), sign(q.Z()))
		corner := p.Add(sg.Scale(depth - shift))
		return solid{t: "box", p: corner.Sub(sg.Scale(r)), q: vector3.Fill(2 * r), s: st}
	case "gline":
		n := q.Normalized()
		// axis: perpendicular to n, built from the coordinate axis n is least aligned with
		e := vector3.New(1., 0., 0.)
		ax, ay, az := math.Abs(n.X()), math.Abs(n.Y()), math.Abs(n.Z())
		if ay < ax && ay <= az {
			e = vector3.New(0., 1., 0.)
		} else if az < ax && az < ay {
			e = vector3.New(0., 0., 1.)
		}
		u := n.Cross(e).Normalized()
		rho := r / 2
		mid := p.Sub(n.Scale(rho + shift - depth))
		return solid{t: "line", p: mid.Sub(u.Scale(rho)), q: mid.Add(u.Scale(rho)), r: rho, s: st}
	}
	panic("unknown grazing shape " + s.T)
}

func sign(x float64) float64 {
	if x < 0 {
		return -1
	}
	return 1
}
