package surf

import (
	"encoding/json"
	"math"
	"time"

	"github.com/EliCDavis/polyform/math/sample"
	"github.com/EliCDavis/polyform/modeling"
	"github.com/EliCDavis/polyform/modeling/marching"
	"github.com/EliCDavis/vector/vector3"
)

// dist is the harness' own closed form of the shape's signed distance (it
// does not call math/sdf: the distance of an observed vertex to the analytic
// surface is part of the projection and must not depend on the code under
// test).
func (s Shape) dist(v vector3.Float64, unit float64) float64 {
	p := v3(s.P, unit)
	r := float64(s.R) / unit
	switch s.T {
	case "sphere":
		return v.Sub(p).Length() - r
	case "box":
		h := v3(s.Q, unit).Scale(0.5)
		d := v.Sub(p)
		qx, qy, qz := math.Abs(d.X())-h.X(), math.Abs(d.Y())-h.Y(), math.Abs(d.Z())-h.Z()
		out := math.Sqrt(math.Max(qx, 0)*math.Max(qx, 0) + math.Max(qy, 0)*math.Max(qy, 0) + math.Max(qz, 0)*math.Max(qz, 0))
		return out + math.Min(math.Max(qx, math.Max(qy, qz)), 0)
	case "line":
		a, b := p, v3(s.Q, unit)
		ab := b.Sub(a)
		t := 0.0
		if l2 := ab.Dot(ab); l2 > 0 {
			t = math.Max(0, math.Min(1, v.Sub(a).Dot(ab)/l2))
		}
		return v.Sub(a.Add(ab.Scale(t))).Length() - r
	}
	panic("unknown shape " + s.T)
}

func (s Shape) field(unit float64) marching.Field {
	st := float64(s.S) / 1000
	switch s.T {
	case "sphere":
		return marching.Sphere(v3(s.P, unit), float64(s.R)/unit, st)
	case "box":
		return marching.Box(v3(s.P, unit), v3(s.Q, unit), st)
	case "line":
		return marching.Line(v3(s.P, unit), v3(s.Q, unit), float64(s.R)/unit, st)
	}
	panic("unknown shape " + s.T)
}

// execShape marches a union of analytic shapes (marching.Sphere/Box/Line,
// joined with CombineFields, one AddField) and projects the result: vertex
// positions relative to Org in units of 1/Scale, and the value of the true
// union field min_i s_i*d_i at every vertex relative to the threshold.
func execShape(c Case, raw json.RawMessage) Line {
	ln := emptyLine("shape", raw)
	unit := float64(c.Unit)
	if c.Unit == 0 {
		unit = 1000
	}
	cpu := float64(c.Cpu)
	cutoff := float64(c.Cut) / 1000
	m, res, msg := guarded(10*time.Minute, func() modeling.Mesh {
		fields := make([]marching.Field, len(c.Shapes))
		for i, s := range c.Shapes {
			fields[i] = s.field(unit)
		}
		f := marching.CombineFields(fields...)
		if c.Attr != modeling.PositionAttribute {
			f = marching.Field{Domain: f.Domain, Float1Functions: map[string]sample.Vec3ToFloat{
				c.Attr: f.Float1Functions[modeling.PositionAttribute]}}
		}
		canvas := marching.NewMarchingCanvas(float64(c.Cpu))
		canvas.AddField(f)
		if c.Attr == modeling.PositionAttribute {
			return canvas.March(cutoff)
		}
		return canvas.MarchOnAttribute(c.Attr, cutoff)
	})
	ln.Res, ln.Err = res, msg
	if res != "OK" {
		return ln
	}
	ln.Tris = triangles(m)
	if !m.HasFloat3Attribute(c.Attr) {
		return ln
	}
	org := v3(c.Org, unit)
	pos := m.Float3Attribute(c.Attr)
	inexact := true // positions of analytic shapes are not on a lattice; the flag is not judged
	for i := 0; i < pos.Len(); i++ {
		p := pos.At(i)
		q := p.Sub(org)
		ln.Pos = append(ln.Pos, []int{
			roundTo(q.X(), float64(c.Scale), &inexact), roundTo(q.Y(), float64(c.Scale), &inexact), roundTo(q.Z(), float64(c.Scale), &inexact)})
		f := math.Inf(1)
		for _, s := range c.Shapes {
			f = math.Min(f, float64(s.S)/1000*s.dist(p, unit))
		}
		fd := math.Round((f - cutoff) * 1000)
		if math.IsNaN(fd) || fd > 50000 {
			fd = 50000
		}
		if fd < -50000 {
			fd = -50000
		}
		ln.Fd = append(ln.Fd, int(fd))
		// where the vertex sits relative to the lattice: offset from the nearest lattice point
		off := func(x float64) int {
			l := x * cpu
			d := math.Round((l - math.Round(l)) * 1e5)
			if math.IsNaN(d) {
				return 50000
			}
			return int(d)
		}
		ln.Off = append(ln.Off, []int{off(p.X()), off(p.Y()), off(p.Z())})
	}
	return ln
}
