package surf

import (
	"encoding/json"
	"math"
	"time"

	"github.com/EliCDavis/polyform/math/geometry"
	"github.com/EliCDavis/polyform/math/sample"
	"github.com/EliCDavis/polyform/modeling"
	"github.com/EliCDavis/polyform/modeling/marching"
	"github.com/EliCDavis/vector/vector3"
)

// solid is a shape in world units: what marching.Sphere/Box/Line are called
// with, and what the harness' own closed forms are evaluated on.
type solid struct {
	t    string          // sphere | box | line
	p, q vector3.Float64 // sphere: centre p; box: centre p, full size q; line: from p to q
	r    float64         // radius
	s    float64         // strength
}

// dist is the harness' own closed form of the shape's signed distance (it
// does not call math/sdf: the distance of an observed vertex to the analytic
// surface is part of the projection and must not depend on the code under
// test).
func (s solid) dist(v vector3.Float64) float64 {
	switch s.t {
	case "sphere":
		return v.Sub(s.p).Length() - s.r
	case "box":
		h := s.q.Scale(0.5)
		d := v.Sub(s.p)
		qx, qy, qz := math.Abs(d.X())-h.X(), math.Abs(d.Y())-h.Y(), math.Abs(d.Z())-h.Z()
		out := math.Sqrt(math.Max(qx, 0)*math.Max(qx, 0) + math.Max(qy, 0)*math.Max(qy, 0) + math.Max(qz, 0)*math.Max(qz, 0))
		return out + math.Min(math.Max(qx, math.Max(qy, qz)), 0)
	case "line":
		a, b := s.p, s.q
		ab := b.Sub(a)
		t := 0.0
		if l2 := ab.Dot(ab); l2 > 0 {
			t = math.Max(0, math.Min(1, v.Sub(a).Dot(ab)/l2))
		}
		return v.Sub(a.Add(ab.Scale(t))).Length() - s.r
	}
	panic("unknown solid " + s.t)
}

func (s solid) field() marching.Field {
	switch s.t {
	case "sphere":
		return marching.Sphere(s.p, s.r, s.s)
	case "box":
		return marching.Box(s.p, s.q, s.s)
	case "line":
		return marching.Line(s.p, s.q, s.r, s.s)
	}
	panic("unknown solid " + s.t)
}

// solidOf turns a case's shape into world units (graze.go for the kinds given
// relative to the lattice).
func solidOf(s Shape, c Case) solid {
	unit := float64(c.Unit)
	if c.Unit == 0 {
		unit = 1000
	}
	st := float64(s.S) / 1000
	switch s.T {
	case "sphere":
		return solid{t: "sphere", p: v3(s.P, unit), r: float64(s.R) / unit, s: st}
	case "box":
		return solid{t: "box", p: v3(s.P, unit), q: v3(s.Q, unit), s: st}
	case "line":
		return solid{t: "line", p: v3(s.P, unit), q: v3(s.Q, unit), r: float64(s.R) / unit, s: st}
	case "gsphere", "gbox", "gline":
		return grazing(s, c)
	}
	panic("unknown shape " + s.T)
}

// execShape marches a union of analytic shapes (marching.Sphere/Box/Line,
// joined with CombineFields, one AddField) and projects the result: vertex
// positions relative to Org in units of 1/Scale, and the value of the true
// union field min_i s_i*d_i at every vertex relative to the threshold.
func execShape(c Case, raw json.RawMessage) Line {
	ln := emptyLine("shape", raw)
	unit := float64(c.Unit)
	if c.Unit == 0 {
		unit = 1000
	}
	cpu := float64(c.Cpu)
	cutoff := float64(c.Cut) / 1000
	solids := make([]solid, len(c.Shapes))
	for i, s := range c.Shapes {
		solids[i] = solidOf(s, c)
	}
	m, res, msg := guarded(10*time.Minute, func() modeling.Mesh {
		fields := make([]marching.Field, len(solids))
		for i, s := range solids {
			fields[i] = s.field()
		}
		f := marching.CombineFields(fields...)
		if c.Attr != modeling.PositionAttribute {
			f = marching.Field{Domain: f.Domain, Float1Functions: map[string]sample.Vec3ToFloat{
				c.Attr: f.Float1Functions[modeling.PositionAttribute]}}
		}
		canvas := marching.NewMarchingCanvas(float64(c.Cpu))
		// Decoy: the canvas also carries ANOTHER scalar attribute (a box shifted
		// by 37.5 cells that reaches into other storage blocks); the marched
		// attribute must not notice.
		decoy := func() {
			size := f.Domain.Size().Scale(0.8)
			centre := f.Domain.Center().Add(vector3.Fill(37.5 / cpu))
			canvas.AddField(marching.Field{Domain: geometry.NewAABB(centre, size.Scale(1.5)), Float1Functions: map[string]sample.Vec3ToFloat{
				"decoy": marching.Box(centre, size, 1).Float1Functions[modeling.PositionAttribute]}})
		}
		if c.Decoy == 1 {
			decoy()
		}
		switch c.Add {
		case 1:
			canvas.AddFieldParallel(f)
		case 2:
			canvas.AddFieldParallel2(f)
		default:
			canvas.AddField(f)
		}
		if c.Decoy == 2 {
			decoy()
		}
		march := func(cut float64) modeling.Mesh {
			switch {
			case c.Par == 1 && c.Attr == modeling.PositionAttribute:
				return canvas.MarchParallel(cut)
			case c.Par == 1:
				return canvas.MarchOnAttributeParallel(c.Attr, cut)
			case c.Attr == modeling.PositionAttribute:
				return canvas.March(cut)
			}
			return canvas.MarchOnAttribute(c.Attr, cut)
		}
		// Pre: the same canvas has been marched before, at other thresholds; the
		// observed march is the last one.
		for k := c.Pre; k > 0; k-- {
			_ = march(cutoff - 0.013*float64(k)/cpu)
		}
		return march(cutoff)
	})
	ln.Res, ln.Err = res, msg
	if res != "OK" {
		return ln
	}
	ln.Tris = triangles(m)
	if !m.HasFloat3Attribute(c.Attr) {
		return ln
	}
	org := v3(c.Org, unit)
	pos := m.Float3Attribute(c.Attr)
	inexact := true // positions of analytic shapes are not on a lattice; the flag is not judged
	for i := 0; i < pos.Len(); i++ {
		p := pos.At(i)
		q := p.Sub(org)
		ln.Pos = append(ln.Pos, []int{
			roundTo(q.X(), float64(c.Scale), &inexact), roundTo(q.Y(), float64(c.Scale), &inexact), roundTo(q.Z(), float64(c.Scale), &inexact)})
		f := math.Inf(1)
		for _, s := range solids {
			f = math.Min(f, s.s*s.dist(p))
		}
		fd := math.Round((f - cutoff) * 1000)
		if math.IsNaN(fd) || fd > 50000 {
			fd = 50000
		}
		if fd < -50000 {
			fd = -50000
		}
		ln.Fd = append(ln.Fd, int(fd))
		// where the vertex sits relative to the lattice: offset from the nearest lattice point
		off := func(x float64) int {
			l := x * cpu
			d := math.Round((l - math.Round(l)) * 1e5)
			if math.IsNaN(d) {
				return 50000
			}
			return int(d)
		}
		ln.Off = append(ln.Off, []int{off(p.X()), off(p.Y()), off(p.Z())})
	}
	return ln
}
