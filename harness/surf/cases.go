package surf

import (
	"bufio"
	"encoding/json"
	"fmt"
	"math"
	"os"
	"sync"
	"time"

	"github.com/EliCDavis/polyform/modeling"
	"github.com/EliCDavis/vector/vector3"
)

// Shape is one analytic shape of a "shape" case. Lengths are integers in
// 1/Unit world units (Case.Unit, 1000 unless a flavour needs finer ones).
// t = sphere: centre P, radius R; box: centre P, full size Q; line: from P to
// Q, radius R. S is the field strength in 1/1000.
//
// The "grazing" kinds (MarchGraze.tla) are given relative to the canvas'
// LATTICE instead: P is a lattice point (cells), Q an integer direction, R a
// size in 1/1000 cell and G[0] the depth, in 1e-7 cells, by which P lies
// inside (negative: outside) the iso-surface of the case's threshold:
//
//	gsphere : sphere of radius R whose outward normal at the point nearest to P is Q
//	gbox    : cube of half size R one of whose corners (the one in direction Q,
//	          components +-1) lies G[0] beyond P on every axis
//	gline   : capsule of radius R/2 and half length R/2 touched sideways, normal Q
//
// graze.go turns them into the world-space parameters of sphere/box/line.
type Shape struct {
	T string `json:"t"`
	P []int  `json:"p"`
	Q []int  `json:"q"`
	R int    `json:"r"`
	S int    `json:"s"`
	G []int  `json:"g"`
}

// Case is the union of the three case kinds of the family.
//
//	grid  : sparse lattice field replayed into a real MarchingCanvas (MarchGrid.tla)
//	shape : union of analytic shapes marched at a resolution/threshold
//	prim  : one solid primitive of modeling/primitives
type Case struct {
	Kind string `json:"kind"`
	Id   int    `json:"id"`

	// grid
	Samples [][]int `json:"samples,omitempty"` // x y z value*2
	Dflt    int     `json:"dflt,omitempty"`    // value*2 of every other lattice point
	Lo      []int   `json:"lo,omitempty"`      // declared domain, lattice points
	Hi      []int   `json:"hi,omitempty"`

	// grid + shape
	Cut  int    `json:"cut"`            // grid: threshold*2 ; shape: threshold*1000
	Cpu  int    `json:"cpu,omitempty"`  // cubes per unit
	Attr string `json:"attr,omitempty"` // attribute the field is registered under

	// shape
	Shapes  []Shape `json:"shapes,omitempty"`
	Unit    int     `json:"unit,omitempty"`    // denominator of the shapes' lengths and of Org
	Flavour string  `json:"flavour,omitempty"` // generator label (reports only)
	Org     []int   `json:"org,omitempty"`     // projection origin, 1/Unit world units
	Scale   int     `json:"scale,omitempty"`   // projection: integer units per world unit
	Par     int     `json:"par,omitempty"`     // 1: MarchParallel / MarchOnAttributeParallel
	Pre     int     `json:"pre,omitempty"`     // marches of the same canvas (other thresholds) BEFORE the observed one
	Add     int     `json:"add,omitempty"`     // entry point that stores the field: 0 AddField, 1 AddFieldParallel, 2 AddFieldParallel2
	Decoy   int     `json:"decoy,omitempty"`   // another field under another attribute on the same canvas (1 added before, 2 after)

	// prim
	Prim  string `json:"prim,omitempty"`
	Rows  int    `json:"rows,omitempty"`
	Cols  int    `json:"cols,omitempty"`
	Sides int    `json:"sides,omitempty"`
	D     []int  `json:"d,omitempty"` // dimensions in 1/16 units
	UV    int    `json:"uv,omitempty"`
	Chain int    `json:"chain,omitempty"`
	Hist  int    `json:"hist,omitempty"` // > 0: member of a history (consecutive cases with the same number): every mesh is kept and observed again after the last constructor call
	Ord   int    `json:"ord,omitempty"`  // position inside the history / group (chosen by the generator)
	Conc  int    `json:"conc,omitempty"` // > 0: member of a group whose constructors are called at the same time from several goroutines
	Mag   []int  `json:"mag,omitempty"`  // magnitude <<base, exp>> (Solids.tla): every dimension is d/16 * base^exp; absent = 1
}

// Line is one observation. Only integers, strings and booleans; slices are
// never nil (TLC cannot compare null with a sequence).
type Line struct {
	K     string          `json:"k"`
	Case  json.RawMessage `json:"case"`
	Res   string          `json:"res"` // OK | FAIL (panic/error of the code under test) | TIMEOUT
	Err   string          `json:"err"`
	Exact bool            `json:"exact"` // every logged position is on the projection lattice (1e-6)
	Tris  [][]int         `json:"tris"`  // vertex numbers of every triangle of the returned mesh
	Pos   [][]int         `json:"pos"`   // per vertex: projected position
	Fd    []int           `json:"fd"`    // shape: per vertex (field(v) - threshold) * 1000, clamped to +-50000
	Off   [][]int         `json:"off"`   // shape: per vertex offset from the nearest lattice point, 1e-5 cells
	Cls   []int           `json:"cls"`   // prim: per vertex position class (coincident positions merged at 1e-6)
	Nrm   [][]int         `json:"nrm"`   // prim: per vertex normal * 256 ([] when the mesh has no normals)

	// prim histories / concurrent groups (history.go). The fields above are the
	// observation made when the constructor returned.
	After int   `json:"after"` // constructor calls made between that moment and the second observation of the SAME mesh value
	Peers int   `json:"peers"` // constructor calls of other goroutines that ran at the same time as this case's calls
	Alt   []Alt `json:"alt"`   // every further observation of this case that differs from the first one
}

// Alt is another observation of the same case: the mesh the caller still
// holds, projected again after later constructor calls ("kept"), or the
// result of the same call made while other goroutines construct primitives
// ("conc"). Observations equal to the first one are not repeated (lossless:
// TLC would judge them exactly as it judges the first).
type Alt struct {
	Why   string  `json:"why"`
	Res   string  `json:"res"`
	Err   string  `json:"err"`
	Exact bool    `json:"exact"`
	Tris  [][]int `json:"tris"`
	Pos   [][]int `json:"pos"`
	Cls   []int   `json:"cls"`
	Nrm   [][]int `json:"nrm"`
}

func emptyLine(kind string, raw json.RawMessage) Line {
	return Line{K: kind, Case: raw, Res: "OK", Exact: true, Tris: [][]int{}, Pos: [][]int{}, Fd: []int{}, Off: [][]int{}, Cls: []int{}, Nrm: [][]int{}, Alt: []Alt{}}
}

func v3(p []int, unit float64) vector3.Float64 {
	return vector3.New(float64(p[0])/unit, float64(p[1])/unit, float64(p[2])/unit)
}

// roundTo projects a real onto the integer lattice of `scale` units.
func roundTo(x, scale float64, exact *bool) int {
	y := x * scale
	if math.IsNaN(y) || math.IsInf(y, 0) || math.Abs(y) > 1e9 {
		*exact = false
		return 0
	}
	r := math.Round(y)
	if math.Abs(y-r) > 1e-6 {
		*exact = false
	}
	return int(r)
}

func triangles(m modeling.Mesh) [][]int {
	idx := m.Indices()
	out := make([][]int, 0, idx.Len()/3)
	for i := 0; i+2 < idx.Len(); i += 3 {
		out = append(out, []int{idx.At(i), idx.At(i + 1), idx.At(i + 2)})
	}
	return out
}

// guarded runs f (a call into polyform) with recover() and a deadline. A
// panic is an observation ("FAIL"), a hang too ("TIMEOUT").
func guarded(deadline time.Duration, f func() modeling.Mesh) (m modeling.Mesh, res, msg string) {
	type outcome struct {
		m   modeling.Mesh
		res string
		msg string
	}
	ch := make(chan outcome, 1)
	go func() {
		defer func() {
			if r := recover(); r != nil {
				ch <- outcome{res: "FAIL", msg: fmt.Sprint(r)}
			}
		}()
		ch <- outcome{m: f(), res: "OK"}
	}()
	select {
	case o := <-ch:
		return o.m, o.res, o.msg
	case <-time.After(deadline):
		return modeling.EmptyMesh(modeling.TriangleTopology), "TIMEOUT", "deadline exceeded"
	}
}

func execCase(raw json.RawMessage) Line {
	var c Case
	if err := json.Unmarshal(raw, &c); err != nil {
		panic(fmt.Errorf("bad case %s: %w", string(raw), err))
	}
	switch c.Kind {
	case "grid":
		return execGrid(c, raw)
	case "shape":
		return execShape(c, raw)
	case "prim":
		return execPrim(c, raw)
	}
	panic("unknown case kind " + c.Kind)
}

// RunCases executes the cases of `in` (ndjson; lines {"k":"reset"} are copied
// through) with `par` workers and writes one observation line per case, in
// input order. Consecutive cases with the same history number (or the same
// concurrent-group number) form one unit that a single worker executes
// (history.go); with par = 1 the whole file is one deterministic sequence of
// calls in one process.
func RunCases(in, out string, par, rounds int) error {
	fi, err := os.Open(in)
	if err != nil {
		return err
	}
	defer fi.Close()
	sc := bufio.NewScanner(fi)
	sc.Buffer(make([]byte, 1<<20), 1<<30)
	var raws []json.RawMessage
	for sc.Scan() {
		if len(sc.Bytes()) == 0 {
			continue
		}
		raws = append(raws, append(json.RawMessage{}, sc.Bytes()...))
	}
	if err := sc.Err(); err != nil {
		return err
	}
	if par < 1 {
		par = 1
	}
	type probe struct {
		K    string `json:"k"`
		Kind string `json:"kind"`
		Hist int    `json:"hist"`
		Conc int    `json:"conc"`
	}
	probes := make([]probe, len(raws))
	for i := range raws {
		_ = json.Unmarshal(raws[i], &probes[i])
	}
	type unit struct{ from, to int } // raws[from:to]
	var units []unit
	for i := 0; i < len(raws); {
		j := i + 1
		if probes[i].Kind == "prim" && (probes[i].Hist > 0 || probes[i].Conc > 0) {
			for j < len(raws) && probes[j].Kind == "prim" && probes[j].Hist == probes[i].Hist && probes[j].Conc == probes[i].Conc {
				j++
			}
		}
		units = append(units, unit{i, j})
		i = j
	}
	results := make([][]byte, len(raws))
	var wg sync.WaitGroup
	next := make(chan unit)
	for w := 0; w < par; w++ {
		wg.Add(1)
		go func() {
			defer wg.Done()
			for u := range next {
				var lines []Line
				switch {
				case probes[u.from].K == "reset":
					results[u.from] = raws[u.from]
					continue
				case probes[u.from].Conc > 0:
					lines = execConcurrent(raws[u.from:u.to], rounds)
				case probes[u.from].Hist > 0:
					lines = execHistory(raws[u.from:u.to])
				default:
					lines = []Line{execCase(raws[u.from])}
				}
				for k, ln := range lines {
					b, err := json.Marshal(ln)
					if err != nil {
						panic(err)
					}
					results[u.from+k] = b
				}
			}
		}()
	}
	for _, u := range units {
		next <- u
	}
	close(next)
	wg.Wait()
	fo, err := os.Create(out)
	if err != nil {
		return err
	}
	defer fo.Close()
	w := bufio.NewWriterSize(fo, 1<<20)
	defer w.Flush()
	for _, b := range results {
		w.Write(b)
		w.WriteByte('\n')
	}
	return nil
}
