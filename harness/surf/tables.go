// Package surf is the executor/projection side of the surface family
// (C09 marching cubes, C18 solid primitives). It runs real polyform code on
// cases chosen by the TLA+ generators (or seeded), and writes what it
// observed as integers in ndjson. It holds no property logic: every
// judgement is made by TLC on specs/TraceSurf.tla and specs/MarchTable.tla.
package surf

import (
	"encoding/json"
	"os"

	"github.com/EliCDavis/polyform/modeling/marching"
)

type tablesOut struct {
	Tri     [][]int `json:"tri"`
	CA      []int   `json:"ca"`
	CB      []int   `json:"cb"`
	Section int     `json:"section"`
}

// DumpTables writes the marching lookup tables of the BUILT package (hook
// modeling/marching/verif_export.go, build tag verif) as JSON.
func DumpTables(out string) error {
	t := marching.VerifExportTables()
	b, err := json.Marshal(tablesOut{Tri: t.Triangulation, CA: t.CornerA, CB: t.CornerB, Section: t.SectionSize})
	if err != nil {
		return err
	}
	return os.WriteFile(out, append(b, '\n'), 0o644)
}
