package surf

import (
	"encoding/json"
	"math"
	"time"

	"github.com/EliCDavis/polyform/math/geometry"
	"github.com/EliCDavis/polyform/math/sample"
	"github.com/EliCDavis/polyform/modeling"
	"github.com/EliCDavis/polyform/modeling/marching"
	"github.com/EliCDavis/vector/vector3"
)

// execGrid replays a sparse lattice field into a real MarchingCanvas: the
// field function is a table lookup at round(pos * cubesPerUnit), the declared
// domain is the lattice box lo..hi, and the result of March /
// MarchOnAttribute is projected to units of 1/24 cell.
func execGrid(c Case, raw json.RawMessage) Line {
	ln := emptyLine("grid", raw)
	cpu := float64(c.Cpu)
	table := make(map[[3]int]float64, len(c.Samples))
	for _, s := range c.Samples {
		table[[3]int{s[0], s[1], s[2]}] = float64(s[3]) / 2
	}
	dflt := float64(c.Dflt) / 2
	field := marching.Field{
		Domain: geometry.NewAABBFromPoints(v3(c.Lo, cpu), v3(c.Hi, cpu)),
		Float1Functions: map[string]sample.Vec3ToFloat{
			c.Attr: func(v vector3.Float64) float64 {
				k := [3]int{int(math.Round(v.X() * cpu)), int(math.Round(v.Y() * cpu)), int(math.Round(v.Z() * cpu))}
				if x, ok := table[k]; ok {
					return x
				}
				return dflt
			},
		},
	}
	cutoff := float64(c.Cut) / 2
	m, res, msg := guarded(10*time.Minute, func() modeling.Mesh {
		canvas := marching.NewMarchingCanvas(cpu)
		canvas.AddField(field)
		if c.Attr == modeling.PositionAttribute {
			return canvas.March(cutoff)
		}
		return canvas.MarchOnAttribute(c.Attr, cutoff)
	})
	ln.Res, ln.Err = res, msg
	if res != "OK" {
		return ln
	}
	ln.Tris = triangles(m)
	if !m.HasFloat3Attribute(c.Attr) {
		return ln // an empty result carries no attribute
	}
	pos := m.Float3Attribute(c.Attr)
	for i := 0; i < pos.Len(); i++ {
		p := pos.At(i)
		ln.Pos = append(ln.Pos, []int{
			roundTo(p.X(), cpu*24, &ln.Exact), roundTo(p.Y(), cpu*24, &ln.Exact), roundTo(p.Z(), cpu*24, &ln.Exact)})
	}
	return ln
}
