package surf

import (
	"bufio"
	"encoding/json"
	"fmt"
	"math"
	"math/rand"
	"os"
)

// GenRandom writes n seeded cases of the given kind (binding B2: inputs at
// sizes and positions TLC does not enumerate). It only chooses inputs.
func GenRandom(out, kind string, seed int64, n, maxCells, maxCount int) error {
	fo, err := os.Create(out)
	if err != nil {
		return err
	}
	defer fo.Close()
	w := bufio.NewWriter(fo)
	defer w.Flush()
	enc := json.NewEncoder(w)
	rng := rand.New(rand.NewSource(seed*7919 + 17))
	for i := 0; i < n; i++ {
		var c Case
		switch kind {
		case "shape":
			c = randomShapeCase(rng, i, maxCells)
			// API variants and state carried on one canvas (shape.go), on a fixed
			// part of the cases: parallel marcher, earlier marches of the same
			// canvas, a second attribute on the same canvas
			if i%5 == 3 {
				c.Par = 1
			}
			if i%7 == 2 {
				c.Pre = 1 + i%2
			}
			if i%6 == 4 {
				c.Decoy = 1 + (i/6)%2
			}
		case "prim":
			c = randomPrimCase(rng, i, maxCount)
		default:
			return fmt.Errorf("unknown kind %s", kind)
		}
		if err := enc.Encode(c.wire()); err != nil {
			return err
		}
	}
	return nil
}

// wire is the case as the specifications read it: exactly the fields of its
// kind, every one present (TLC cannot test a record for a missing field cheaply).
func (c Case) wire() map[string]any {
	switch c.Kind {
	case "shape":
		shapes := make([]Shape, len(c.Shapes))
		for i, s := range c.Shapes {
			if s.G == nil {
				s.G = []int{}
			}
			shapes[i] = s
		}
		return map[string]any{"kind": c.Kind, "id": c.Id, "shapes": shapes, "cpu": c.Cpu, "cut": c.Cut,
			"attr": c.Attr, "org": c.Org, "scale": c.Scale, "unit": c.Unit, "flavour": c.Flavour,
			"par": c.Par, "pre": c.Pre, "decoy": c.Decoy, "add": c.Add}
	case "prim":
		return map[string]any{"kind": c.Kind, "id": c.Id, "prim": c.Prim, "rows": c.Rows, "cols": c.Cols,
			"sides": c.Sides, "d": c.D, "uv": c.UV, "chain": c.Chain, "scale": c.Scale,
			"hist": c.Hist, "ord": c.Ord, "conc": c.Conc, "mag": c.Mag}
	}
	panic("no wire format for " + c.Kind)
}

func milli(x float64) int { return int(math.Round(x * 1000)) }

var shapeFlavours = []string{"generic", "bundle", "straddle", "thin", "plate", "negative", "tie", "sliver", "long", "straddle", "tiny", "generic", "union", "bundle"}

// randomShapeCase: a union of 1-3 spheres / boxes / capsules. Flavours place
// it generically, across one or several of the canvas' 100-sample block
// boundaries (in every axis), at negative coordinates, exactly on lattice
// points with radii of whole cells (values equal to the threshold at
// corners), as a long capsule through several blocks, as a thin capsule on a
// fine canvas (about one cell thick: lattice points with surface on opposite
// sides), as a bundle of ten such capsules, so small that no lattice point is
// below the threshold, or ("sliver", "plate") as a very thin plate on a lattice
// plane next to an ordinary sphere (so that the enclosed volume stays positive).
func randomShapeCase(rng *rand.Rand, id, maxCells int) Case {
	flavour := shapeFlavours[id%len(shapeFlavours)]
	if flavour == "sliver" {
		return sliverCase(rng, id, 400, []int{1, 2, 4})
	}
	if flavour == "plate" {
		return sliverCase(rng, id, 120000, []int{20, 25})
	}
	c := Case{Kind: "shape", Id: id, Attr: "Position", Unit: 1000, Flavour: flavour}
	if rng.Intn(4) == 0 {
		c.Attr = "blob"
	}
	cpus := []int{2, 3, 4, 5, 7, 8, 10, 12, 16, 20, 25}
	c.Cpu = cpus[rng.Intn(len(cpus))]
	if flavour == "tie" {
		c.Cpu = []int{2, 4, 8, 5, 10}[rng.Intn(5)]
	}
	cpu := float64(c.Cpu)
	cells := 2 + rng.Float64()*float64(maxCells-2) // main radius / half size in cells
	r := cells / cpu
	centre := [3]float64{}
	for a := 0; a < 3; a++ {
		switch flavour {
		case "straddle", "union":
			b := float64(rng.Intn(4) - 1) // block boundary -100, 0, 100, 200 (lattice points)
			centre[a] = (100*b + (rng.Float64()-0.5)*cells) / cpu
		case "negative":
			centre[a] = -(1+rng.Float64()*60)/cpu - r
		case "tie":
			centre[a] = float64(rng.Intn(240)-120) / cpu
		default:
			centre[a] = (rng.Float64() - 0.5) * 90 / cpu
		}
	}
	strengths := []int{1000, 1000, 1500, 2000}
	first := Shape{P: []int{milli(centre[0]), milli(centre[1]), milli(centre[2])}, Q: []int{0, 0, 0}, S: strengths[rng.Intn(len(strengths))]}
	switch {
	case flavour == "tie":
		first.T = "sphere"
		first.R = milli(float64(2+rng.Intn(maxInt(1, maxCells-2))) / cpu)
		if rng.Intn(3) == 0 { // a box whose faces lie in lattice planes
			first.T = "box"
			k := 2 * (1 + rng.Intn(maxInt(1, maxCells/2)))
			first.Q = []int{milli(float64(k) / cpu), milli(float64(k+2) / cpu), milli(float64(k) / cpu)}
			first.R = 0
		}
	case flavour == "thin" || flavour == "bundle":
		first.T = "line"
		c.Cpu = []int{16, 20, 25, 32}[rng.Intn(4)]
		cpu = float64(c.Cpu)
		first.S = 1000
		first.R = milli((0.55 + rng.Float64()*0.7) / cpu)
		l := (10 + rng.Float64()*float64(4*maxCells)) / cpu
		dir := []float64{rng.Float64() - 0.5, rng.Float64() - 0.5, rng.Float64() - 0.5}
		n := math.Sqrt(dir[0]*dir[0] + dir[1]*dir[1] + dir[2]*dir[2])
		first.Q = []int{first.P[0] + milli(l*dir[0]/n), first.P[1] + milli(l*dir[1]/n), first.P[2] + milli(l*dir[2]/n)}
	case flavour == "tiny":
		first.T = "sphere"
		first.R = milli(0.2 / cpu)
		if first.R < 1 {
			first.R = 1
		}
	case flavour == "long":
		first.T = "line"
		c.Cpu = []int{8, 10, 12, 16}[rng.Intn(4)]
		cpu = float64(c.Cpu)
		axis := rng.Intn(3)
		a := []float64{(rng.Float64()*20 - 10) / cpu, (100 + rng.Float64()*10 - 5) / cpu, (rng.Float64()*20 - 110) / cpu}
		b := []float64{a[0] + rng.Float64()*6/cpu, a[1] + rng.Float64()*6/cpu, a[2] + rng.Float64()*6/cpu}
		a[axis] = (-130 - rng.Float64()*20) / cpu
		b[axis] = (130 + rng.Float64()*90) / cpu
		first.P = []int{milli(a[0]), milli(a[1]), milli(a[2])}
		first.Q = []int{milli(b[0]), milli(b[1]), milli(b[2])}
		first.R = milli((2 + rng.Float64()*2) / cpu)
	default:
		switch rng.Intn(3) {
		case 0:
			first.T = "sphere"
			first.R = milli(r)
		case 1:
			first.T = "box"
			first.Q = []int{milli(2 * r * (0.5 + rng.Float64()*0.5)), milli(2 * r * (0.5 + rng.Float64()*0.5)), milli(2 * r)}
			first.S = []int{500, 1000, 2000}[rng.Intn(3)]
		default:
			first.T = "line"
			first.R = milli(r * (0.4 + 0.4*rng.Float64()))
			first.Q = []int{first.P[0] + milli((rng.Float64()-0.5)*2*r), first.P[1] + milli((rng.Float64()-0.5)*2*r), first.P[2] + milli((rng.Float64()-0.5)*2*r)}
		}
	}
	c.Shapes = append([]Shape{first}, c.Shapes...)
	extra := 0
	if flavour == "bundle" { // nine more thin capsules through the same neighbourhood
		cpu = float64(c.Cpu)
		for k := 0; k < 9; k++ {
			s := Shape{T: "line", S: 1000, R: milli((0.55 + rng.Float64()*0.7) / cpu)}
			jit := func() int { return milli((rng.Float64() - 0.5) * 24 / cpu) }
			s.P = []int{first.P[0] + jit(), first.P[1] + jit(), first.P[2] + jit()}
			l := (8 + rng.Float64()*20) / cpu
			dir := []float64{rng.Float64() - 0.5, rng.Float64() - 0.5, rng.Float64() - 0.5}
			n := math.Sqrt(dir[0]*dir[0] + dir[1]*dir[1] + dir[2]*dir[2])
			s.Q = []int{s.P[0] + milli(l*dir[0]/n), s.P[1] + milli(l*dir[1]/n), s.P[2] + milli(l*dir[2]/n)}
			c.Shapes = append(c.Shapes, s)
		}
	}
	if flavour == "union" {
		extra = 1 + rng.Intn(2)
	} else if flavour != "long" && flavour != "tie" && flavour != "thin" && flavour != "tiny" && flavour != "bundle" && rng.Intn(3) == 0 {
		extra = 1
	}
	for k := 0; k < extra; k++ {
		s := Shape{Q: []int{0, 0, 0}, S: strengths[rng.Intn(len(strengths))]}
		off := func() int { return milli((rng.Float64() - 0.5) * 3.2 * r) }
		s.P = []int{first.P[0] + off(), first.P[1] + off(), first.P[2] + off()}
		switch rng.Intn(3) {
		case 0:
			s.T = "sphere"
			s.R = milli(r * (0.5 + 0.5*rng.Float64()))
		case 1:
			s.T = "box"
			s.Q = []int{milli(r * (0.6 + rng.Float64())), milli(r * (0.6 + rng.Float64())), milli(r * (0.6 + rng.Float64()))}
		default:
			s.T = "line"
			s.R = milli(r * (0.3 + 0.3*rng.Float64()))
			s.Q = []int{s.P[0] + off(), s.P[1] + off(), s.P[2] + off()}
		}
		c.Shapes = append(c.Shapes, s)
	}
	// threshold: 0, or below zero but shallower than the thinnest shape
	thin := math.Inf(1)
	for _, s := range c.Shapes {
		half := float64(s.R)
		if s.T == "box" {
			half = math.Min(float64(s.Q[0]), math.Min(float64(s.Q[1]), float64(s.Q[2]))) / 2
		}
		thin = math.Min(thin, half*float64(s.S)/1000)
	}
	c.Cut = 0
	if rng.Intn(5) < 2 && flavour != "thin" && flavour != "tiny" && flavour != "bundle" {
		c.Cut = -int(thin * (0.1 + 0.4*rng.Float64()))
		if flavour == "tie" { // keep the threshold on a whole number of cells below zero
			c.Cut = -milli(1/cpu) * c.Shapes[0].S / 1000
		}
	}
	// entry point storing the union: sequential, AddFieldParallel, AddFieldParallel2 (a fixed
	// function of the case number: the shapes of a seed stay what they were)
	c.Add = (id/2 + id/7) % 3
	setFrame(&c)
	return c
}

// setFrame chooses the projection frame: origin at the centre of the shapes'
// bounding box, scale so that twice that box fits the int32 budget of Surface.tla.
func setFrame(c *Case) {
	cpu := float64(c.Cpu)
	unit := float64(c.Unit)
	lo := [3]float64{math.Inf(1), math.Inf(1), math.Inf(1)}
	hi := [3]float64{math.Inf(-1), math.Inf(-1), math.Inf(-1)}
	for _, s := range c.Shapes {
		pts := [][]int{s.P}
		pad := float64(s.R)
		if s.T == "line" {
			pts = append(pts, s.Q)
		}
		if s.T == "box" {
			pad = math.Max(float64(s.Q[0]), math.Max(float64(s.Q[1]), float64(s.Q[2]))) / 2
		}
		for _, p := range pts {
			for a := 0; a < 3; a++ {
				lo[a] = math.Min(lo[a], float64(p[a])-pad)
				hi[a] = math.Max(hi[a], float64(p[a])+pad)
			}
		}
	}
	ext := 0.0
	c.Org = make([]int, 3)
	for a := 0; a < 3; a++ {
		c.Org[a] = int(math.Round((lo[a] + hi[a]) / 2))
		ext = math.Max(ext, (hi[a]-lo[a])/2)
	}
	ext = ext/unit + 2/cpu + 0.01 // world units, with a margin of two cells
	c.Scale = int(math.Floor(8000 / ext))
	if c.Scale < 1 {
		c.Scale = 1
	}
}

// sliverCase: a plate `thick`/1e7 cells thick centred on a lattice plane
// (lengths in 1e-7 units), and a sphere well away from it. "sliver" (4e-5
// cell) is thinner than the marcher's own 1e-4 cell vertex identification;
// "plate" (0.012 cell on a fine canvas, 0.0005-0.0006 world units) is far
// thicker than that but thinner than 0.001 world units.
func sliverCase(rng *rand.Rand, id, thick int, cpus []int) Case {
	c := Case{Kind: "shape", Id: id, Attr: "Position", Unit: 10000000, Flavour: "sliver", Cut: 0}
	if thick > 400 {
		c.Flavour = "plate"
	}
	c.Cpu = cpus[rng.Intn(len(cpus))]
	u := c.Unit / c.Cpu // one cell
	k := rng.Intn(41) - 20
	plate := Shape{T: "box", S: 1000, R: 0,
		P: []int{(rng.Intn(9)-4)*u + u/3, (rng.Intn(9)-4)*u + u/7, k * u},
		Q: []int{(3+rng.Intn(4))*u + u/5, (3+rng.Intn(3))*u + u/9, thick / c.Cpu}}
	ball := Shape{T: "sphere", S: 1000, Q: []int{0, 0, 0}, R: 2*u + u/3,
		P: []int{plate.P[0] + u/11, plate.P[1] - u/13, plate.P[2] + 7*u + u/17}}
	c.Shapes = []Shape{plate, ball}
	setFrame(&c)
	return c
}

func maxInt(a, b int) int {
	if a > b {
		return a
	}
	return b
}

var primKinds = []string{"uvsphere", "uvsphere_unwelded", "cube_welded", "cube_quads", "cylinder", "hemisphere"}

// PrimScale is the projection scale used for primitives: the largest power
// of two S with extent * S <= 16384 (extent in 1/16 units).
func PrimScale(extent16 int) int {
	s := 1
	for extent16*s*2 <= 16*16384 {
		s *= 2
	}
	return s
}

func randomPrimCase(rng *rand.Rand, id, maxCount int) Case {
	c := Case{Kind: "prim", Id: id, Prim: primKinds[rng.Intn(len(primKinds))]}
	dim := func() int { return 2 + rng.Intn(63) } // 1/8 .. 4 in 1/16 units
	count := func(lo int) int { return lo + rng.Intn(maxInt(1, maxCount-lo+1)) }
	ext := 1
	switch c.Prim {
	case "uvsphere", "uvsphere_unwelded", "hemisphere":
		c.Rows, c.Cols = count(2), count(3)
		c.D = []int{dim(), 0, 0}
		ext = c.D[0]
	case "cube_welded", "cube_quads":
		c.D = []int{dim(), dim(), dim()}
		c.UV = rng.Intn(6)
		ext = (maxInt(c.D[0], maxInt(c.D[1], c.D[2])) + 1) / 2
	case "cylinder":
		c.Sides = count(3)
		c.D = []int{dim(), dim(), 0}
		c.UV = rng.Intn(6)
		ext = maxInt(c.D[0], (c.D[1]+1)/2)
	}
	c.Scale = PrimScale(ext)
	// magnitude: one tuple in three is built at another order of magnitude (2^e, 10^e)
	c.Mag = []int{2, 0}
	switch rng.Intn(6) {
	case 0:
		c.Mag = []int{2, rng.Intn(61) - 40}
	case 1:
		c.Mag = []int{10, rng.Intn(16) - 12}
	}
	// seeded tuples are constructed in histories of ten (history.go)
	c.Hist = 100000 + id/10
	c.Ord = id % 10
	return c
}
