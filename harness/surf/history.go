package surf

import (
	"encoding/json"
	"fmt"
	"hash/fnv"
	"math"
	"reflect"
	"sync"
	"time"

	"github.com/EliCDavis/polyform/modeling"
)

// This file adds two ways of CALLING the constructors of modeling/primitives
// that a one-call-at-a-time executor never exercises. It still only executes
// and projects; what an observation has to look like is decided by TLC.
//
//	history    the cases are constructed one after the other by one goroutine,
//	           every returned mesh is kept, and after the last call every kept
//	           mesh is projected a second time (a primitive, once returned,
//	           is still held by its caller while others are built)
//	concurrent the cases are constructed at the same time by one goroutine
//	           each, `rounds` times; every DIFFERENT result a case produced is
//	           an observation
//
// Observations that equal the first one are dropped (see Alt).

func parsePrim(raw json.RawMessage) Case {
	var c Case
	if err := json.Unmarshal(raw, &c); err != nil {
		panic(fmt.Errorf("bad case %s: %w", string(raw), err))
	}
	if c.Kind != "prim" {
		panic("histories and concurrent groups are made of prim cases, got " + c.Kind)
	}
	return c
}

func sameObservation(a, b Line) bool {
	return a.Res == b.Res && a.Err == b.Err && a.Exact == b.Exact &&
		reflect.DeepEqual(a.Tris, b.Tris) && reflect.DeepEqual(a.Pos, b.Pos) &&
		reflect.DeepEqual(a.Cls, b.Cls) && reflect.DeepEqual(a.Nrm, b.Nrm)
}

func altOf(why string, ln Line) Alt {
	return Alt{Why: why, Res: ln.Res, Err: ln.Err, Exact: ln.Exact, Tris: ln.Tris, Pos: ln.Pos, Cls: ln.Cls, Nrm: ln.Nrm}
}

func execHistory(raws []json.RawMessage) []Line {
	n := len(raws)
	cases := make([]Case, n)
	meshes := make([]modeling.Mesh, n)
	lines := make([]Line, n)
	for i, raw := range raws {
		cases[i] = parsePrim(raw)
		c := cases[i]
		m, res, msg := guarded(2*time.Minute, func() modeling.Mesh { return buildPrim(c) })
		meshes[i] = m
		lines[i] = projectPrim(c, raw, m, res, msg)
	}
	for i := range raws {
		lines[i].After = n - 1 - i
		if lines[i].Res != "OK" || lines[i].After == 0 {
			continue
		}
		again := projectPrim(cases[i], raws[i], meshes[i], "OK", "")
		if !sameObservation(lines[i], again) {
			lines[i].Alt = append(lines[i].Alt, altOf("kept", again))
		}
	}
	return lines
}

// meshDigest identifies the content a projection reads (indices, positions,
// normals, bit for bit), so that equal results are projected only once.
func meshDigest(m modeling.Mesh, res, msg string) [2]uint64 {
	h := fnv.New128a()
	var b [8]byte
	put := func(x uint64) {
		for i := 0; i < 8; i++ {
			b[i] = byte(x >> (8 * i))
		}
		h.Write(b[:])
	}
	h.Write([]byte(res))
	h.Write([]byte(msg))
	if res == "OK" {
		idx := m.Indices()
		put(uint64(idx.Len()))
		for i := 0; i < idx.Len(); i++ {
			put(uint64(idx.At(i)))
		}
		for _, attr := range []string{modeling.PositionAttribute, modeling.NormalAttribute} {
			if !m.HasFloat3Attribute(attr) {
				put(0xffffffff)
				continue
			}
			a := m.Float3Attribute(attr)
			put(uint64(a.Len()))
			for i := 0; i < a.Len(); i++ {
				v := a.At(i)
				put(math.Float64bits(v.X()))
				put(math.Float64bits(v.Y()))
				put(math.Float64bits(v.Z()))
			}
		}
	}
	s := h.Sum(nil)
	var out [2]uint64
	for i := 0; i < 8; i++ {
		out[0] |= uint64(s[i]) << (8 * i)
		out[1] |= uint64(s[8+i]) << (8 * i)
	}
	return out
}

const concInner = 3  // calls per goroutine and round
const concMaxAlt = 6 // different results kept per case

func execConcurrent(raws []json.RawMessage, rounds int) []Line {
	if rounds < 1 {
		rounds = 1
	}
	k := len(raws)
	cases := make([]Case, k)
	for i, raw := range raws {
		cases[i] = parsePrim(raw)
	}
	type result struct {
		m        modeling.Mesh
		res, msg string
	}
	lines := make([]Line, k)
	have := make([]bool, k)
	seen := make([]map[[2]uint64]bool, k)
	for i := range seen {
		seen[i] = map[[2]uint64]bool{}
	}
	for r := 0; r < rounds; r++ {
		got := make([][]result, k)
		start := make(chan struct{})
		var wg sync.WaitGroup
		for i := 0; i < k; i++ {
			wg.Add(1)
			go func(i int) {
				defer wg.Done()
				c := cases[i]
				<-start
				for it := 0; it < concInner; it++ {
					m, res, msg := guarded(2*time.Minute, func() modeling.Mesh { return buildPrim(c) })
					got[i] = append(got[i], result{m, res, msg})
				}
			}(i)
		}
		close(start)
		wg.Wait()
		for i := 0; i < k; i++ {
			for _, g := range got[i] {
				d := meshDigest(g.m, g.res, g.msg)
				if seen[i][d] {
					continue
				}
				seen[i][d] = true
				ln := projectPrim(cases[i], raws[i], g.m, g.res, g.msg)
				if !have[i] {
					lines[i], have[i] = ln, true
					continue
				}
				dup := sameObservation(lines[i], ln)
				for _, a := range lines[i].Alt {
					dup = dup || sameObservation(Line{Res: a.Res, Err: a.Err, Exact: a.Exact, Tris: a.Tris, Pos: a.Pos, Cls: a.Cls, Nrm: a.Nrm}, ln)
				}
				if !dup && len(lines[i].Alt) < concMaxAlt {
					lines[i].Alt = append(lines[i].Alt, altOf("conc", ln))
				}
			}
		}
	}
	for i := range lines {
		lines[i].Peers = rounds * concInner * (k - 1)
	}
	return lines
}
