package surf

import (
	"encoding/json"
	"math"
	"time"

	"github.com/EliCDavis/polyform/modeling"
	"github.com/EliCDavis/polyform/modeling/primitives"
	"github.com/EliCDavis/vector/vector2"
	"github.com/EliCDavis/vector/vector3"
)

func stripUV() *primitives.StripUVs {
	return &primitives.StripUVs{Start: vector2.New(0, 0.5), End: vector2.New(1, 0.5), Width: 1}
}

func circleUV() *primitives.CircleUVs {
	return &primitives.CircleUVs{Center: vector2.New(0.5, 0.5), Radius: 0.5}
}

// UV option codes (Solids.tla: UvOptions). 0 = no UV struct at all.
func cubeUVs(code int) *primitives.CubeUVs {
	switch code {
	case 0:
		return nil
	case 1:
		return primitives.DefaultCubeUVs()
	case 2:
		return &primitives.CubeUVs{Top: stripUV()}
	case 3:
		return &primitives.CubeUVs{Left: stripUV()}
	case 4:
		return &primitives.CubeUVs{Front: stripUV(), Right: stripUV()}
	}
	return &primitives.CubeUVs{}
}

func cylinderUVs(code int) *primitives.CylinderUVs {
	switch code {
	case 0:
		return nil
	case 1:
		return &primitives.CylinderUVs{Top: circleUV(), Bottom: circleUV(), Side: stripUV()}
	case 2:
		return &primitives.CylinderUVs{Side: stripUV()}
	case 3:
		return &primitives.CylinderUVs{Top: circleUV()}
	case 4:
		return &primitives.CylinderUVs{Bottom: circleUV(), Side: stripUV()}
	}
	return &primitives.CylinderUVs{}
}

// magnitude is the factor base^exp of the case's magnitude (Solids.tla: the
// real dimension i is d[i]/16 * base^exp). Powers of two are exact.
func magnitude(c Case) float64 {
	if len(c.Mag) != 2 || c.Mag[1] == 0 {
		return 1
	}
	if c.Mag[0] == 2 {
		return math.Ldexp(1, c.Mag[1])
	}
	return math.Pow(float64(c.Mag[0]), float64(c.Mag[1]))
}

func buildPrim(c Case) modeling.Mesh {
	mag := magnitude(c)
	d := func(i int) float64 { return float64(c.D[i]) / 16 * mag }
	switch c.Prim {
	case "uvsphere":
		return primitives.UVSphere(d(0), c.Rows, c.Cols)
	case "uvsphere_unwelded":
		return primitives.UVSphereUnwelded(d(0), c.Rows, c.Cols)
	case "cube_welded":
		return primitives.Cube{Width: d(0), Height: d(1), Depth: d(2), UVs: cubeUVs(c.UV)}.Welded()
	case "cube_quads":
		return primitives.Cube{Width: d(0), Height: d(1), Depth: d(2), UVs: cubeUVs(c.UV)}.UnweldedQuads()
	case "cylinder":
		return primitives.Cylinder{Sides: c.Sides, Radius: d(0), Height: d(1), UVs: cylinderUVs(c.UV)}.ToMesh()
	case "hemisphere":
		return primitives.Hemisphere{Radius: d(0), Capped: true}.UV(c.Rows, c.Cols)
	}
	panic("unknown primitive " + c.Prim)
}

// positionClasses merges coincident positions (max-norm distance <= 1e-6,
// transitively) and numbers the classes in order of first appearance.
func positionClasses(ps []vector3.Float64) []int {
	const tol = 1e-6
	const cell = 4e-6
	parent := make([]int, len(ps))
	for i := range parent {
		parent[i] = i
	}
	var find func(int) int
	find = func(i int) int {
		for parent[i] != i {
			parent[i] = parent[parent[i]]
			i = parent[i]
		}
		return i
	}
	key := func(p vector3.Float64) [3]int64 {
		return [3]int64{int64(math.Floor(p.X() / cell)), int64(math.Floor(p.Y() / cell)), int64(math.Floor(p.Z() / cell))}
	}
	buckets := map[[3]int64][]int{}
	for i, p := range ps {
		if math.IsNaN(p.X()+p.Y()+p.Z()) || math.IsInf(p.X()+p.Y()+p.Z(), 0) {
			continue // its own class
		}
		k := key(p)
		for dx := int64(-1); dx <= 1; dx++ {
			for dy := int64(-1); dy <= 1; dy++ {
				for dz := int64(-1); dz <= 1; dz++ {
					for _, j := range buckets[[3]int64{k[0] + dx, k[1] + dy, k[2] + dz}] {
						q := ps[j]
						if math.Abs(p.X()-q.X()) <= tol && math.Abs(p.Y()-q.Y()) <= tol && math.Abs(p.Z()-q.Z()) <= tol {
							a, b := find(i), find(j)
							if a != b {
								if a < b {
									parent[b] = a
								} else {
									parent[a] = b
								}
							}
						}
					}
				}
			}
		}
		buckets[k] = append(buckets[k], i)
	}
	ids := map[int]int{}
	out := make([]int, len(ps))
	for i := range ps {
		r := find(i)
		if _, ok := ids[r]; !ok {
			ids[r] = len(ids)
		}
		out[i] = ids[r]
	}
	return out
}

// execPrim builds one solid primitive and projects it: triangles over vertex
// numbers, per-vertex position class, position * Scale, normal * 256.
func execPrim(c Case, raw json.RawMessage) Line {
	m, res, msg := guarded(2*time.Minute, func() modeling.Mesh { return buildPrim(c) })
	return projectPrim(c, raw, m, res, msg)
}

// projectPrim is the projection of one returned mesh value. It reads the mesh
// and nothing else, so it can be repeated later on a mesh the caller kept.
func projectPrim(c Case, raw json.RawMessage, m modeling.Mesh, res, msg string) Line {
	ln := emptyLine("prim", raw)
	ln.Res, ln.Err = res, msg
	if res != "OK" {
		return ln
	}
	ln.Tris = triangles(m)
	if !m.HasFloat3Attribute(modeling.PositionAttribute) {
		return ln
	}
	pos := m.Float3Attribute(modeling.PositionAttribute)
	// The contract is scale invariant: positions are logged (and coincident
	// ones merged) in units of the case's own magnitude.
	unmag := 1 / magnitude(c)
	ps := make([]vector3.Float64, pos.Len())
	for i := range ps {
		ps[i] = pos.At(i).Scale(unmag)
		ln.Pos = append(ln.Pos, []int{
			roundTo(ps[i].X(), float64(c.Scale), &ln.Exact), roundTo(ps[i].Y(), float64(c.Scale), &ln.Exact), roundTo(ps[i].Z(), float64(c.Scale), &ln.Exact)})
	}
	ln.Cls = positionClasses(ps)
	if m.HasFloat3Attribute(modeling.NormalAttribute) {
		nrm := m.Float3Attribute(modeling.NormalAttribute)
		dummy := true
		for i := 0; i < nrm.Len(); i++ {
			n := nrm.At(i)
			ln.Nrm = append(ln.Nrm, []int{roundTo(n.X(), 256, &dummy), roundTo(n.Y(), 256, &dummy), roundTo(n.Z(), 256, &dummy)})
		}
	}
	return ln
}
