// Package plyfam executes PLY cases (C04 write/read round trips, C08 loads of
// reference-encoded third-party files) on the real formats/ply package and
// projects what happened. It contains no property logic: every judgement is
// made by TLC evaluating specs/TracePly.tla on the trace written here.
package plyfam

import (
	"fmt"

	"github.com/EliCDavis/polyform/modeling"
	"github.com/EliCDavis/vector/vector2"
	"github.com/EliCDavis/vector/vector3"
	"github.com/EliCDavis/vector/vector4"

	"verifharness/plyref"
)

// AAttr is one attribute of an abstract mesh; names are polyform's attribute names.
type AAttr struct {
	N    string          `json:"n"`
	Ar   int             `json:"ar"`
	Data [][]plyref.Cell `json:"data"`
}

// AMesh is the abstract mesh of PlyFormat.tla (input and projection).
type AMesh struct {
	Topo  string  `json:"topo"`
	Idx   []int   `json:"idx"`
	Attrs []AAttr `json:"attrs"`
	Exact bool    `json:"exact"`
}

func NullMesh() AMesh {
	return AMesh{Topo: "NULL", Idx: []int{}, Attrs: []AAttr{}, Exact: true}
}

// WProp describes one property writer of a custom MeshWriter.
type WProp struct {
	Ar    int      `json:"ar"`
	Attr  string   `json:"attr"`
	Names []string `json:"names"`
	T     string   `json:"t"`
}

type Opts struct {
	W      string  `json:"w"` // "default" (ply.Write) | "custom" (MeshWriter literal)
	Unspec bool    `json:"unspec"`
	Props  []WProp `json:"props"`
}

type Case struct {
	Kind string       `json:"kind"` // "rt" | "file"
	Id   int          `json:"id"`
	Tag  string       `json:"tag"`
	Mode string       `json:"mode"` // "lat" | "bits"
	D    int          `json:"D"`
	Mesh *AMesh       `json:"mesh,omitempty"`
	Opts *Opts        `json:"opts,omitempty"`
	Spec *plyref.File `json:"spec,omitempty"`
	Deco *plyref.Deco `json:"deco,omitempty"`
	Fmts []string     `json:"fmts,omitempty"`
	Plan string       `json:"plan,omitempty"` // series: plan of PlySeriesGen that produced the case
	Ser  *Series      `json:"ser,omitempty"`  // series: parameters (see series.go / specs/PlySeries.tla)
}

func (c Case) Scale() plyref.Scale {
	return plyref.Scale{Bits: c.Mode == "bits", D: c.D}
}

func topoOf(s string) (modeling.Topology, error) {
	switch s {
	case "triangle":
		return modeling.TriangleTopology, nil
	case "point":
		return modeling.PointTopology, nil
	}
	return modeling.PointTopology, fmt.Errorf("unsupported topology %q", s)
}

// Build constructs the real mesh an abstract mesh stands for (public constructors only).
func Build(a AMesh, sc plyref.Scale) (modeling.Mesh, error) {
	topo, err := topoOf(a.Topo)
	if err != nil {
		return modeling.Mesh{}, err
	}
	idx := make([]int, len(a.Idx))
	copy(idx, a.Idx)
	m := modeling.NewMesh(topo, idx)
	for _, at := range a.Attrs {
		for _, row := range at.Data {
			if len(row) != at.Ar {
				return m, fmt.Errorf("attribute %s: row arity", at.N)
			}
		}
		switch at.Ar {
		case 1:
			d := make([]float64, len(at.Data))
			for i, v := range at.Data {
				d[i] = sc.Real(v[0])
			}
			m = m.SetFloat1Attribute(at.N, d)
		case 2:
			d := make([]vector2.Float64, len(at.Data))
			for i, v := range at.Data {
				d[i] = vector2.New(sc.Real(v[0]), sc.Real(v[1]))
			}
			m = m.SetFloat2Attribute(at.N, d)
		case 3:
			d := make([]vector3.Float64, len(at.Data))
			for i, v := range at.Data {
				d[i] = vector3.New(sc.Real(v[0]), sc.Real(v[1]), sc.Real(v[2]))
			}
			m = m.SetFloat3Attribute(at.N, d)
		case 4:
			d := make([]vector4.Float64, len(at.Data))
			for i, v := range at.Data {
				d[i] = vector4.New(sc.Real(v[0]), sc.Real(v[1]), sc.Real(v[2]), sc.Real(v[3]))
			}
			m = m.SetFloat4Attribute(at.N, d)
		default:
			return m, fmt.Errorf("attribute %s: arity %d", at.N, at.Ar)
		}
	}
	return m, nil
}

// Project reads a real mesh through its public observers.
func Project(m modeling.Mesh, sc plyref.Scale) AMesh {
	p := AMesh{Topo: m.Topology().String(), Idx: []int{}, Attrs: []AAttr{}, Exact: true}
	idx := m.Indices()
	for i := 0; i < idx.Len(); i++ {
		p.Idx = append(p.Idx, idx.At(i))
	}
	conv := func(vals ...float64) []plyref.Cell {
		out := make([]plyref.Cell, len(vals))
		for i, x := range vals {
			c, ok := sc.Project(x)
			if !ok {
				p.Exact = false
			}
			out[i] = c
		}
		return out
	}
	for _, name := range m.Float1Attributes() {
		it := m.Float1Attribute(name)
		a := AAttr{N: name, Ar: 1, Data: [][]plyref.Cell{}}
		for i := 0; i < it.Len(); i++ {
			a.Data = append(a.Data, conv(it.At(i)))
		}
		p.Attrs = append(p.Attrs, a)
	}
	for _, name := range m.Float2Attributes() {
		it := m.Float2Attribute(name)
		a := AAttr{N: name, Ar: 2, Data: [][]plyref.Cell{}}
		for i := 0; i < it.Len(); i++ {
			v := it.At(i)
			a.Data = append(a.Data, conv(v.X(), v.Y()))
		}
		p.Attrs = append(p.Attrs, a)
	}
	for _, name := range m.Float3Attributes() {
		it := m.Float3Attribute(name)
		a := AAttr{N: name, Ar: 3, Data: [][]plyref.Cell{}}
		for i := 0; i < it.Len(); i++ {
			v := it.At(i)
			a.Data = append(a.Data, conv(v.X(), v.Y(), v.Z()))
		}
		p.Attrs = append(p.Attrs, a)
	}
	for _, name := range m.Float4Attributes() {
		it := m.Float4Attribute(name)
		a := AAttr{N: name, Ar: 4, Data: [][]plyref.Cell{}}
		for i := 0; i < it.Len(); i++ {
			v := it.At(i)
			a.Data = append(a.Data, conv(v.X(), v.Y(), v.Z(), v.W()))
		}
		p.Attrs = append(p.Attrs, a)
	}
	return p
}
