package plyfam

// Series cases (specs/PlySeries.tla): files whose content is a law of the
// record index, delivered to the real reader through a chosen io.Reader
// behaviour and entry point. This file builds the input from the law
// (serRaw mirrors PlySeries!Raw; a probe of it is logged and checked by the
// judge), executes, and projects the decoded mesh. No judgement here.

import (
	"bufio"
	"bytes"
	"encoding/json"
	"fmt"
	"io"
	"os"
	"path/filepath"

	"github.com/EliCDavis/polyform/formats/ply"
	"github.com/EliCDavis/polyform/modeling"
	"github.com/EliCDavis/vector/vector2"
	"github.com/EliCDavis/vector/vector3"
	"github.com/EliCDavis/vector/vector4"

	"verifharness/plyref"
)

type SerAttr struct {
	A     string   `json:"a"`
	Names []string `json:"names"`
	T     string   `json:"t"`
	Laws  []int    `json:"laws"`
}

type SerFaces struct {
	On    bool   `json:"on"`
	NF    int    `json:"nf"`
	CT    string `json:"ct"`
	LT    string `json:"lt"`
	Quads bool   `json:"quads"`
}

type Dlv struct {
	Kind string `json:"kind"`
	K    int    `json:"k"`
}

type Series struct {
	Via   string    `json:"via"`
	N     int       `json:"n"`
	Lay   int       `json:"lay"`
	Attrs []SerAttr `json:"attrs"`
	Faces SerFaces  `json:"faces"`
	Fmt   string    `json:"fmt"`
	Dlv   Dlv       `json:"dlv"`
}

// serRaw mirrors PlySeries!Raw.
func serRaw(i, f int) int {
	switch f {
	case 1:
		return i % 2048
	case 2:
		return i / 2048
	case 3:
		return (i * 7) % 1024
	case 4:
		return i % 256
	case 5:
		return (i / 256) % 256
	case 6:
		return (i*31 + 7) % 256
	case 7:
		return (i*5 + 3) % 256
	case 8:
		return i
	}
	return 0
}

func serFace(fc SerFaces, n, j int) []int {
	if fc.Quads && j%3 == 2 {
		return []int{j % n, (j + 1) % n, (j + 2) % n, (j + 3) % n}
	}
	return []int{j % n, (j + 1) % n, (j + 2) % n}
}

// ---------------------------------------------------------------------------
// deliveries: legal behaviours of an io.Reader over the same bytes
// ---------------------------------------------------------------------------

// chunkReader returns at most k bytes per Read.
type chunkReader struct {
	data []byte
	k    int
}

func (r *chunkReader) Read(p []byte) (int, error) {
	if len(r.data) == 0 {
		return 0, io.EOF
	}
	if len(p) == 0 {
		return 0, nil
	}
	n := r.k
	if n > len(p) {
		n = len(p)
	}
	if n > len(r.data) {
		n = len(r.data)
	}
	copy(p, r.data[:n])
	r.data = r.data[n:]
	return n, nil
}

// refillReader never returns bytes across a multiple of k of the stream offset
// (a buffered source that hands out what is left of its buffer).
type refillReader struct {
	data []byte
	off  int
	k    int
}

func (r *refillReader) Read(p []byte) (int, error) {
	if r.off >= len(r.data) {
		return 0, io.EOF
	}
	if len(p) == 0 {
		return 0, nil
	}
	n := r.k - r.off%r.k
	if n > len(p) {
		n = len(p)
	}
	if n > len(r.data)-r.off {
		n = len(r.data) - r.off
	}
	copy(p, r.data[r.off:r.off+n])
	r.off += n
	return n, nil
}

// eofDataReader returns the final bytes together with io.EOF (allowed by io.Reader).
type eofDataReader struct {
	data []byte
}

func (r *eofDataReader) Read(p []byte) (int, error) {
	if len(r.data) == 0 {
		return 0, io.EOF
	}
	n := copy(p, r.data)
	r.data = r.data[n:]
	if len(r.data) == 0 {
		return n, io.EOF
	}
	return n, nil
}

func deliver(data []byte, d Dlv) (io.Reader, error) {
	switch d.Kind {
	case "full":
		return bytes.NewReader(data), nil
	case "chunk":
		if d.K < 1 {
			return nil, fmt.Errorf("chunk delivery needs k >= 1")
		}
		return &chunkReader{data: data, k: d.K}, nil
	case "refill":
		if d.K < 1 {
			return nil, fmt.Errorf("refill delivery needs k >= 1")
		}
		return &refillReader{data: data, k: d.K}, nil
	case "bufio":
		return bufio.NewReaderSize(bytes.NewReader(data), d.K), nil
	case "eofdata":
		return &eofDataReader{data: data}, nil
	}
	return nil, fmt.Errorf("unknown delivery %q", d.Kind)
}

// ---------------------------------------------------------------------------

type serLine struct {
	K      string  `json:"k"`
	Id     int     `json:"id"`
	Tag    string  `json:"tag"`
	Plan   string  `json:"plan"`
	Mode   string  `json:"mode"`
	D      int     `json:"D"`
	Ser    Series  `json:"ser"`
	Probe  [][]int `json:"probe"` // [record index, raw law value of every column...] as built
	Wr     string  `json:"wr"`    // OK | FAIL | TIMEOUT (real writer) ; REF (reference encoder)
	WErr   string  `json:"werr"`
	NBytes int     `json:"nbytes"`
	// Straddle counts the list count fields of more than one byte that lie across a multiple of the
	// delivery's period k (reference-encoded binary files; coverage information, not judged)
	Straddle int    `json:"straddle"`
	Fmt      string `json:"fmt"`
	Rd       string `json:"rd"`
	RErr     string `json:"rerr"`
	Mesh     AMesh  `json:"mesh"`
}

func serFloatCell(raw int, sc plyref.Scale) plyref.Cell {
	if sc.Bits {
		return plyref.BitsCell(float64(raw))
	}
	return plyref.IntCell(raw * sc.D)
}

func serRefBytes(s Series, sc plyref.Scale) ([]byte, error) {
	f := plyref.File{Fmt: s.Fmt, NV: s.N, VProps: []plyref.Prop{}, VRecs: make([][]plyref.Cell, s.N),
		FLists: []plyref.LProp{}, FRecs: [][][]plyref.Cell{}}
	for _, a := range s.Attrs {
		for _, n := range a.Names {
			f.VProps = append(f.VProps, plyref.Prop{N: n, T: a.T})
		}
	}
	for i := 0; i < s.N; i++ {
		rec := make([]plyref.Cell, 0, len(f.VProps))
		for _, a := range s.Attrs {
			ct := plyref.Canon(a.T)
			for _, law := range a.Laws {
				if ct == "float" || ct == "double" {
					rec = append(rec, serFloatCell(serRaw(i, law), sc))
				} else {
					rec = append(rec, plyref.IntCell(serRaw(i, law)))
				}
			}
		}
		f.VRecs[i] = rec
	}
	if s.Faces.On {
		f.Face = true
		f.NF = s.Faces.NF
		f.FLists = append(f.FLists, plyref.LProp{N: "vertex_indices", CT: s.Faces.CT, LT: s.Faces.LT})
		for j := 0; j < s.Faces.NF; j++ {
			vs := serFace(s.Faces, s.N, j)
			l := make([]plyref.Cell, len(vs))
			for k, v := range vs {
				l[k] = plyref.IntCell(v)
			}
			f.FRecs = append(f.FRecs, [][]plyref.Cell{l})
		}
	}
	return plyref.Encode(f, plyref.Deco{}, sc)
}

func serMesh(s Series) (modeling.Mesh, error) {
	var idx []int
	topo := modeling.PointTopology
	if s.Faces.On {
		topo = modeling.TriangleTopology
		for j := 0; j < s.Faces.NF; j++ {
			idx = append(idx, serFace(s.Faces, s.N, j)...)
		}
	} else {
		for i := 0; i < s.N; i++ {
			idx = append(idx, i)
		}
	}
	m := modeling.NewMesh(topo, idx)
	for _, a := range s.Attrs {
		val := func(i, k int) float64 {
			raw := float64(serRaw(i, a.Laws[k]))
			if plyref.Canon(a.T) == "uchar" {
				return raw / 255 // the unit value a stored byte stands for
			}
			return raw
		}
		switch len(a.Laws) {
		case 1:
			d := make([]float64, s.N)
			for i := range d {
				d[i] = val(i, 0)
			}
			m = m.SetFloat1Attribute(a.A, d)
		case 2:
			d := make([]vector2.Float64, s.N)
			for i := range d {
				d[i] = vector2.New(val(i, 0), val(i, 1))
			}
			m = m.SetFloat2Attribute(a.A, d)
		case 3:
			d := make([]vector3.Float64, s.N)
			for i := range d {
				d[i] = vector3.New(val(i, 0), val(i, 1), val(i, 2))
			}
			m = m.SetFloat3Attribute(a.A, d)
		case 4:
			d := make([]vector4.Float64, s.N)
			for i := range d {
				d[i] = vector4.New(val(i, 0), val(i, 1), val(i, 2), val(i, 3))
			}
			m = m.SetFloat4Attribute(a.A, d)
		default:
			return m, fmt.Errorf("series attribute %s: arity %d", a.A, len(a.Laws))
		}
	}
	return m, nil
}

func serFormat(e string) (ply.Format, error) { return formatConst(e) }

func runSer(enc *json.Encoder, c Case) error {
	if c.Ser == nil {
		return fmt.Errorf("case %d: series case needs ser", c.Id)
	}
	s := *c.Ser
	sc := c.Scale()
	line := serLine{K: "ser", Id: c.Id, Tag: c.Tag, Plan: c.Plan, Mode: c.Mode, D: c.D, Ser: s, Fmt: s.Fmt,
		Probe: [][]int{}, Mesh: NullMesh(), Rd: "SKIP"}
	for _, i := range []int{0, 1, s.N / 2, s.N - 1} {
		if i < 0 || i >= s.N {
			continue
		}
		p := []int{i}
		for _, a := range s.Attrs {
			for _, law := range a.Laws {
				p = append(p, serRaw(i, law))
			}
		}
		line.Probe = append(line.Probe, p)
	}
	var data []byte
	switch s.Via {
	case "ref":
		b, err := serRefBytes(s, sc)
		if err != nil {
			return fmt.Errorf("case %d: reference encoder: %w", c.Id, err)
		}
		data, line.Wr = b, "REF"
	case "write":
		m, err := serMesh(s)
		if err != nil {
			return fmt.Errorf("case %d: %w", c.Id, err)
		}
		f, err := serFormat(s.Fmt)
		if err != nil {
			return err
		}
		buf := &bytes.Buffer{}
		line.Wr, line.WErr = guarded(func() error { return ply.Write(buf, m, f) })
		data = buf.Bytes()
	default:
		return fmt.Errorf("case %d: unknown via %q", c.Id, s.Via)
	}
	line.NBytes = len(data)
	line.Straddle = serStraddle(s, len(data))
	if KeepBytes != nil {
		KeepBytes(c.Id, s.Fmt, data)
	}
	if line.Wr == "OK" || line.Wr == "REF" {
		var res *modeling.Mesh
		var call func() error
		if s.Dlv.Kind == "file" {
			dir, err := os.MkdirTemp("", "vh-ply-ser")
			if err != nil {
				return err
			}
			defer os.RemoveAll(dir)
			path := filepath.Join(dir, "series.ply")
			if err := os.WriteFile(path, data, 0o644); err != nil {
				return err
			}
			call = func() error {
				var err error
				res, err = ply.Load(path)
				return err
			}
		} else {
			rd, err := deliver(data, s.Dlv)
			if err != nil {
				return fmt.Errorf("case %d: %w", c.Id, err)
			}
			call = func() error {
				var err error
				res, err = ply.ReadMesh(rd)
				return err
			}
		}
		line.Rd, line.RErr = guarded(call)
		if line.Rd == "OK" && res == nil {
			line.Rd, line.RErr = "FAIL", "nil mesh without error"
		}
		if line.Rd == "OK" {
			var pm AMesh
			st, msg := guarded(func() error { pm = Project(*res, sc); return nil })
			if st != "OK" {
				line.Rd, line.RErr = st, "projection: "+msg
			} else {
				line.Mesh = pm
			}
		}
	}
	return enc.Encode(line)
}

func serStraddle(s Series, nbytes int) int {
	cs := 0
	switch plyref.Canon(s.Faces.CT) {
	case "int", "uint":
		cs = 4
	}
	period := s.Dlv.K
	if s.Dlv.Kind == "file" {
		period = 4096
	}
	if s.Via != "ref" || s.Fmt == "ascii" || !s.Faces.On || cs == 0 || period < 2 {
		return 0
	}
	section := 0
	for j := 0; j < s.Faces.NF; j++ {
		section += cs + 4*len(serFace(s.Faces, s.N, j))
	}
	off, n := nbytes-section, 0
	for j := 0; j < s.Faces.NF; j++ {
		if off/period != (off+cs-1)/period {
			n++
		}
		off += cs + 4*len(serFace(s.Faces, s.N, j))
	}
	return n
}
