package plyfam

import (
	"bufio"
	"encoding/json"
	"math"
	"math/rand"
	"os"

	"verifharness/plyref"
)

// Seeded INPUT generation at sizes and values TLC does not enumerate (binding
// B2). Values are drawn per stored type from sets every such type holds, as in
// PlyGenRT/PlyGenFile; nothing here computes an expected result.

const latD = 16320

type attrKind struct {
	n     string
	ar    int
	names [][]string // recognised PLY property names under which the default reader finds it again
}

var attrKinds = []attrKind{
	{"Position", 3, [][]string{{"x", "y", "z"}, {"px", "py", "pz"}, {"posx", "posy", "posz"}}},
	{"Normal", 3, [][]string{{"nx", "ny", "nz"}, {"normalx", "normaly", "normalz"}}},
	{"Color", 3, [][]string{{"red", "green", "blue"}, {"r", "g", "b"}, {"diffuse_red", "diffuse_green", "diffuse_blue"}}},
	{"TexCoord", 2, [][]string{{"s", "t"}}},
	{"FDC", 3, [][]string{{"f_dc_0", "f_dc_1", "f_dc_2"}}},
	{"Opacity", 1, [][]string{{"opacity"}}},
	{"Scale", 3, [][]string{{"scale_0", "scale_1", "scale_2"}}},
	{"Rotation", 4, [][]string{{"rot_0", "rot_1", "rot_2", "rot_3"}}},
	{"Custom", 1, [][]string{{"Custom"}}},
	{"Intensity", 1, [][]string{{"Intensity"}}},
	{"Zeta", 3, nil}, // user vector: only ever written as unspecified Zeta_k scalars
	{"Color", 4, [][]string{{"red", "green", "blue", "alpha"}, {"r", "g", "b", "a"}}},
}

type valueMode struct {
	mode string
	d    int
}

func (vm valueMode) scale() plyref.Scale { return plyref.Scale{Bits: vm.mode == "bits", D: vm.d} }

func randFloat(r *rand.Rand, f32 bool) float64 {
	e := r.Intn(61) - 30
	var frac float64
	if f32 {
		frac = float64(r.Intn(1<<23)) / float64(1<<23)
	} else {
		frac = float64(r.Int63n(1<<52)) / float64(uint64(1)<<52)
	}
	x := math.Ldexp(1+frac, e)
	if r.Intn(2) == 0 {
		x = -x
	}
	return x
}

// value draws one scalar for an attribute stored as type t.
func (vm valueMode) value(r *rand.Rand, t string) plyref.Cell {
	switch {
	case vm.mode == "bits":
		if t == "double" {
			return plyref.BitsCell(randFloat(r, r.Intn(4) == 0))
		}
		return plyref.BitsCell(randFloat(r, r.Intn(10) < 7))
	case vm.d == 1: // big integers
		switch t {
		case "int":
			switch r.Intn(4) {
			case 0:
				return plyref.IntCell(16777217 + r.Intn(1000))
			case 1:
				return plyref.IntCell(-(16777217 + r.Intn(1000)))
			}
			return plyref.IntCell(r.Intn(1<<30) - (1 << 29))
		case "double":
			return plyref.IntCell(r.Intn(1<<30) - (1 << 29))
		}
		return plyref.IntCell(r.Intn(1<<24) - (1 << 23))
	}
	switch t {
	case "uchar":
		switch k := r.Intn(20); {
		case k == 0:
			return plyref.IntCell([]int{20400, -4080, 32640, -16320}[r.Intn(4)]) // outside [0,1]
		case k < 12:
			return plyref.IntCell(64 * r.Intn(256)) // k/255
		}
		return plyref.IntCell(255 * r.Intn(65)) // j/64
	case "int":
		return plyref.IntCell((r.Intn(2001) - 1000) * latD)
	}
	return plyref.IntCell((r.Intn(12801) - 6400) * 255)
}

func allowedTypes(vm valueMode) []string {
	switch {
	case vm.mode == "bits":
		return []string{"float", "double"}
	case vm.d == 1:
		return []string{"int", "float", "double"}
	}
	return []string{"uchar", "int", "float", "double"}
}


func pickMode(r *rand.Rand) valueMode {
	switch k := r.Intn(20); {
	case k < 12:
		return valueMode{"lat", latD}
	case k < 17:
		return valueMode{"bits", latD}
	}
	return valueMode{"lat", 1}
}

func randRT(r *rand.Rand, maxv int) Case {
	vm := pickMode(r)
	c := Case{Kind: "rt", Tag: "rnd", Mode: vm.mode, D: vm.d}
	// attributes
	var kinds []attrKind
	for len(kinds) == 0 {
		hasColor := false
		for _, k := range attrKinds {
			if r.Intn(100) < 38 {
				if k.n == "Color" {
					if hasColor {
						continue
					}
					hasColor = true
				}
				kinds = append(kinds, k)
			}
		}
	}
	// options
	o := Opts{W: "default", Unspec: true, Props: []WProp{}}
	if r.Intn(3) > 0 {
		o.W = "custom"
		o.Unspec = r.Intn(2) == 0
		types := allowedTypes(vm)
		for _, k := range attrKinds {
			if k.names == nil || r.Intn(100) < 35 {
				continue
			}
			o.Props = append(o.Props, WProp{Ar: k.ar, Attr: k.n, Names: k.names[r.Intn(len(k.names))], T: types[r.Intn(len(types))]})
		}
		r.Shuffle(len(o.Props), func(i, j int) { o.Props[i], o.Props[j] = o.Props[j], o.Props[i] })
		// one writer per ply name set: drop a second Color writer (3 and 4 share names)
		seen := map[string]bool{}
		kept := o.Props[:0]
		for _, p := range o.Props {
			if seen[p.Attr] {
				continue
			}
			seen[p.Attr] = true
			kept = append(kept, p)
		}
		o.Props = kept
	}
	topo := "point"
	if r.Intn(10) < 6 {
		topo = "triangle"
	}
	stored := func(k attrKind) string {
		if topo == "triangle" && k.n == "TexCoord" && k.ar == 2 {
			return "float" // lives in the float list of the face element
		}
		if o.W == "default" {
			if k.n == "Color" && k.ar == 3 {
				return "uchar"
			}
			return "float"
		}
		for _, p := range o.Props {
			if p.Attr == k.n && p.Ar == k.ar {
				return p.T
			}
		}
		return "float"
	}
	if vm.mode == "bits" || vm.d == 1 {
		// the default writer stores Color(3) as 8-bit: not expressible in these value modes
		if o.W == "default" {
			kept := kinds[:0]
			for _, k := range kinds {
				if !(k.n == "Color" && k.ar == 3) {
					kept = append(kept, k)
				}
			}
			kinds = kept
			if len(kinds) == 0 {
				kinds = []attrKind{attrKinds[0]}
			}
		}
	}
	// an element without properties is outside the grammar: at least one
	// attribute must be written as a vertex property (see PlyGenRT.ChooseOpt)
	written := false
	for _, k := range kinds {
		claimed := false
		for _, p := range o.Props {
			claimed = claimed || (p.Attr == k.n && p.Ar == k.ar)
		}
		if o.W == "default" {
			claimed = k.n != "TexCoord" && k.n != "Custom" && k.n != "Intensity" && k.n != "Zeta" && !(k.n == "Color" && k.ar == 4)
		}
		unspec := (o.W == "default" || o.Unspec) && !(k.n == "TexCoord" && k.ar == 2 && topo == "triangle")
		written = written || claimed || unspec
	}
	if !written {
		inMesh := false
		for _, k := range kinds {
			inMesh = inMesh || (k.n == "Position" && k.ar == 3)
		}
		if !inMesh {
			kinds = append(kinds, attrKinds[0])
		}
		hasPos := false
		for _, p := range o.Props {
			hasPos = hasPos || (p.Attr == "Position" && p.Ar == 3)
		}
		if o.W == "custom" && !hasPos {
			o.Props = append(o.Props, WProp{Ar: 3, Attr: "Position", Names: attrKinds[0].names[r.Intn(3)], T: "float"})
		}
	}
	nv := 1 + r.Intn(maxv)
	m := AMesh{Exact: true, Idx: []int{}, Attrs: []AAttr{}}
	m.Topo = topo
	if topo == "triangle" {
		switch r.Intn(4) {
		case 0: // unwelded identity
			nv = 3 * (1 + r.Intn(maxv/3+1))
			for i := 0; i < nv; i++ {
				m.Idx = append(m.Idx, i)
			}
		default:
			np := r.Intn(2*nv + 1)
			for i := 0; i < 3*np; i++ {
				m.Idx = append(m.Idx, r.Intn(nv))
			}
		}
	} else {
		switch r.Intn(4) {
		case 0, 1:
			for i := 0; i < nv; i++ {
				m.Idx = append(m.Idx, i)
			}
		case 2:
			m.Idx = r.Perm(nv)
		default:
			np := r.Intn(nv + 2)
			for i := 0; i < np; i++ {
				m.Idx = append(m.Idx, r.Intn(nv))
			}
		}
	}
	for _, k := range kinds {
		t := stored(k)
		a := AAttr{N: k.n, Ar: k.ar, Data: make([][]plyref.Cell, nv)}
		for v := 0; v < nv; v++ {
			row := make([]plyref.Cell, k.ar)
			for j := range row {
				row[j] = vm.value(r, t)
			}
			a.Data[v] = row
		}
		m.Attrs = append(m.Attrs, a)
	}
	c.Mesh = &m
	c.Opts = &o
	return c
}

var aliases = map[string][]string{
	"uchar": {"uchar", "uint8"}, "int": {"int", "int32"}, "uint": {"uint", "uint32"},
	"float": {"float", "float32"}, "double": {"double", "float64"},
}

func alias(r *rand.Rand, ct string) string {
	if r.Intn(3) == 0 {
		return aliases[ct][1]
	}
	return aliases[ct][0]
}

var strangers = []string{"cls", "intensity", "confidence", "Quality", "label", "time", "u", "v", "radius", "a", "nx", "scale_1", "blue"}

// cell draws a file cell of canonical type ct.
func (vm valueMode) cell(r *rand.Rand, ct string) plyref.Cell {
	switch {
	case vm.mode == "bits":
		return plyref.BitsCell(randFloat(r, ct == "float"))
	case vm.d == 1:
		switch ct {
		case "int":
			if r.Intn(3) == 0 {
				return plyref.IntCell([]int{math.MaxInt32, math.MinInt32, 16777217, -16777217, 33554433}[r.Intn(5)])
			}
			return plyref.IntCell(r.Intn(1<<31) - (1 << 30))
		case "double":
			return plyref.IntCell(r.Intn(1<<31) - (1 << 30))
		}
		return plyref.IntCell(r.Intn(1<<24) - (1 << 23))
	}
	switch ct {
	case "uchar":
		return plyref.IntCell(r.Intn(256))
	case "int":
		return plyref.IntCell(r.Intn(10001) - 5000)
	}
	return plyref.IntCell((r.Intn(12801) - 6400) * 255)
}

func randFile(r *rand.Rand, maxv int) Case {
	vm := pickMode(r)
	c := Case{Kind: "file", Tag: "rnd", Mode: vm.mode, D: vm.d}
	types := allowedTypes(vm)
	var groups [][]plyref.Prop
	used := map[string]bool{}
	seenAttr := map[string]bool{}
	for _, k := range attrKinds {
		if k.names == nil || k.n == "Custom" || k.n == "Intensity" || seenAttr[k.n] || r.Intn(100) < 55 {
			continue
		}
		seenAttr[k.n] = true
		names := k.names[r.Intn(len(k.names))]
		t := types[r.Intn(len(types))]
		var g []plyref.Prop
		drop := -1
		if r.Intn(100) < 12 {
			drop = r.Intn(len(names)) // partial group: members stay scalars
		}
		for i, n := range names {
			if i == drop || used[n] {
				continue
			}
			used[n] = true
			g = append(g, plyref.Prop{N: n, T: alias(r, t)})
		}
		groups = append(groups, g)
	}
	for i := r.Intn(5); i > 0; i-- {
		n := strangers[r.Intn(len(strangers))]
		if used[n] {
			continue
		}
		// a stranger that completes a recognised group would need that group's type: keep it out
		used[n] = true
		groups = append(groups, []plyref.Prop{{N: n, T: alias(r, types[r.Intn(len(types))])}})
	}
	if len(groups) == 0 {
		groups = append(groups, []plyref.Prop{{N: "x", T: "float"}, {N: "y", T: "float"}, {N: "z", T: "float"}})
	}
	var props []plyref.Prop
	switch r.Intn(4) {
	case 0: // canonical
		for _, g := range groups {
			props = append(props, g...)
		}
	case 1: // groups contiguous, shuffled inside and among each other
		r.Shuffle(len(groups), func(i, j int) { groups[i], groups[j] = groups[j], groups[i] })
		for _, g := range groups {
			r.Shuffle(len(g), func(i, j int) { g[i], g[j] = g[j], g[i] })
			props = append(props, g...)
		}
	default: // anything goes
		for _, g := range groups {
			props = append(props, g...)
		}
		r.Shuffle(len(props), func(i, j int) { props[i], props[j] = props[j], props[i] })
	}
	props = uniformGroups(props)
	f := plyref.File{VProps: props, FLists: []plyref.LProp{}, VRecs: [][]plyref.Cell{}, FRecs: [][][]plyref.Cell{}}
	f.NV = r.Intn(maxv + 1)
	if r.Intn(10) > 0 && f.NV == 0 {
		f.NV = 1 + r.Intn(maxv)
	}
	for i := 0; i < f.NV; i++ {
		rec := make([]plyref.Cell, len(props))
		for j, p := range props {
			rec[j] = vm.cell(r, plyref.Canon(p.T))
		}
		f.VRecs = append(f.VRecs, rec)
	}
	if r.Intn(100) < 65 {
		f.Face = true
		cts := []string{"uchar", "int", "uint"}
		lts := []string{"int", "uint"}
		idxName := []string{"vertex_indices", "vertex_index"}[r.Intn(2)]
		f.FLists = append(f.FLists, plyref.LProp{N: idxName, CT: alias(r, cts[r.Intn(3)]), LT: alias(r, lts[r.Intn(2)])})
		if r.Intn(100) < 40 {
			f.FLists = append(f.FLists, plyref.LProp{N: "texcoord", CT: alias(r, cts[r.Intn(3)]), LT: alias(r, "float")})
		}
		if r.Intn(100) < 20 {
			extra := plyref.LProp{N: []string{"flags", "weights"}[r.Intn(2)], CT: alias(r, cts[r.Intn(3)]), LT: alias(r, "int")}
			if extra.N == "weights" {
				extra.LT = alias(r, "float")
			}
			f.FLists = append(f.FLists, extra)
		}
		r.Shuffle(len(f.FLists), func(i, j int) { f.FLists[i], f.FLists[j] = f.FLists[j], f.FLists[i] })
		if f.NV > 0 && r.Intn(10) > 0 {
			f.NF = 1 + r.Intn(2*f.NV)
		}
		for q := 0; q < f.NF; q++ {
			k := 3 + r.Intn(2)
			rec := make([][]plyref.Cell, len(f.FLists))
			for li, lp := range f.FLists {
				switch lp.N {
				case "vertex_indices", "vertex_index":
					for j := 0; j < k; j++ {
						rec[li] = append(rec[li], plyref.IntCell(r.Intn(f.NV)))
					}
				case "texcoord":
					for j := 0; j < 2*k; j++ {
						switch {
						case vm.mode == "bits":
							rec[li] = append(rec[li], plyref.BitsCell(float64(float32(r.Float64()))))
						case vm.d == 1:
							rec[li] = append(rec[li], plyref.IntCell(r.Intn(3)))
						default:
							rec[li] = append(rec[li], plyref.IntCell(255*r.Intn(129)))
						}
					}
				default:
					rec[li] = []plyref.Cell{}
					for j := r.Intn(4); j > 0; j-- {
						if plyref.Canon(lp.LT) == "float" {
							rec[li] = append(rec[li], vm.cell(r, "float"))
						} else {
							rec[li] = append(rec[li], plyref.IntCell(r.Intn(100)))
						}
					}
				}
			}
			f.FRecs = append(f.FRecs, rec)
		}
	}
	c.Spec = &f
	nlines := 2 + len(props) + len(f.FLists)
	deco := plyref.Deco{CRLF: r.Intn(10) < 4, Comments: []int{}, ObjInfo: []int{}, Blank: []int{}}
	for i := r.Intn(6); i > 0; i-- {
		deco.Comments = append(deco.Comments, r.Intn(nlines+1))
	}
	for i := r.Intn(3); i > 0; i-- {
		deco.ObjInfo = append(deco.ObjInfo, r.Intn(nlines+1))
	}
	for i := r.Intn(3); i > 0; i-- {
		deco.Blank = append(deco.Blank, r.Intn(nlines+1))
	}
	deco.FStyle = []string{"g", "f", "e", "f6"}[r.Intn(4)]
	c.Deco = &deco
	return c
}

// groupOf names the recognised group a property name can belong to ("" if none).
func groupOf(n string) string {
	for _, k := range attrKinds {
		for _, names := range k.names {
			for _, m := range names {
				if m == n && k.n != "Custom" && k.n != "Intensity" {
					return k.n + "/" + names[0]
				}
			}
		}
	}
	return ""
}

// uniformGroups gives every member of one recognised group the type of its first
// member (mixed types inside a group are generated by PlyGenFile only).
func uniformGroups(props []plyref.Prop) []plyref.Prop {
	first := map[string]string{}
	out := make([]plyref.Prop, len(props))
	for i, p := range props {
		g := groupOf(p.N)
		// "a" belongs to r,g,b,a ; "alpha" to red,green,blue,alpha
		if g != "" {
			if t, ok := first[g]; ok {
				p.T = t
			} else {
				first[g] = p.T
			}
		}
		out[i] = p
	}
	return out
}

// GenRandom writes n seeded cases of the given kind.
func GenRandom(out, kind string, seed int64, n, maxv int) error {
	fo, err := os.Create(out)
	if err != nil {
		return err
	}
	defer fo.Close()
	w := bufio.NewWriterSize(fo, 1<<20)
	defer w.Flush()
	enc := json.NewEncoder(w)
	r := rand.New(rand.NewSource(seed*7919 + 17))
	for i := 0; i < n; i++ {
		var c Case
		if kind == "rt" {
			c = randRT(r, maxv)
		} else {
			c = randFile(r, maxv)
		}
		if err := enc.Encode(c); err != nil {
			return err
		}
	}
	return nil
}
