package plyfam

import (
	"bufio"
	"bytes"
	"encoding/json"
	"fmt"
	"os"
	"strconv"
	"syscall"
	"time"

	"github.com/EliCDavis/polyform/formats/ply"
	"github.com/EliCDavis/polyform/modeling"

	"verifharness/plyref"
)

var AllFormats = []string{"ascii", "binary_little_endian", "binary_big_endian"}

// formatConst picks the library constant by its IDENTIFIER for an encoding.
func formatConst(enc string) (ply.Format, error) {
	switch enc {
	case "ascii":
		return ply.ASCII, nil
	case "binary_little_endian":
		return ply.BinaryLittleEndian, nil
	case "binary_big_endian":
		return ply.BinaryBigEndian, nil
	}
	return ply.ASCII, fmt.Errorf("unknown encoding %q", enc)
}

func scalarType(t string) (ply.ScalarPropertyType, error) {
	switch t {
	case "uchar":
		return ply.UChar, nil
	case "int":
		return ply.Int, nil
	case "float":
		return ply.Float, nil
	case "double":
		return ply.Double, nil
	}
	return ply.Float, fmt.Errorf("unsupported writer type %q", t)
}

func buildWriter(o Opts, f ply.Format) (ply.MeshWriter, error) {
	w := ply.MeshWriter{Format: f, WriteUnspecifiedProperties: o.Unspec, Properties: []ply.PropertyWriter{}}
	for i, p := range o.Props {
		t, err := scalarType(p.T)
		if err != nil {
			return w, err
		}
		if len(p.Names) != p.Ar {
			return w, fmt.Errorf("writer for %s: %d names for arity %d", p.Attr, len(p.Names), p.Ar)
		}
		ptr := i%2 == 1 // the library accepts values and pointers; use both
		switch p.Ar {
		case 1:
			v := ply.Vector1PropertyWriter{ModelAttribute: p.Attr, PlyProperty: p.Names[0], Type: t}
			if ptr {
				w.Properties = append(w.Properties, &v)
			} else {
				w.Properties = append(w.Properties, v)
			}
		case 2:
			v := ply.Vector2PropertyWriter{ModelAttribute: p.Attr, PlyPropertyX: p.Names[0], PlyPropertyY: p.Names[1], Type: t}
			if ptr {
				w.Properties = append(w.Properties, &v)
			} else {
				w.Properties = append(w.Properties, v)
			}
		case 3:
			v := ply.Vector3PropertyWriter{ModelAttribute: p.Attr, PlyPropertyX: p.Names[0], PlyPropertyY: p.Names[1], PlyPropertyZ: p.Names[2], Type: t}
			if ptr {
				w.Properties = append(w.Properties, &v)
			} else {
				w.Properties = append(w.Properties, v)
			}
		case 4:
			v := ply.Vector4PropertyWriter{ModelAttribute: p.Attr, PlyPropertyX: p.Names[0], PlyPropertyY: p.Names[1], PlyPropertyZ: p.Names[2], PlyPropertyW: p.Names[3], Type: t}
			if ptr {
				w.Properties = append(w.Properties, &v)
			} else {
				w.Properties = append(w.Properties, v)
			}
		default:
			return w, fmt.Errorf("writer arity %d", p.Ar)
		}
	}
	return w, nil
}

const callDeadline = 8 * time.Second

// MaxTimeouts: see RunCases.
const MaxTimeouts = 6

// timedOut is set when a call into the library exceeded its deadline: its
// goroutine may still be spinning, so RunCases continues in a fresh process.
var timedOut bool

// guarded runs f; a panic is "FAIL", exceeding the deadline is "TIMEOUT".
func guarded(f func() error) (status string, msg string) {
	type res struct {
		st, msg string
	}
	ch := make(chan res, 1)
	go func() {
		defer func() {
			if r := recover(); r != nil {
				ch <- res{"FAIL", fmt.Sprint("panic: ", r)}
			}
		}()
		if err := f(); err != nil {
			ch <- res{"FAIL", err.Error()}
			return
		}
		ch <- res{"OK", ""}
	}()
	select {
	case r := <-ch:
		return r.st, r.msg
	case <-time.After(callDeadline):
		timedOut = true
		return "TIMEOUT", "deadline exceeded"
	}
}

type hProp struct {
	N    string `json:"n"`
	T    string `json:"t"`
	List bool   `json:"list"`
	CT   string `json:"ct"`
	LT   string `json:"lt"`
}

type hElem struct {
	Name  string  `json:"name"`
	N     int     `json:"n"`
	Props []hProp `json:"props"`
}

// HdrProj is the projection of what ply.ReadHeader returned.
type HdrProj struct {
	OK        bool    `json:"ok"`
	Fmt       string  `json:"fmt"` // the public string value of Header.Format
	Elems     []hElem `json:"elems"`
	NComments int     `json:"ncomments"`
}

func readHeader(data []byte) HdrProj {
	h := HdrProj{Elems: []hElem{}}
	var hdr ply.Header
	st, _ := guarded(func() error {
		var err error
		hdr, err = ply.ReadHeader(bytes.NewReader(data))
		return err
	})
	if st != "OK" {
		return h
	}
	h.OK = true
	h.Fmt = string(hdr.Format)
	h.NComments = len(hdr.Comments) + len(hdr.ObjInfo)
	for _, e := range hdr.Elements {
		he := hElem{Name: e.Name, N: int(e.Count), Props: []hProp{}}
		for _, p := range e.Properties {
			switch v := p.(type) {
			case ply.ScalarProperty:
				he.Props = append(he.Props, hProp{N: v.PropertyName, T: string(v.Type)})
			case ply.ListProperty:
				he.Props = append(he.Props, hProp{N: v.PropertyName, List: true, CT: string(v.CountType), LT: string(v.ListType)})
			default:
				he.Props = append(he.Props, hProp{N: p.Name(), T: "?"})
			}
		}
		h.Elems = append(h.Elems, he)
	}
	return h
}

type caseLine struct {
	K    string       `json:"k"`
	Kind string       `json:"kind"`
	Id   int          `json:"id"`
	Tag  string       `json:"tag"`
	Mode string       `json:"mode"`
	D    int          `json:"D"`
	In   *AMesh       `json:"in,omitempty"`   // rt: the mesh that was asked for
	Src  *AMesh       `json:"src,omitempty"`  // rt: projection of the real mesh that was built
	Opts *Opts        `json:"opts,omitempty"` // rt
	Spec *plyref.File `json:"spec,omitempty"` // file: the abstract file
}

type encLine struct {
	K    string        `json:"k"`
	Id   int           `json:"id"`
	Fmt  string        `json:"fmt"`
	Wr   string        `json:"wr"` // OK | FAIL | TIMEOUT (real writer) ; REF (reference encoder)
	WErr string        `json:"werr"`
	File plyref.Parsed `json:"file"`
	Hdr  HdrProj       `json:"hdr"`
	Rd   string        `json:"rd"` // OK | FAIL | TIMEOUT | SKIP
	RErr string        `json:"rerr"`
	Mesh AMesh         `json:"mesh"`
}

func emptyParsed(class string) plyref.Parsed {
	p := plyref.Parsed{Err: class}
	p.VProps = []plyref.Prop{}
	p.FLists = []plyref.LProp{}
	p.VRecs = [][]plyref.Cell{}
	p.FRecs = [][][]plyref.Cell{}
	return p
}

func readBack(data []byte, sc plyref.Scale) (string, string, AMesh) {
	var res *modeling.Mesh
	st, msg := guarded(func() error {
		var err error
		res, err = ply.ReadMesh(bytes.NewReader(data))
		return err
	})
	if st != "OK" || res == nil {
		if st == "OK" {
			st, msg = "FAIL", "nil mesh without error"
		}
		return st, msg, NullMesh()
	}
	var pm AMesh
	st, msg = guarded(func() error { pm = Project(*res, sc); return nil })
	if st != "OK" {
		return st, "projection: " + msg, NullMesh()
	}
	return "OK", "", pm
}

// KeepBytes, when set, receives every byte string handed to the reader (replay/debugging).
var KeepBytes func(id int, enc string, data []byte)

func runRT(enc *json.Encoder, c Case) error {
	sc := c.Scale()
	if c.Mesh == nil || c.Opts == nil {
		return fmt.Errorf("case %d: rt case needs mesh and opts", c.Id)
	}
	m, err := Build(*c.Mesh, sc)
	if err != nil {
		return fmt.Errorf("case %d: %w", c.Id, err)
	}
	src := Project(m, sc)
	if err := enc.Encode(caseLine{K: "case", Kind: "rt", Id: c.Id, Tag: c.Tag, Mode: c.Mode, D: c.D, In: c.Mesh, Src: &src, Opts: c.Opts}); err != nil {
		return err
	}
	fmts := c.Fmts
	if len(fmts) == 0 {
		fmts = AllFormats
	}
	for _, e := range fmts {
		f, err := formatConst(e)
		if err != nil {
			return err
		}
		line := encLine{K: "enc", Id: c.Id, Fmt: e}
		buf := &bytes.Buffer{}
		custom, err := buildWriter(*c.Opts, f)
		if err != nil {
			return fmt.Errorf("case %d: %w", c.Id, err)
		}
		line.Wr, line.WErr = guarded(func() error {
			if c.Opts.W == "default" {
				return ply.Write(buf, m, f)
			}
			return custom.Write(m, buf)
		})
		if line.Wr != "OK" {
			line.File = emptyParsed("nowrite")
			line.Hdr = HdrProj{Elems: []hElem{}}
			line.Rd = "SKIP"
			line.Mesh = NullMesh()
		} else {
			data := buf.Bytes()
			if KeepBytes != nil {
				KeepBytes(c.Id, e, data)
			}
			line.File = plyref.Parse(data, sc)
			line.Hdr = readHeader(data)
			line.Rd, line.RErr, line.Mesh = readBack(data, sc)
		}
		if err := enc.Encode(line); err != nil {
			return err
		}
	}
	return nil
}

func runFile(enc *json.Encoder, c Case) error {
	sc := c.Scale()
	if c.Spec == nil {
		return fmt.Errorf("case %d: file case needs spec", c.Id)
	}
	deco := plyref.Deco{}
	if c.Deco != nil {
		deco = *c.Deco
	}
	if err := enc.Encode(caseLine{K: "case", Kind: "file", Id: c.Id, Tag: c.Tag, Mode: c.Mode, D: c.D, Spec: c.Spec}); err != nil {
		return err
	}
	fmts := c.Fmts
	if len(fmts) == 0 {
		fmts = AllFormats
	}
	for _, e := range fmts {
		f := *c.Spec
		f.Fmt = e
		line := encLine{K: "enc", Id: c.Id, Fmt: e, Wr: "REF"}
		data, err := plyref.Encode(f, deco, sc)
		if err != nil {
			return fmt.Errorf("case %d: reference encoder: %w", c.Id, err)
		}
		if KeepBytes != nil {
			KeepBytes(c.Id, e, data)
		}
		line.File = plyref.Parse(data, sc)
		line.Hdr = readHeader(data)
		line.Rd, line.RErr, line.Mesh = readBack(data, sc)
		if err := enc.Encode(line); err != nil {
			return err
		}
	}
	return nil
}

// RunCases executes the cases of `in` (ndjson) and writes the trace to `out`.
// skip > 0: the first `skip` cases were already executed by a previous process
// image (see timedOut) and `out` is appended to. timeouts is the number of
// cases that hit the deadline so far: after MaxTimeouts of them the run stops at
// a case boundary and leaves the marker file out+".aborted" (every one of these
// cases is in the trace with its TIMEOUT observation; hanging code would
// otherwise cost the deadline once per remaining case).
func RunCases(in, out, dumpDir string, skip, timeouts int) error {
	fi, err := os.Open(in)
	if err != nil {
		return err
	}
	defer fi.Close()
	flags := os.O_CREATE | os.O_WRONLY | os.O_TRUNC
	if skip > 0 {
		flags = os.O_CREATE | os.O_WRONLY | os.O_APPEND
	}
	fo, err := os.OpenFile(out, flags, 0o644)
	if err != nil {
		return err
	}
	defer fo.Close()
	w := bufio.NewWriterSize(fo, 1<<20)
	defer w.Flush()
	enc := json.NewEncoder(w)
	if dumpDir != "" {
		if err := os.MkdirAll(dumpDir, 0o755); err != nil {
			return err
		}
		KeepBytes = func(id int, e string, data []byte) {
			_ = os.WriteFile(fmt.Sprintf("%s/case%d-%s.ply", dumpDir, id, e), data, 0o644)
		}
	}
	sc := bufio.NewScanner(fi)
	sc.Buffer(make([]byte, 1<<20), 1<<28)
	n := 0
	for sc.Scan() {
		if len(bytes.TrimSpace(sc.Bytes())) == 0 {
			continue
		}
		if n < skip {
			n++
			continue
		}
		var c Case
		if err := json.Unmarshal(sc.Bytes(), &c); err != nil {
			return fmt.Errorf("case line %d: %w", n, err)
		}
		switch c.Kind {
		case "rt":
			err = runRT(enc, c)
		case "file":
			err = runFile(enc, c)
		case "ser":
			err = runSer(enc, c)
		default:
			err = fmt.Errorf("case line %d: unknown kind %q", n, c.Kind)
		}
		if err != nil {
			return err
		}
		n++
		if timedOut {
			// a goroutine of the code under test is still running: replace the
			// process image and continue with the next case
			if err := w.Flush(); err != nil {
				return err
			}
			fo.Close()
			timeouts++
			if timeouts >= MaxTimeouts {
				return os.WriteFile(out+".aborted", []byte(strconv.Itoa(n)+" cases executed, "+strconv.Itoa(timeouts)+" hit the deadline\n"), 0o644)
			}
			args := []string{os.Args[0], "ply-exec", "-in", in, "-out", out, "-skip", strconv.Itoa(n), "-timeouts", strconv.Itoa(timeouts)}
			if dumpDir != "" {
				args = append(args, "-dump", dumpDir)
			}
			return syscall.Exec(os.Args[0], args, os.Environ())
		}
	}
	return sc.Err()
}
