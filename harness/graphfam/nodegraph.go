// Package graphfam drives real nodes.Struct graphs (C11) and graph.Instance
// (C12, C13). It only executes and records; TLC judges the traces.
package graphfam

import (
	"bufio"
	"encoding/json"
	"fmt"
	"math/rand"
	"os"
	"os/exec"
	"strconv"
	"strings"

	"github.com/EliCDavis/polyform/generator/parameter"
	"github.com/EliCDavis/polyform/nodes"
)

// HData is the harness processor: two single ports, one array port. Its value
// is the symbolic term of NodeGraph.tla; executions are counted per node id.
type HData struct {
	ID  int
	Ctr *Counters
	A   nodes.NodeOutput[string]
	B   nodes.NodeOutput[string]
	Arr []nodes.NodeOutput[string]
}

type Counters struct{ Execs map[int]int }

// ErrTrigger: a processor whose A input evaluates to exactly this string fails
// (NodeTerms.tla).
const ErrTrigger = "p1:13"

// PanicTrigger: a processor whose A input evaluates to exactly this string
// panics (NodeTerms.tla): user code that crashes on a valid parameter value.
const PanicTrigger = "p1:66"

func (d HData) Process() (string, error) { return processTerm(d.ID, d.Ctr, d.A, d.B, d.Arr) }

// processTerm is the harness processor shared by every port layout.
func processTerm(id int, ctr *Counters, dA, dB nodes.NodeOutput[string], dArr []nodes.NodeOutput[string]) (string, error) {
	ctr.Execs[id]++
	var sb strings.Builder
	sb.WriteString("n" + strconv.Itoa(id) + "(")
	if dA == nil {
		sb.WriteString("-")
	} else {
		a := dA.Value()
		if a == PanicTrigger {
			panic("harness processor: input " + a + " crashes this node")
		}
		if a == ErrTrigger {
			// still read every input, as the contract of the harness processors says
			if dB != nil {
				_ = dB.Value()
			}
			for _, e := range dArr {
				if e != nil {
					_ = e.Value()
				}
			}
			return "", fmt.Errorf("input %s is not acceptable", a)
		}
		sb.WriteString(a)
	}
	sb.WriteString(",")
	if dB == nil {
		sb.WriteString("-")
	} else {
		sb.WriteString(dB.Value())
	}
	sb.WriteString(",[")
	for i, e := range dArr {
		if i > 0 {
			sb.WriteString(";")
		}
		if e == nil {
			sb.WriteString("-")
		} else {
			sb.WriteString(e.Value())
		}
	}
	sb.WriteString("])")
	return sb.String(), nil
}

// The port LAYOUT of a node is invisible to the contract (NodeGraph.tla talks about ports a, b and the
// array arr): field names, and with them the place of the array port among the single ports in any
// name-ordered or map-ordered traversal the library makes, are a dimension the property quantifies
// over.  HData has the array between the single ports, HDataLast behind them, HDataFirst in front.
type HDataLast struct {
	ID     int
	Ctr    *Counters
	Offset nodes.NodeOutput[string]
	Scale  nodes.NodeOutput[string]
	Terms  []nodes.NodeOutput[string]
}

func (d HDataLast) Process() (string, error) {
	return processTerm(d.ID, d.Ctr, d.Offset, d.Scale, d.Terms)
}

type HDataFirst struct {
	ID    int
	Ctr   *Counters
	Zeta  nodes.NodeOutput[string]
	Yota  nodes.NodeOutput[string]
	Elems []nodes.NodeOutput[string]
}

func (d HDataFirst) Process() (string, error) {
	return processTerm(d.ID, d.Ctr, d.Zeta, d.Yota, d.Elems)
}

// hnode is a node of the harness graph under any layout; ports are addressed in the model's names
// ("A", "B", "Arr.<k>").
type hnode interface {
	SetInput(port string, o nodes.Output)
	Version() int
	Value() string
	Out() nodes.NodeOutputReference
	ArrLen() int
}

type lnode[G nodes.StructProcesor[string]] struct {
	n     *nodes.Struct[string, G]
	names [3]string
	alen  func(G) int
}

func (l *lnode[G]) SetInput(port string, o nodes.Output) {
	switch {
	case port == "A":
		port = l.names[0]
	case port == "B":
		port = l.names[1]
	case strings.HasPrefix(port, "Arr."):
		port = l.names[2] + port[3:]
	}
	l.n.SetInput(port, o)
}
func (l *lnode[G]) Version() int                   { return l.n.Version() }
func (l *lnode[G]) Value() string                  { return l.n.Value() }
func (l *lnode[G]) Out() nodes.NodeOutputReference { return l.n.Out() }
func (l *lnode[G]) ArrLen() int                    { return l.alen(l.n.Data) }

// NLayouts port layouts rotate over the repetitions of a history (together with the parameter kinds).
const NLayouts = 3

func newHNode(layout, id int, ctr *Counters) hnode {
	switch layout % NLayouts {
	case 1:
		return &lnode[HDataLast]{n: &nodes.Struct[string, HDataLast]{Data: HDataLast{ID: id, Ctr: ctr}},
			names: [3]string{"Offset", "Scale", "Terms"}, alen: func(d HDataLast) int { return len(d.Terms) }}
	case 2:
		return &lnode[HDataFirst]{n: &nodes.Struct[string, HDataFirst]{Data: HDataFirst{ID: id, Ctr: ctr}},
			names: [3]string{"Zeta", "Yota", "Elems"}, alen: func(d HDataFirst) int { return len(d.Elems) }}
	}
	return &lnode[HData]{n: &nodes.Struct[string, HData]{Data: HData{ID: id, Ctr: ctr}},
		names: [3]string{"A", "B", "Arr"}, alen: func(d HData) int { return len(d.Arr) }}
}

type HNode = nodes.Struct[string, HData]

// JoinData adapts a slice-valued parameter ([]string{"p3", "5"}) to the string
// ports of the harness processors: its output is the parameter's term "p3:5".
// It is a real node of the graph the model does not know about (the model sees
// the parameter): whatever staleness it shows is the parameter's.
type JoinData struct {
	In nodes.NodeOutput[[]string]
}

func (d JoinData) Process() (string, error) {
	v := d.In.Value()
	if len(v) < 2 {
		return strings.Join(v, ":"), nil
	}
	return v[0] + ":" + v[1], nil
}

type JoinNode = nodes.Struct[string, JoinData]

type WireRec struct {
	N   int   `json:"n"`
	A   int   `json:"a"`
	B   int   `json:"b"`
	Arr []int `json:"arr"`
}

type NGStep struct {
	Op   string    `json:"op"`
	Wire []WireRec `json:"wire,omitempty"`
	P    int       `json:"p,omitempty"`
	V    int       `json:"v,omitempty"`
	N    int       `json:"n,omitempty"`
	Port string    `json:"port,omitempty"`
	S    int       `json:"s"`
	K    int       `json:"k,omitempty"`
}

type NGHistory struct {
	NP     int      `json:"np"`
	NN     int      `json:"nn"`
	Steps  []NGStep `json:"steps"`
	Tag    string   `json:"tag,omitempty"`
	Kinds  []int    `json:"kinds,omitempty"`  // fixed parameter kinds (replays); default: rotate per repetition
	Layout int      `json:"layout,omitempty"` // fixed port layout + 1 (replays); default: rotate
}

type ngObs struct {
	Ver   []int `json:"ver"`
	Execs []int `json:"execs"`
	PVer  []int `json:"pver"`
}

type ngLine struct {
	K    string    `json:"k"`
	Wire []WireRec `json:"wire,omitempty"`
	P    int       `json:"p,omitempty"`
	V    int       `json:"v,omitempty"`
	N    int       `json:"n,omitempty"`
	Port string    `json:"port,omitempty"`
	S    int       `json:"s"`
	KK   int       `json:"kk,omitempty"`
	Val  string    `json:"val"`
	Err  bool      `json:"err"`
	Obs  ngObs     `json:"obs"`
	H    int       `json:"h"`
	I    int       `json:"i"`
}

// Parameter kinds (kind of parameter p = kinds[(p-1) % len(kinds)]):
//
//	1 parameter.Value[string]   updated by a JSON message
//	2 nodes.ValueNode[string]   updated by Set
//	3 parameter.Value[[]string] updated by a JSON message (decoded element by element); setbad sends a
//	                            message whose first elements decode and whose last one does not
//	4 nodes.ValueNode[[]string] updated by Set: alternately with a fresh slice and by editing the slice
//	                            the node holds in place and handing it to Set again
//
// kinds 3 and 4 reach the string ports through a JoinNode.
type ngGraph struct {
	np, nn int
	kinds  []int
	pA     map[int]*parameter.Value[string]
	pB     map[int]*nodes.ValueNode[string]
	pC     map[int]*parameter.Value[[]string]
	pD     map[int]*nodes.ValueNode[[]string]
	held   map[int][]string // the slice handed to pD[p] last
	sets   map[int]int
	join   map[int]*JoinNode
	ns     map[int]hnode
	layout int
	ctr    *Counters
}

func (g *ngGraph) kind(p int) int { return g.kinds[(p-1)%len(g.kinds)] }

func sliceTerm(p, v int) []string { return []string{"p" + strconv.Itoa(p), strconv.Itoa(v)} }

func paramTerm(p, v int) string { return "p" + strconv.Itoa(p) + ":" + strconv.Itoa(v) }

func newNGGraph(np, nn int, kinds []int, layout int) *ngGraph {
	if len(kinds) == 0 {
		kinds = []int{1, 2}
	}
	g := &ngGraph{np: np, nn: nn, kinds: kinds, pA: map[int]*parameter.Value[string]{}, pB: map[int]*nodes.ValueNode[string]{},
		pC: map[int]*parameter.Value[[]string]{}, pD: map[int]*nodes.ValueNode[[]string]{}, held: map[int][]string{},
		sets: map[int]int{}, join: map[int]*JoinNode{},
		ns: map[int]hnode{}, layout: layout, ctr: &Counters{Execs: map[int]int{}}}
	for p := 1; p <= np; p++ {
		switch g.kind(p) {
		case 1:
			g.pA[p] = &parameter.Value[string]{Name: "p" + strconv.Itoa(p), DefaultValue: paramTerm(p, 1)}
		case 2:
			g.pB[p] = nodes.Value(paramTerm(p, 1))
		case 3:
			g.pC[p] = &parameter.Value[[]string]{Name: "p" + strconv.Itoa(p), DefaultValue: sliceTerm(p, 1)}
			g.join[p] = &JoinNode{Data: JoinData{In: g.pC[p]}}
		case 4:
			g.held[p] = sliceTerm(p, 1)
			g.pD[p] = nodes.Value(g.held[p])
			g.join[p] = &JoinNode{Data: JoinData{In: g.pD[p]}}
		default:
			panic("unknown parameter kind")
		}
	}
	for n := np + 1; n <= np+nn; n++ {
		g.ns[n] = newHNode(layout, n, g.ctr)
	}
	return g
}

func (g *ngGraph) out(s int) nodes.NodeOutputReference {
	switch {
	case s == 0:
		return nil
	case s <= g.np && g.kind(s) == 1:
		return g.pA[s].Out()
	case s <= g.np && g.kind(s) == 2:
		return g.pB[s].Out()
	case s <= g.np:
		return g.join[s].Out()
	default:
		return g.ns[s].Out()
	}
}

func (g *ngGraph) setParam(p, v int) {
	switch g.kind(p) {
	case 1:
		msg, _ := json.Marshal(paramTerm(p, v))
		if _, err := g.pA[p].ApplyMessage(msg); err != nil {
			panic(err)
		}
	case 2:
		g.pB[p].Set(paramTerm(p, v))
	case 3:
		msg, _ := json.Marshal(sliceTerm(p, v))
		if _, err := g.pC[p].ApplyMessage(msg); err != nil {
			panic(err)
		}
	case 4:
		g.sets[p]++
		if g.sets[p]%2 == 1 {
			// the caller edits the slice it handed over and says so with Set
			g.held[p][1] = strconv.Itoa(v)
		} else {
			g.held[p] = sliceTerm(p, v)
		}
		g.pD[p].Set(g.held[p])
	}
}

// setBad sends parameter p a message that must be rejected; it reports whether it was. For the slice
// kind the first two elements are decodable and differ from the value held, the third is not a string.
func (g *ngGraph) setBad(p int) bool {
	switch g.kind(p) {
	case 1:
		_, err := g.pA[p].ApplyMessage([]byte(`{"not":"a string"}`))
		return err != nil
	case 3:
		_, err := g.pC[p].ApplyMessage([]byte(`["p` + strconv.Itoa(p) + `x","99",7]`))
		return err != nil
	}
	return true // kinds without a message path: nothing is sent
}

func (g *ngGraph) wire(n int, port string, s int) {
	g.ns[n].SetInput(port, nodes.Output{NodeOutput: g.out(s)})
}

func (g *ngGraph) obs() ngObs {
	o := ngObs{Ver: []int{}, Execs: []int{}, PVer: []int{}}
	for n := g.np + 1; n <= g.np+g.nn; n++ {
		o.Ver = append(o.Ver, g.ns[n].Version())
		o.Execs = append(o.Execs, g.ctr.Execs[n])
	}
	for p := 1; p <= g.np; p++ {
		switch g.kind(p) {
		case 1:
			o.PVer = append(o.PVer, g.pA[p].Version())
		case 2:
			o.PVer = append(o.PVer, g.pB[p].Version())
		case 3:
			o.PVer = append(o.PVer, g.pC[p].Version())
		default:
			o.PVer = append(o.PVer, g.pD[p].Version())
		}
	}
	return o
}

func runNG(enc *json.Encoder, h int, hist NGHistory, kinds []int, layout int) {
	var g *ngGraph
	for i, st := range hist.Steps {
		ln := ngLine{H: h, I: i, S: st.S}
		switch st.Op {
		case "init":
			g = newNGGraph(hist.NP, hist.NN, kinds, layout)
			for _, w := range st.Wire {
				if w.A != 0 {
					g.wire(w.N, "A", w.A)
				}
				if w.B != 0 {
					g.wire(w.N, "B", w.B)
				}
				for _, s := range w.Arr {
					g.wire(w.N, "Arr.0", s)
				}
			}
			ln.K = "reset"
			ln.Wire = st.Wire
		case "set":
			g.setParam(st.P, st.V)
			ln.K, ln.P, ln.V = "set", st.P, st.V
		case "setbad":
			ln.K, ln.P = "setbad", st.P
			ln.Err = g.setBad(st.P)
		case "wire":
			g.wire(st.N, st.Port, st.S)
			ln.K, ln.N, ln.Port = "wire", st.N, st.Port
		case "arradd":
			g.wire(st.N, "Arr."+strconv.Itoa(g.ns[st.N].ArrLen()), st.S)
			ln.K, ln.N = "arradd", st.N
		case "arrdel":
			g.wire(st.N, "Arr."+strconv.Itoa(st.K-1), 0)
			ln.K, ln.N, ln.KK = "arrdel", st.N, st.K
		case "read":
			ln.K, ln.N = "read", st.N
			ln.Val = g.ns[st.N].Value()
		default:
			panic("unknown nodegraph op " + st.Op)
		}
		ln.Obs = g.obs()
		if err := enc.Encode(ln); err != nil {
			panic(err)
		}
	}
}

// RunNodeGraph executes histories (ndjson) `reps` times each and writes the trace.
// RunNodeGraph executes the histories of `in`. The PROCESS is part of the state of the code under test
// (package-level tables, per-type caches): with procs > 1 the histories are split into procs
// contiguous ranges and each range runs in a fresh process image of this binary, so that procs
// different histories are the first thing a process ever does; the trace is the concatenation in order.
func RunNodeGraph(in, out string, reps, procs, from, to int) error {
	if procs > 1 {
		n, err := countLines(in)
		if err != nil {
			return err
		}
		if procs > n {
			procs = n
		}
		if procs > 1 {
			errs := make(chan error, procs)
			sem := make(chan struct{}, 8)
			for k := 0; k < procs; k++ {
				go func(k int) {
					sem <- struct{}{}
					defer func() { <-sem }()
					a, b := k*n/procs, (k+1)*n/procs
					cmd := exec.Command(os.Args[0], "ng-exec", "-in", in, "-out", fmt.Sprintf("%s.part%d", out, k),
						"-reps", strconv.Itoa(reps), "-from", strconv.Itoa(a), "-to", strconv.Itoa(b))
					cmd.Stderr = os.Stderr
					errs <- cmd.Run()
				}(k)
			}
			for k := 0; k < procs; k++ {
				if err := <-errs; err != nil {
					return fmt.Errorf("child process: %w", err)
				}
			}
			fo, err := os.Create(out)
			if err != nil {
				return err
			}
			defer fo.Close()
			for k := 0; k < procs; k++ {
				pn := fmt.Sprintf("%s.part%d", out, k)
				b, err := os.ReadFile(pn)
				if err != nil {
					return err
				}
				if _, err := fo.Write(b); err != nil {
					return err
				}
				os.Remove(pn)
			}
			return nil
		}
	}
	fi, err := os.Open(in)
	if err != nil {
		return err
	}
	defer fi.Close()
	fo, err := os.Create(out)
	if err != nil {
		return err
	}
	defer fo.Close()
	w := bufio.NewWriterSize(fo, 1<<20)
	defer w.Flush()
	enc := json.NewEncoder(w)
	sc := bufio.NewScanner(fi)
	sc.Buffer(make([]byte, 1<<20), 1<<26)
	h := 0
	for sc.Scan() {
		if len(sc.Bytes()) == 0 {
			continue
		}
		if h < from || (to >= 0 && h >= to) {
			h++
			continue
		}
		var hist NGHistory
		if err := json.Unmarshal(sc.Bytes(), &hist); err != nil {
			return fmt.Errorf("history %d: %w", h, err)
		}
		for r := 0; r < reps; r++ {
			// the kinds of the parameters are invisible to the model: the repetitions of a history rotate them
			kinds := [][]int{{1, 2, 3, 4}, {3, 4, 1, 2}, {4, 3, 2, 1}, {2, 1, 4, 3}}[r%4]
			if len(hist.Kinds) > 0 {
				kinds = hist.Kinds
			}
			// so is the port layout of the nodes: it rotates with the history AND the repetition, so that every
			// history meets at least two layouts and neighbouring histories different ones
			layout := (h + r) % NLayouts
			if hist.Layout > 0 {
				layout = hist.Layout - 1
			}
			runNG(enc, h, hist, kinds, layout)
		}
		h++
	}
	return sc.Err()
}

func countLines(path string) (int, error) {
	f, err := os.Open(path)
	if err != nil {
		return 0, err
	}
	defer f.Close()
	sc := bufio.NewScanner(f)
	sc.Buffer(make([]byte, 1<<20), 1<<26)
	n := 0
	for sc.Scan() {
		if len(sc.Bytes()) > 0 {
			n++
		}
	}
	return n, sc.Err()
}

// GenNodeGraph writes seeded random histories on random DAGs (wiring only to lower ids).
func GenNodeGraph(out string, seed int64, n, steps, np, nn int) error {
	fo, err := os.Create(out)
	if err != nil {
		return err
	}
	defer fo.Close()
	w := bufio.NewWriter(fo)
	defer w.Flush()
	enc := json.NewEncoder(w)
	for h := 0; h < n; h++ {
		r := rand.New(rand.NewSource(seed*7919 + int64(h)))
		src := func(n int) int { // any param or a lower node
			k := r.Intn(n - 1)
			return 1 + k
		}
		wires := make([]WireRec, nn)
		arrLen := map[int]int{}
		for i := range wires {
			nid := np + 1 + i
			wires[i] = WireRec{N: nid, Arr: []int{}}
			if r.Intn(4) > 0 {
				wires[i].A = src(nid)
			}
			if r.Intn(2) > 0 {
				wires[i].B = src(nid)
			}
			k := r.Intn(4)
			if nid > 2 && r.Intn(5) == 0 {
				// wide fan-in: the number of dependencies crosses the sizes at which sorting and
				// positional comparison of dependency lists change behaviour (12, 16, 32)
				k = 11 + r.Intn(30)
			}
			for ; k > 0; k-- {
				wires[i].Arr = append(wires[i].Arr, src(nid))
			}
			arrLen[nid] = len(wires[i].Arr)
		}
		hist := NGHistory{NP: np, NN: nn, Steps: []NGStep{{Op: "init", Wire: wires}}, Tag: "random"}
		for i := 0; i < steps; i++ {
			nid := np + 1 + r.Intn(nn)
			switch r.Intn(10) {
			case 0, 1, 2:
				if r.Intn(6) == 0 {
					hist.Steps = append(hist.Steps, NGStep{Op: "setbad", P: 1 + r.Intn(np)})
					break
				}
				hist.Steps = append(hist.Steps, NGStep{Op: "set", P: 1 + r.Intn(np), V: []int{1, 2, 3, 13, 13}[r.Intn(5)]})
			case 3:
				s := 0
				if r.Intn(4) > 0 {
					s = src(nid)
				}
				hist.Steps = append(hist.Steps, NGStep{Op: "wire", N: nid, Port: []string{"A", "B"}[r.Intn(2)], S: s})
			case 4:
				if arrLen[nid] < 48 {
					hist.Steps = append(hist.Steps, NGStep{Op: "arradd", N: nid, S: src(nid)})
					arrLen[nid]++
				}
			case 5:
				if arrLen[nid] > 0 {
					hist.Steps = append(hist.Steps, NGStep{Op: "arrdel", N: nid, K: 1 + r.Intn(arrLen[nid])})
					arrLen[nid]--
				}
			default:
				hist.Steps = append(hist.Steps, NGStep{Op: "read", N: nid})
			}
		}
		if err := enc.Encode(hist); err != nil {
			return err
		}
	}
	return nil
}
