package graphfam

import (
	"github.com/EliCDavis/polyform/generator"
)

// Add-only exports for the X08 family (harness/clifam): applications of the
// command-line family are built from GraphEdit preludes exactly as the C12 /
// X04 families build theirs. Nothing here computes a verdict.

// GEApplyEdit performs one GraphEdit step on the application's graph instance
// (false: the call panicked or returned an error).
func GEApplyEdit(app *generator.App, st GEStep) bool { return applyEdit(app, st) }
