package graphfam

import (
	"github.com/EliCDavis/polyform/nodes"
)

// Add-only exports for the X04 family (harness/httpfam): the abstraction
// tables of the GraphEdit model (type numbers, port names, typed parameter
// values, metadata paths) so that the HTTP family drives and projects exactly
// the graphs the C12 family does. Nothing here computes a verdict.

// GETypeKey returns the registered type key of GraphEdit type number t ("" if none).
func GETypeKey(t int) string { return geTypeKeys[t] }

// GETypeId returns the GraphEdit type number of a registered type key.
func GETypeId(key string) (int, bool) { t, ok := geTypeIds[key]; return t, ok }

// GEPorts returns the single input port names of type t (model port p is GEPorts(t)[p-1]).
func GEPorts(t int) []string { return gePorts[t] }

// GEArrPort returns the array input port of type t ("" if none).
func GEArrPort(t int) string { return geArr[t] }

// GEValueJSON is the JSON message of model value v for parameter type t.
func GEValueJSON(t, v int) []byte { return valueJSON(t, v) }

// GEValueInv maps a parameter node's current value back to the model integer (-1: not in the image).
func GEValueInv(n nodes.Node) int { return valueInv(n) }

// GEDescInv maps a parameter node's description back to the model integer.
func GEDescInv(n nodes.Node) int {
	if d, ok := n.(nodes.Describable); ok {
		return strInv("ds", d.Description())
	}
	return descOf(n)
}

// GEStrName / GEStrInv: model integer <-> prefixed string ("" for 0).
func GEStrName(prefix string, v int) string { return strName(prefix, v) }
func GEStrInv(prefix, s string) int         { return strInv(prefix, s) }

// GEMetaPath is the dotted metadata path of model path number i.
func GEMetaPath(i int) string { return metaPaths[i] }

// GENodeNum / GENodeId: "Node-k" <-> k.
func GENodeNum(id string) int { return nodeNum(id) }
func GENodeId(k int) string   { return nodeId(k) }

// GEHash3 is the 48-bit digest (three 16-bit integers) used for byte identity in traces.
func GEHash3(b []byte) []int { return hash3(b) }
