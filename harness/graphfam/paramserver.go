package graphfam

import (
	"bufio"
	"bytes"
	"encoding/json"
	"flag"
	"fmt"
	"io"
	"math/rand"
	"os"
	"runtime"
	"strconv"
	"strings"
	"sync"
	"sync/atomic"
	"time"

	"github.com/EliCDavis/polyform/generator/artifact"
	"github.com/EliCDavis/polyform/generator/artifact/basics"
	"github.com/EliCDavis/polyform/generator/graph"
	"github.com/EliCDavis/polyform/generator/parameter"
	"github.com/EliCDavis/polyform/nodes"
	"github.com/EliCDavis/polyform/refutil"
	"github.com/EliCDavis/vector/vector3"
)

// ---------------------------------------------------------------------------
// C13: concurrent UpdateParameter / ParameterData / Artifact on a real
// graph.Instance. Node processors are harness-owned and block at gates, so a
// cooperative scheduler imposes TLC-generated schedules on real goroutines.
// Histories (invoke/response stamped from one atomic counter) are judged by
// TraceParamServer.tla.
// ---------------------------------------------------------------------------

func goid() int64 {
	var buf [64]byte
	n := runtime.Stack(buf[:], false)
	// "goroutine 123 [running]:..."
	s := buf[len("goroutine "):n]
	var id int64
	for _, c := range s {
		if c < '0' || c > '9' {
			break
		}
		id = id*10 + int64(c-'0')
	}
	return id
}

type gateEvent struct {
	client int
	kind   string // "gate", "opdone"
}

type Gates struct {
	mu      sync.Mutex
	open    bool
	stress  *rand.Rand
	clients map[int64]int // goroutine id -> client
	events  chan gateEvent
	release map[int]chan struct{} // per client
}

func (g *Gates) Hit(node, pos int) {
	g.mu.Lock()
	if g.open {
		st := g.stress
		var r int
		if st != nil {
			r = st.Intn(8)
		}
		g.mu.Unlock()
		if st != nil {
			switch r {
			case 0:
				time.Sleep(time.Duration(50+10*node) * time.Microsecond)
			case 1, 2:
				runtime.Gosched()
			}
		}
		return
	}
	c, ok := g.clients[goid()]
	if !ok {
		g.mu.Unlock()
		return
	}
	ch := g.release[c]
	g.mu.Unlock()
	g.events <- gateEvent{client: c, kind: "gate"}
	<-ch
}

type GData struct {
	ID int
	G  *Gates
	A  nodes.NodeOutput[string]
	B  nodes.NodeOutput[string]
}

func gval(o nodes.NodeOutput[string]) string {
	if o == nil {
		return "-"
	}
	return o.Value()
}

func (d GData) Process() (string, error) {
	d.G.Hit(d.ID, 0)
	a := gval(d.A)
	if a == PanicTrigger {
		panic("harness processor: input " + a + " crashes this node") // NodeTerms.tla: the caller gets no value
	}
	d.G.Hit(d.ID, 1)
	b := gval(d.B)
	d.G.Hit(d.ID, 2)
	if a == ErrTrigger {
		return "", fmt.Errorf("input %s is not acceptable", a) // NodeTerms.tla: the zero value is served
	}
	return "n" + strconv.Itoa(d.ID) + "(" + a + "," + b + ",[])", nil
}

type GNode = nodes.Struct[string, GData]

type PSOp struct {
	Op string `json:"op"`
	P  int    `json:"p"`
	V  int    `json:"v"`
}

type PSCase struct {
	Progs [][]PSOp `json:"progs"`
	Sched []int    `json:"sched"`
	Mode  string   `json:"mode"` // "directed" | "stress"
	Seed  int64    `json:"seed"`
	Tag   string   `json:"tag,omitempty"`
}

type psLine struct {
	K    string    `json:"k"`
	Seq  int64     `json:"seq"`
	C    int       `json:"c"`
	Op   string    `json:"op"`
	P    int       `json:"p"`
	V    int       `json:"v"`
	Res  string    `json:"res"`
	Wire []WireRec `json:"wire"`
	Prod []int     `json:"prod"`
	Init []int     `json:"init"` // initial parameter values (reset line)
	H    int       `json:"h"`
	NC   int       `json:"nc"`
}

type psSystem struct {
	inst  *graph.Instance
	pids  map[int]string
	gates *Gates
}

// params 1,2: strings; param 3: []vector3 (slice valued). Nodes 4..7 are gated string nodes,
// node 8 is the lazy vector artifact. producers: "a" = text(n6), "b" = text(n7), "c" = vec(n8)
var psWire = []WireRec{
	{N: 4, A: 1, B: 2, Arr: []int{}},
	{N: 5, A: 4, B: 1, Arr: []int{}},
	{N: 6, A: 4, B: 5, Arr: []int{}},
	{N: 7, A: 2, B: 4, Arr: []int{}},
	{N: 8, A: 3, B: 0, Arr: []int{}},
}
var psProd = []int{6, 7, 8} // art p=1 -> "a", p=2 -> "b", p=3 -> "c"

// VecArt keeps a reference to the slice it was built from and formats it only
// when written - as real artifacts (glTF scenes, meshes) do: they are serialised
// by the caller after Artifact() returned, outside the producer lock.
type VecArt struct{ Data []vector3.Float64 }

func (a VecArt) Write(w io.Writer) error {
	parts := make([]string, len(a.Data))
	for i, v := range a.Data {
		parts[i] = strconv.Itoa(int(v.X()))
	}
	_, err := w.Write([]byte("c[" + strings.Join(parts, ";") + "]"))
	return err
}

func (VecArt) Mime() string { return "text/plain" }

type VecArtData struct {
	In nodes.NodeOutput[[]vector3.Float64]
}

func (d VecArtData) Process() (artifact.Artifact, error) {
	if d.In == nil {
		return VecArt{}, nil
	}
	return VecArt{Data: d.In.Value()}, nil
}

type VecArtNode = nodes.Struct[artifact.Artifact, VecArtData]

// slice value of parameter 3 for model value v = tag*10 + length
func vecValue(v int) []vector3.Float64 {
	n, tag := v%10, v/10
	out := make([]vector3.Float64, n)
	for i := range out {
		x := float64(tag*100 + i + 1)
		out[i] = vector3.New(x, x, x)
	}
	return out
}

func newPSSystem() *psSystem {
	g := &Gates{clients: map[int64]int{}, events: make(chan gateEvent, 1024), release: map[int]chan struct{}{}, open: true}
	params := map[int]*parameter.Value[string]{}
	for p := 1; p <= 2; p++ {
		params[p] = &parameter.Value[string]{Name: "p" + strconv.Itoa(p), DefaultValue: paramTerm(p, 1)}
	}
	// parameter 2 is served from a command line flag (value 7) until its first update; its default is 1
	params[2].CLI = &parameter.CliConfig[string]{FlagName: "p2", Usage: "second parameter"}
	vecParam := &parameter.Value[[]vector3.Float64]{Name: "p3", DefaultValue: vecValue(1)}
	ns := map[int]*GNode{}
	out := func(s int) nodes.NodeOutput[string] {
		if s <= 2 {
			return params[s].Out()
		}
		return ns[s].Out()
	}
	for _, w := range psWire[:4] {
		ns[w.N] = &GNode{Data: GData{ID: w.N, G: g}}
	}
	for _, w := range psWire[:4] {
		ns[w.N].Data.A = out(w.A)
		ns[w.N].Data.B = out(w.B)
	}
	vecNode := &VecArtNode{Data: VecArtData{In: vecParam.Out()}}
	inst := graph.New(&refutil.TypeFactory{})
	inst.AddProducer("a", basics.NewTextNode(ns[6].Out()))
	inst.AddProducer("b", basics.NewTextNode(ns[7].Out()))
	inst.AddProducer("c", vecNode.Out())
	sys := &psSystem{inst: inst, gates: g, pids: map[int]string{}}
	for p := 1; p <= 2; p++ {
		sys.pids[p] = inst.NodeId(params[p])
	}
	sys.pids[3] = inst.NodeId(vecParam)
	fs := flag.NewFlagSet("verif", flag.ContinueOnError)
	inst.InitializeParameters(fs)
	if err := fs.Parse([]string{"-p2", paramTerm(2, 7)}); err != nil {
		panic(err)
	}
	return sys
}

func artString(a artifact.Artifact) string {
	var buf bytes.Buffer
	if err := a.Write(&buf); err != nil {
		return "ERR:" + err.Error()
	}
	return buf.String()
}

func (s *psSystem) call(op PSOp) (res string) {
	defer func() {
		if r := recover(); r != nil {
			res = "PANIC"
		}
	}()
	switch op.Op {
	case "upd":
		var msg []byte
		if op.P == 3 {
			msg, _ = json.Marshal(vecValue(op.V))
		} else {
			msg, _ = json.Marshal(paramTerm(op.P, op.V))
		}
		_, err := s.inst.UpdateParameter(s.pids[op.P], msg)
		if err != nil {
			return "ERR"
		}
		return "ok"
	case "updbad":
		// valid JSON of the wrong shape: must be rejected and leave the parameter as it was
		msg := []byte(`123`)
		if op.P == 3 {
			msg = []byte(`[{"x":9,"y":9,"z":9},"oops",{"x":8,"y":8,"z":8}]`)
		}
		if _, err := s.inst.UpdateParameter(s.pids[op.P], msg); err != nil {
			return "ERR"
		}
		return "ok"
	case "get":
		data := s.inst.ParameterData(s.pids[op.P])
		if op.P == 3 {
			var vs []vector3.Float64
			if err := json.Unmarshal(data, &vs); err != nil {
				return "ERR"
			}
			return artString(VecArt{Data: vs})
		}
		var v string
		if err := json.Unmarshal(data, &v); err != nil {
			return "ERR"
		}
		return v
	case "art":
		name := []string{"a", "a", "b", "c"}[op.P]
		a := s.inst.Artifact(name)
		s.gates.Hit(0, 9) // the caller serialises the artifact after Artifact() returned
		return artString(a)
	}
	return "ERR"
}

type psRecorder struct {
	mu    sync.Mutex
	seq   int64
	lines []psLine
}

func (r *psRecorder) add(l psLine) {
	r.mu.Lock()
	r.seq++
	l.Seq = r.seq
	r.lines = append(r.lines, l)
	r.mu.Unlock()
}

func runPSCase(h int, cs PSCase) []psLine {
	sys := newPSSystem()
	rec := &psRecorder{}
	nc := len(cs.Progs)
	rec.add(psLine{K: "reset", Wire: psWire, Prod: psProd, Init: []int{1, 7, 1}, H: h, NC: nc})
	g := sys.gates
	directed := cs.Mode != "stress"
	g.mu.Lock()
	g.open = !directed
	if !directed {
		g.stress = rand.New(rand.NewSource(cs.Seed))
	}
	g.mu.Unlock()

	start := make([]chan struct{}, nc+1)
	var freeRun atomic.Bool
	freeRun.Store(!directed)
	var wg sync.WaitGroup
	for c := 1; c <= nc; c++ {
		start[c] = make(chan struct{}, len(cs.Progs[c-1])+1)
		g.release[c] = make(chan struct{}, 64)
		wg.Add(1)
		go func(c int) {
			defer wg.Done()
			g.mu.Lock()
			g.clients[goid()] = c
			g.mu.Unlock()
			for _, op := range cs.Progs[c-1] {
				if !freeRun.Load() {
					<-start[c]
				}
				rec.add(psLine{K: "inv", C: c, Op: op.Op, P: op.P, V: op.V, H: h})
				g.Hit(0, 8) // invoked but not yet inside the call: one scheduler step, as Start/StepIn in ParamServer.tla
				res := sys.call(op)
				rec.add(psLine{K: "resp", C: c, Op: op.Op, P: op.P, V: op.V, Res: res, H: h})
				if directed {
					g.events <- gateEvent{client: c, kind: "opdone"}
				}
			}
		}(c)
	}

	if directed {
		// cooperative scheduler
		state := make([]string, nc+1) // idle | running | gate | fin
		next := make([]int, nc+1)     // ops started so far
		for c := 1; c <= nc; c++ {
			state[c] = "idle"
		}
		absorb := func(ev gateEvent) {
			if ev.kind == "gate" {
				state[ev.client] = "gate"
			} else {
				if next[ev.client] >= len(cs.Progs[ev.client-1]) {
					state[ev.client] = "fin"
				} else {
					state[ev.client] = "idle"
				}
			}
		}
		waitFor := func(c int) {
			deadline := time.After(15 * time.Millisecond)
			for {
				select {
				case ev := <-g.events:
					absorb(ev)
					if ev.client == c {
						return
					}
				case <-deadline:
					return // c is blocked (on the mutex) - that is an outcome, not an error
				}
			}
		}
		for _, c := range cs.Sched {
			if c < 1 || c > nc {
				continue
			}
			// drain pending events
			for drained := false; !drained; {
				select {
				case ev := <-g.events:
					absorb(ev)
				default:
					drained = true
				}
			}
			switch state[c] {
			case "idle":
				if next[c] < len(cs.Progs[c-1]) {
					next[c]++
					state[c] = "running"
					start[c] <- struct{}{}
					waitFor(c)
				}
			case "gate":
				state[c] = "running"
				g.release[c] <- struct{}{}
				waitFor(c)
			}
		}
		// let everything finish freely
		freeRun.Store(true)
		g.mu.Lock()
		g.open = true
		g.mu.Unlock()
		for c := 1; c <= nc; c++ {
			for k := 0; k < len(cs.Progs[c-1])+1; k++ {
				select {
				case start[c] <- struct{}{}:
				default:
				}
			}
			for k := 0; k < 32; k++ {
				select {
				case g.release[c] <- struct{}{}:
				default:
				}
			}
		}
	}
	fin := make(chan struct{})
	go func() { wg.Wait(); close(fin) }()
	// keep the event channel drained while waiting
	// once a case of this run has hung, the later ones are given less time (the verdict is already there)
	limit := 10 * time.Second
	if hangsSeen.Load() > 0 {
		limit = time.Second
	}
	timeout := time.After(limit)
	for done := false; !done; {
		select {
		case <-fin:
			done = true
		case <-g.events:
		case <-timeout:
			hangsSeen.Add(1)
			rec.add(psLine{K: "hang", H: h})
			done = true
		}
	}
	rec.mu.Lock()
	defer rec.mu.Unlock()
	out := make([]psLine, len(rec.lines))
	copy(out, rec.lines)
	return out
}

var hangsSeen atomic.Int64

// RunParamServer executes cases (ndjson) and writes the histories.
func RunParamServer(in, out string) error {
	fi, err := os.Open(in)
	if err != nil {
		return err
	}
	defer fi.Close()
	fo, err := os.Create(out)
	if err != nil {
		return err
	}
	defer fo.Close()
	w := bufio.NewWriterSize(fo, 1<<20)
	defer w.Flush()
	enc := json.NewEncoder(w)
	sc := bufio.NewScanner(fi)
	sc.Buffer(make([]byte, 1<<20), 1<<26)
	h := 0
	for sc.Scan() {
		if len(sc.Bytes()) == 0 {
			continue
		}
		var cs PSCase
		if err := json.Unmarshal(sc.Bytes(), &cs); err != nil {
			return fmt.Errorf("case %d: %w", h, err)
		}
		for _, l := range runPSCase(h, cs) {
			if l.Wire == nil {
				l.Wire = []WireRec{}
			}
			if l.Prod == nil {
				l.Prod = []int{}
			}
			if l.Init == nil {
				l.Init = []int{}
			}
			if err := enc.Encode(l); err != nil {
				return err
			}
		}
		h++
	}
	return sc.Err()
}

// GenParamServerStress writes seeded stress cases (free-running clients).
func GenParamServerStress(out string, seed int64, n, clients, ops int) error {
	fo, err := os.Create(out)
	if err != nil {
		return err
	}
	defer fo.Close()
	enc := json.NewEncoder(fo)
	for i := 0; i < n; i++ {
		r := rand.New(rand.NewSource(seed*104729 + int64(i)))
		nc := 2 + r.Intn(clients-1)
		cs := PSCase{Mode: "stress", Seed: seed*31 + int64(i), Sched: []int{}, Tag: "stress"}
		val := 2
		for c := 0; c < nc; c++ {
			prog := []PSOp{}
			for k := 0; k < ops; k++ {
				switch r.Intn(6) {
				case 0, 1:
					p := 1 + r.Intn(3)
					if p == 3 {
						prog = append(prog, PSOp{Op: "upd", P: 3, V: (val%9+1)*10 + 1 + r.Intn(5)})
					} else {
						v := val
						switch r.Intn(6) {
						case 0:
							v = 13 // makes the processors reading p1 fail
						case 1:
							v = 1 // the default value
						case 2:
							if p == 1 && r.Intn(2) == 0 {
								v = 66 // makes the processors reading p1 panic
							}
						}
						prog = append(prog, PSOp{Op: "upd", P: p, V: v})
					}
					val++
				case 2:
					if r.Intn(3) == 0 {
						prog = append(prog, PSOp{Op: "updbad", P: []int{1, 3}[r.Intn(2)]})
					} else {
						prog = append(prog, PSOp{Op: "get", P: 1 + r.Intn(3)})
					}
				default:
					prog = append(prog, PSOp{Op: "art", P: 1 + r.Intn(3)})
				}
			}
			cs.Progs = append(cs.Progs, prog)
		}
		if err := enc.Encode(cs); err != nil {
			return err
		}
	}
	return nil
}
