package graphfam

import (
	"bufio"
	"bytes"
	"crypto/sha256"
	"encoding/json"
	"fmt"
	"github.com/EliCDavis/polyform/generator/schema"
	"io"
	"log"
	"math"
	"math/rand"
	"os"
	"path/filepath"
	"sort"
	"strconv"
	"strings"

	"github.com/EliCDavis/polyform/drawing/coloring"
	"github.com/EliCDavis/polyform/generator"
	"github.com/EliCDavis/polyform/generator/artifact/basics"
	"github.com/EliCDavis/polyform/generator/graph"
	"github.com/EliCDavis/polyform/generator/parameter"
	"github.com/EliCDavis/polyform/math/geometry"
	"github.com/EliCDavis/polyform/nodes"
	"github.com/EliCDavis/polyform/refutil"
	"github.com/EliCDavis/vector/vector3"

	pmath "github.com/EliCDavis/polyform/math"

	// node type registration as the polyform command does
	_ "github.com/EliCDavis/polyform/formats/gltf"
	_ "github.com/EliCDavis/polyform/formats/ply"
	_ "github.com/EliCDavis/polyform/formats/splat"
	_ "github.com/EliCDavis/polyform/formats/spz"
	_ "github.com/EliCDavis/polyform/formats/stl"
	_ "github.com/EliCDavis/polyform/math/vector"
	_ "github.com/EliCDavis/polyform/modeling/extrude"
	_ "github.com/EliCDavis/polyform/modeling/meshops"
	_ "github.com/EliCDavis/polyform/modeling/meshops/gausops"
	_ "github.com/EliCDavis/polyform/modeling/primitives"
	_ "github.com/EliCDavis/polyform/modeling/repeat"
	_ "github.com/EliCDavis/polyform/nodes/experimental"
)

// ---------------------------------------------------------------------------
// C12: edit histories (GraphEdit.tla steps) on a real generator.App, with a
// save -> load-into-fresh-App -> save cycle after every step. Only executes
// and projects; TraceGraphEdit.tla judges.
// ---------------------------------------------------------------------------

// order-sensitive array node (harness type, registered like repository types)
type HConcatData struct {
	Values []nodes.NodeOutput[string]
	Sep    nodes.NodeOutput[string]
}

func (d HConcatData) Process() (string, error) {
	sep := "|"
	if d.Sep != nil {
		sep = d.Sep.Value()
	}
	parts := []string{}
	for _, v := range d.Values {
		if v == nil {
			parts = append(parts, "<nil>")
			continue
		}
		parts = append(parts, v.Value())
	}
	return "[" + strings.Join(parts, sep) + "]", nil
}

type HConcat = nodes.Struct[string, HConcatData]

type HFmtData struct {
	F nodes.NodeOutput[float64]
	I nodes.NodeOutput[int]
	B nodes.NodeOutput[bool]
	S nodes.NodeOutput[string]
}

func (d HFmtData) Process() (string, error) {
	var sb strings.Builder
	sb.WriteString("fmt(")
	if d.F != nil {
		sb.WriteString(strconv.FormatFloat(d.F.Value(), 'g', -1, 64))
	}
	sb.WriteString(";")
	if d.I != nil {
		sb.WriteString(strconv.Itoa(d.I.Value()))
	}
	sb.WriteString(";")
	if d.B != nil {
		sb.WriteString(strconv.FormatBool(d.B.Value()))
	}
	sb.WriteString(";")
	if d.S != nil {
		sb.WriteString(d.S.Value())
	}
	sb.WriteString(")")
	return sb.String(), nil
}

type HFmt = nodes.Struct[string, HFmtData]

var geTypeKeys = map[int]string{}
var geTypeIds = map[string]int{}

func geKey[T any]() string { return refutil.GetTypeWithPackage(new(T)) }

func init() {
	f := &refutil.TypeFactory{}
	refutil.RegisterType[HConcat](f)
	refutil.RegisterType[HFmt](f)
	generator.RegisterTypes(f)
	reg := func(id int, key string) { geTypeKeys[id] = key; geTypeIds[key] = id }
	reg(1, geKey[parameter.String]())
	reg(2, geKey[parameter.Float64]())
	reg(3, geKey[parameter.Int]())
	reg(4, geKey[parameter.Bool]())
	reg(5, geKey[parameter.Vector3]())
	reg(6, geKey[parameter.Vector3Array]())
	reg(7, geKey[parameter.Color]())
	reg(8, geKey[parameter.AABB]())
	reg(10, geKey[HConcat]())
	reg(11, geKey[HFmt]())
	reg(12, geKey[pmath.SumNode]())
	reg(13, geKey[pmath.DifferenceNode]())
	reg(14, geKey[basics.TextNode]())
}

var gePorts = map[int][]string{10: {"Sep"}, 11: {"F", "I", "B", "S"}, 13: {"A", "B"}, 14: {"In"}}
var geArr = map[int]string{10: "Values", 12: "Values"}

func nodeNum(id string) int {
	n, err := strconv.Atoi(strings.TrimPrefix(id, "Node-"))
	if err != nil {
		return -7
	}
	return n
}

func nodeId(k int) string { return "Node-" + strconv.Itoa(k) }

func strName(prefix string, v int) string {
	if v == 0 {
		return ""
	}
	return prefix + strconv.Itoa(v)
}

func strInv(prefix, s string) int {
	if s == "" {
		return 0
	}
	if strings.HasPrefix(s, prefix) {
		if v, err := strconv.Atoi(s[len(prefix):]); err == nil {
			return v
		}
	}
	return -1
}

// typed value <-> model integer
func valueJSON(t, v int) []byte {
	var x any
	switch t {
	case 1:
		x = strName("s", v)
	case 2:
		x = float64(v) * 1.5
	case 3:
		x = v
	case 4:
		x = v == 1
	case 5:
		x = vector3.New(float64(v), float64(2*v), float64(-v))
	case 6:
		arr := make([]vector3.Float64, v)
		for i := range arr {
			arr[i] = vector3.New(float64(i+1), float64(i+1), float64(i+1))
		}
		x = arr
	case 7:
		x = coloring.WebColor{R: byte(v), G: byte(2 * v), B: byte(3 * v), A: 255}
	case 8:
		x = geometry.NewAABB(vector3.New(float64(v), float64(v), float64(v)), vector3.One[float64]())
	}
	b, err := json.Marshal(x)
	if err != nil {
		panic(err)
	}
	return b
}

func valueInv(n nodes.Node) int {
	switch p := n.(type) {
	case *parameter.String:
		return strInv("s", p.Value())
	case *parameter.Float64:
		v := p.Value() / 1.5
		if v == math.Round(v) {
			return int(v)
		}
	case *parameter.Int:
		return p.Value()
	case *parameter.Bool:
		if p.Value() {
			return 1
		}
		return 0
	case *parameter.Vector3:
		v := p.Value()
		if v.Y() == 2*v.X() && v.Z() == -v.X() && v.X() == math.Round(v.X()) {
			return int(v.X())
		}
	case *parameter.Vector3Array:
		arr := p.Value()
		for i, e := range arr {
			if e != vector3.New(float64(i+1), float64(i+1), float64(i+1)) {
				return -1
			}
		}
		return len(arr)
	case *parameter.Color:
		c := p.Value()
		if c == coloring.White() {
			return 0
		}
		if c.A == 255 && c.G == 2*c.R && c.B == 3*c.R {
			return int(c.R)
		}
	case *parameter.AABB:
		b := p.Value()
		if b == geometry.NewAABB(vector3.Zero[float64](), vector3.One[float64]()) {
			return 0
		}
		c := b.Center()
		if c.X() == c.Y() && c.Y() == c.Z() && b.Size() == vector3.One[float64]() && c.X() == math.Round(c.X()) {
			return int(c.X())
		}
	}
	return -1
}

type GEStep struct {
	Op string `json:"op"`
	A  int    `json:"a"`
	B  int    `json:"b"`
	C  int    `json:"c"`
}

type GEHistory struct {
	Steps []GEStep `json:"steps"`
	Tag   string   `json:"tag,omitempty"`
}

type geNode struct {
	Id     int   `json:"id"`
	Type   int   `json:"type"`
	Name   int   `json:"name"`
	Desc   int   `json:"desc"`
	Val    int   `json:"val"`
	Single []int `json:"single"`
	Arr    []int `json:"arr"`
}

type geArt struct {
	Name    int    `json:"name"`
	Content string `json:"content"`
}

type geProj struct {
	Nodes    []geNode `json:"nodes"`
	Prod     [][]int  `json:"prod"`
	Meta     [][]int  `json:"meta"`
	Meta2    [][]int  `json:"meta2"` // the leaves the APPLICATION shows (instance schema: notes, node metadata), not the saved document
	MetaJSON string   `json:"metajson"`
	Arts     []geArt  `json:"arts"`
	Unknown  int      `json:"unknown"` // nodes / ports the projection could not name
}

type geLine struct {
	K      string `json:"k"`
	St     GEStep `json:"st"`
	Ok     bool   `json:"ok"`     // the edit call returned without panic
	LoadOk bool   `json:"loadok"` // ApplySchema into a fresh App succeeded
	Orig   geProj `json:"orig"`
	Reload geProj `json:"reload"`
	H1     []int  `json:"h1"`
	H2     []int  `json:"h2"`
	HF     []int  `json:"hf"` // digest of the FILE the application's saver wrote (one file per history, saved over and over)
	H      int    `json:"h"`
	I      int    `json:"i"`
	Note   string `json:"note"`
	Bytes  int    `json:"bytes"`
	Skip   bool   `json:"skip"` // no save/reload/evaluation after this step (sparse observation)
}

var metaPaths = map[int]string{1: "notes.n1.text", 2: "nodes.Node-0.position", 3: "top"}

func hash3(b []byte) []int {
	s := sha256.Sum256(b)
	return []int{int(s[0])<<8 | int(s[1]), int(s[2])<<8 | int(s[3]), int(s[4])<<8 | int(s[5])}
}

func emptyProj() geProj {
	return geProj{Nodes: []geNode{}, Prod: [][]int{}, Meta: [][]int{}, Meta2: [][]int{}, Arts: []geArt{}}
}

func projectApp(app *generator.App) (p geProj) {
	p = emptyProj()
	inst := app.VerifGraph()
	sch := inst.Schema()
	ids := make([]string, 0, len(sch.Nodes))
	for id := range sch.Nodes {
		ids = append(ids, id)
	}
	sort.Slice(ids, func(i, j int) bool { return nodeNum(ids[i]) < nodeNum(ids[j]) })
	for _, id := range ids {
		ni := sch.Nodes[id]
		t, ok := geTypeIds[ni.Type]
		if !ok {
			p.Unknown++
			continue
		}
		n := geNode{Id: nodeNum(id), Type: t, Single: []int{-1, -1, -1, -1}, Arr: []int{}}
		node := inst.Node(id)
		if t <= 8 {
			if prm, ok := node.(graph.Parameter); ok {
				n.Name = strInv("nm", prm.DisplayName())
			}
			if d, ok := node.(nodes.Describable); ok {
				n.Desc = strInv("ds", d.Description())
			} else {
				n.Desc = descOf(node)
			}
			n.Val = valueInv(node)
		}
		type ae struct{ idx, s int }
		arr := []ae{}
		for _, d := range ni.Dependencies {
			s := nodeNum(d.DependencyID)
			if dot := strings.Index(d.Name, "."); dot >= 0 {
				if d.Name[:dot] != geArr[t] {
					p.Unknown++
					continue
				}
				k, _ := strconv.Atoi(d.Name[dot+1:])
				arr = append(arr, ae{k, s})
				continue
			}
			found := false
			for pi, pn := range gePorts[t] {
				if pn == d.Name {
					n.Single[pi] = s
					found = true
				}
			}
			if !found {
				p.Unknown++
			}
		}
		sort.Slice(arr, func(i, j int) bool { return arr[i].idx < arr[j].idx })
		for _, e := range arr {
			n.Arr = append(n.Arr, e.s)
		}
		p.Nodes = append(p.Nodes, n)
	}
	for name, pr := range sch.Producers {
		p.Prod = append(p.Prod, []int{strInv("file", strings.TrimSuffix(name, ".txt")), nodeNum(pr.NodeID)})
	}
	sort.Slice(p.Prod, func(i, j int) bool { return p.Prod[i][0] < p.Prod[j][0] })
	// artifacts of the (deterministic) text producers
	for _, pr := range p.Prod {
		name := "file" + strconv.Itoa(pr[0]) + ".txt"
		content := func() (c string) {
			defer func() {
				if r := recover(); r != nil {
					c = "PANIC"
				}
			}()
			return artString(inst.Artifact(name))
		}()
		p.Arts = append(p.Arts, geArt{Name: pr[0], Content: content})
	}
	// metadata: the saved document's metadata section, canonical JSON + known leaves
	var doc struct {
		Data struct {
			Metadata map[string]any `json:"metadata"`
		} `json:"data"`
		Metadata map[string]any `json:"metadata"`
	}
	_ = json.Unmarshal(app.Schema(), &doc)
	md := doc.Metadata
	if md == nil {
		md = doc.Data.Metadata
	}
	mj, _ := json.Marshal(md)
	p.MetaJSON = string(mj)
	// the same leaves as the application itself shows them (read through NestedSyncMap.Get, not through the
	// snapshot the saver takes): notes.n1.text and the metadata of node Node-0
	if n1, ok := sch.Notes["n1"].(map[string]any); ok {
		if f, isNum := n1["text"].(float64); isNum {
			p.Meta2 = append(p.Meta2, []int{1, int(f)})
		} else if f, isInt := n1["text"].(int); isInt {
			p.Meta2 = append(p.Meta2, []int{1, f})
		}
	}
	if n0, ok := sch.Nodes["Node-0"]; ok {
		if f, isNum := n0.Metadata["position"].(float64); isNum {
			p.Meta2 = append(p.Meta2, []int{2, int(f)})
		} else if f, isInt := n0.Metadata["position"].(int); isInt {
			p.Meta2 = append(p.Meta2, []int{2, f})
		}
	}
	for pid := 1; pid <= 3; pid++ {
		cur := any(md)
		okPath := true
		for _, part := range strings.Split(metaPaths[pid], ".") {
			m, isMap := cur.(map[string]any)
			if !isMap {
				okPath = false
				break
			}
			nxt, has := m[part]
			if !has {
				okPath = false
				break
			}
			cur = nxt
		}
		if okPath {
			if f, isNum := cur.(float64); isNum {
				p.Meta = append(p.Meta, []int{pid, int(f)})
			}
		}
	}
	return p
}

func descOf(n nodes.Node) int {
	switch p := n.(type) {
	case *parameter.String:
		return strInv("ds", p.Description)
	case *parameter.Float64:
		return strInv("ds", p.Description)
	case *parameter.Int:
		return strInv("ds", p.Description)
	case *parameter.Bool:
		return strInv("ds", p.Description)
	case *parameter.Vector3:
		return strInv("ds", p.Description)
	case *parameter.Vector3Array:
		return strInv("ds", p.Description)
	case *parameter.Color:
		return strInv("ds", p.Description)
	case *parameter.AABB:
		return strInv("ds", p.Description)
	}
	return 0
}

type nameDesc interface {
	SetName(string)
	SetDescription(string)
}

func applyEdit(app *generator.App, st GEStep) (ok bool) {
	defer func() {
		if r := recover(); r != nil {
			ok = false
		}
	}()
	inst := app.VerifGraph()
	switch st.Op {
	case "create":
		if _, _, err := inst.CreateNode(geTypeKeys[st.A]); err != nil {
			return false
		}
	case "connect":
		t := geTypeIds[refutil.GetTypeWithPackage(inst.Node(nodeId(st.B)))]
		inst.ConnectNodes(nodeId(st.A), "Out", nodeId(st.B), gePorts[t][st.C-1])
	case "connectarr":
		t := geTypeIds[refutil.GetTypeWithPackage(inst.Node(nodeId(st.B)))]
		n := len(inst.Node(nodeId(st.B)).Dependencies())
		inst.ConnectNodes(nodeId(st.A), "Out", nodeId(st.B), geArr[t]+"."+strconv.Itoa(n))
	case "disconnect":
		t := geTypeIds[refutil.GetTypeWithPackage(inst.Node(nodeId(st.B)))]
		inst.DeleteNodeInputConnection(nodeId(st.B), gePorts[t][st.C-1])
	case "disconnectarr":
		t := geTypeIds[refutil.GetTypeWithPackage(inst.Node(nodeId(st.B)))]
		inst.DeleteNodeInputConnection(nodeId(st.B), geArr[t]+"."+strconv.Itoa(st.C-1))
	case "setval":
		t := geTypeIds[refutil.GetTypeWithPackage(inst.Node(nodeId(st.A)))]
		if _, err := inst.UpdateParameter(nodeId(st.A), valueJSON(t, st.B)); err != nil {
			return false
		}
	case "setname":
		inst.Node(nodeId(st.A)).(nameDesc).SetName(strName("nm", st.B))
	case "setdesc":
		inst.Node(nodeId(st.A)).(nameDesc).SetDescription(strName("ds", st.B))
	case "setproducer":
		inst.SetNodeAsProducer(nodeId(st.A), "file"+strconv.Itoa(st.B)+".txt")
	case "setmeta":
		inst.SetMetadata(metaPaths[st.A], st.B)
	case "delmeta":
		inst.DeleteMetadata(metaPaths[st.A])
	case "delete":
		inst.DeleteNode(nodeId(st.A))
	case "swap":
	default:
		panic("unknown graph edit op " + st.Op)
	}
	return true
}

func reloadApp(data []byte) (app *generator.App, ok bool) {
	defer func() {
		if r := recover(); r != nil {
			ok = false
		}
	}()
	app = &generator.App{}
	app.VerifGraph()
	if err := app.ApplySchema(data); err != nil {
		return app, false
	}
	return app, true
}

func runGE(enc *json.Encoder, h int, hist GEHistory, stride int) {
	// the header of the application (name, version, description, authors, web scene) is part of the saved file:
	// every combination of present / absent fields, chosen by the history's number
	app := &generator.App{}
	if h%2 == 0 {
		app.Name = "verif"
	}
	if (h/2)%2 == 0 {
		app.Version = "1"
	}
	if (h/4)%2 == 0 {
		app.Description = "graph edit replay"
	}
	if (h/8)%2 == 1 {
		app.Authors = []schema.Author{{Name: "a", ContactInfo: []schema.AuthorContact{{Medium: "mail", Value: "a@b"}}}, {Name: "b"}}
	}
	if (h/16)%2 == 1 {
		app.WebScene = &schema.WebScene{AntiAlias: true, XrEnabled: h%3 == 0}
	}
	app.VerifGraph()
	// "saving the graph" as the edit server does it: the application's GraphSaver writes ONE file again and
	// again while the history goes on (documents grow and shrink); what is in the file is what a user loads
	savePath := filepath.Join(os.TempDir(), fmt.Sprintf("vh-graphedit-%d-%d.json", os.Getpid(), h))
	defer os.Remove(savePath)
	_ = enc.Encode(geLine{K: "reset", H: h, Orig: emptyProj(), Reload: emptyProj(), H1: []int{}, H2: []int{}, HF: []int{}})
	for i, st := range hist.Steps {
		ln := geLine{K: "step", St: st, H: h, I: i, H1: []int{}, H2: []int{}, HF: []int{}, Orig: emptyProj(), Reload: emptyProj()}
		ln.Ok = applyEdit(app, st)
		// with stride > 1 the application is neither saved nor evaluated after most steps, so that
		// several edits happen between two evaluations of the edited instance
		if stride > 1 && (i+1)%stride != 0 && i != len(hist.Steps)-1 && st.Op != "swap" {
			ln.Skip = true
			_ = enc.Encode(ln)
			continue
		}
		func() {
			defer func() {
				if r := recover(); r != nil {
					ln.Note = fmt.Sprintf("panic: %v", r)
				}
			}()
			save1 := app.Schema()
			ln.Bytes = len(save1)
			ln.H1 = hash3(save1)
			ln.HF = []int{-1}
			func() {
				defer func() { recover() }()
				app.VerifSaver(savePath).Save()
				if fb, err := os.ReadFile(savePath); err == nil {
					ln.HF = hash3(fb)
				}
			}()
			ln.Orig = projectApp(app)
			app2, ok := reloadApp(save1)
			ln.LoadOk = ok
			if ok {
				ln.Reload = projectApp(app2)
				ln.H2 = hash3(app2.Schema())
				if st.Op == "swap" {
					app = app2
				}
			}
		}()
		_ = enc.Encode(ln)
	}
}

// RunGraphEdit executes edit histories and writes the trace.
func RunGraphEdit(in, out string, stride int) error {
	log.SetOutput(io.Discard) // GraphSaver.Save logs every write
	fi, err := os.Open(in)
	if err != nil {
		return err
	}
	defer fi.Close()
	fo, err := os.Create(out)
	if err != nil {
		return err
	}
	defer fo.Close()
	w := bufio.NewWriterSize(fo, 1<<20)
	defer w.Flush()
	enc := json.NewEncoder(w)
	sc := bufio.NewScanner(fi)
	sc.Buffer(make([]byte, 1<<20), 1<<26)
	h := 0
	for sc.Scan() {
		if len(sc.Bytes()) == 0 {
			continue
		}
		var hist GEHistory
		if err := json.Unmarshal(sc.Bytes(), &hist); err != nil {
			return fmt.Errorf("history %d: %w", h, err)
		}
		runGE(enc, h, hist, stride)
		h++
	}
	return sc.Err()
}

type geFileLine struct {
	K      string `json:"k"`
	File   string `json:"file"`
	LoadOk bool   `json:"loadok"`
	Nodes  int    `json:"nodes"`
	H1     []int  `json:"h1"`
	H2     []int  `json:"h2"`
	S1     string `json:"s1"` // canonical schema of the loaded graph
	S2     string `json:"s2"` // canonical schema after save+reload
}

// RunGraphFiles: load -> save -> load -> save for shipped graph files.
func RunGraphFiles(files []string, out string) error {
	fo, err := os.Create(out)
	if err != nil {
		return err
	}
	defer fo.Close()
	enc := json.NewEncoder(fo)
	canon := func(app *generator.App) string {
		sch := app.VerifGraph().Schema()
		sch.Types = nil
		for id, n := range sch.Nodes {
			sort.Slice(n.Dependencies, func(i, j int) bool { return n.Dependencies[i].Name < n.Dependencies[j].Name })
			n.Version = 0
			sch.Nodes[id] = n
		}
		b, _ := json.Marshal(sch)
		return string(b)
	}
	for _, f := range files {
		ln := geFileLine{K: "file", File: f, H1: []int{}, H2: []int{}}
		func() {
			defer func() {
				if r := recover(); r != nil {
					ln.LoadOk = false
					ln.S1 = fmt.Sprintf("panic: %v", r)
				}
			}()
			data, err := os.ReadFile(f)
			if err != nil {
				ln.S1 = err.Error()
				return
			}
			app1, ok := reloadApp(data)
			if !ok {
				return
			}
			save1 := app1.Schema()
			app2, ok := reloadApp(save1)
			if !ok {
				return
			}
			save2 := app2.Schema()
			ln.LoadOk = true
			ln.Nodes = len(app1.VerifGraph().Schema().Nodes)
			ln.H1, ln.H2 = hash3(save1), hash3(save2)
			ln.S1, ln.S2 = canon(app1), canon(app2)
			if !bytes.Equal(save1, save2) && ln.H1[0] == ln.H2[0] && ln.H1[1] == ln.H2[1] && ln.H1[2] == ln.H2[2] {
				ln.H2[0] ^= 1 // 48-bit hash collision: keep the difference visible
			}
		}()
		if err := enc.Encode(ln); err != nil {
			return err
		}
	}
	return nil
}

// RunFileEdits loads a shipped graph file and, for every scalar parameter node in it, sets the
// value to the type's zero value and to a non-zero one, saving, reloading and re-saving after each
// update (parameters of shipped graphs have their own defaults, unlike nodes made by CreateNode).
func RunFileEdits(files []string, out string, maxParams int) error {
	fo, err := os.Create(out)
	if err != nil {
		return err
	}
	defer fo.Close()
	enc := json.NewEncoder(fo)
	canon := func(app *generator.App) string {
		sch := app.VerifGraph().Schema()
		sch.Types = nil
		for id, n := range sch.Nodes {
			sort.Slice(n.Dependencies, func(i, j int) bool { return n.Dependencies[i].Name < n.Dependencies[j].Name })
			n.Version = 0
			sch.Nodes[id] = n
		}
		b, _ := json.Marshal(sch)
		return string(b)
	}
	for _, f := range files {
		data, err := os.ReadFile(f)
		if err != nil {
			return err
		}
		app, ok := reloadApp(data)
		if !ok {
			_ = enc.Encode(geFileLine{K: "file", File: f + " (edits)", H1: []int{}, H2: []int{}})
			continue
		}
		inst := app.VerifGraph()
		ids := []string{}
		for id := range inst.Schema().Nodes {
			ids = append(ids, id)
		}
		sort.Slice(ids, func(i, j int) bool { return nodeNum(ids[i]) < nodeNum(ids[j]) })
		done := 0
		for _, id := range ids {
			var msgs [][]byte
			switch inst.Node(id).(type) {
			case *parameter.Float64:
				msgs = [][]byte{[]byte("0"), []byte("2.5")}
			case *parameter.Int:
				msgs = [][]byte{[]byte("0"), []byte("3")}
			case *parameter.String:
				msgs = [][]byte{[]byte(`""`), []byte(`"x"`)}
			case *parameter.Bool:
				msgs = [][]byte{[]byte("false"), []byte("true")}
			default:
				continue
			}
			if done >= maxParams {
				break
			}
			done++
			for _, msg := range msgs {
				ln := geFileLine{K: "file", File: fmt.Sprintf("%s (edit %s := %s)", f, id, msg), H1: []int{}, H2: []int{}}
				func() {
					defer func() {
						if r := recover(); r != nil {
							ln.LoadOk = false
							ln.S1 = fmt.Sprintf("panic: %v", r)
						}
					}()
					if _, err := inst.UpdateParameter(id, msg); err != nil {
						ln.S1 = err.Error()
						return
					}
					save1 := app.Schema()
					app2, ok := reloadApp(save1)
					if !ok {
						return
					}
					save2 := app2.Schema()
					ln.LoadOk = true
					ln.Nodes = len(ids)
					ln.H1, ln.H2 = hash3(save1), hash3(save2)
					ln.S1, ln.S2 = canon(app), canon(app2)
					if !bytes.Equal(save1, save2) && ln.H1[0] == ln.H2[0] && ln.H1[1] == ln.H2[1] && ln.H1[2] == ln.H2[2] {
						ln.H2[0] ^= 1
					}
				}()
				if err := enc.Encode(ln); err != nil {
					return err
				}
			}
		}
	}
	return nil
}

// RunAllTypes creates one node of every registered type (chunks of `chunk` nodes per
// application), connects nothing, and puts each application through
// save -> load -> save. Written as "file" lines (same judgement as shipped graph files).
func RunAllTypes(out string, chunk int) error {
	fo, err := os.Create(out)
	if err != nil {
		return err
	}
	defer fo.Close()
	enc := json.NewEncoder(fo)
	probe := &generator.App{}
	sch := probe.VerifGraph().Schema()
	typeNames := []string{}
	for _, t := range sch.Types {
		typeNames = append(typeNames, t.Type)
	}
	sort.Strings(typeNames)
	canon := func(app *generator.App) string {
		sc := app.VerifGraph().Schema()
		sc.Types = nil
		for id, n := range sc.Nodes {
			n.Version = 0
			sc.Nodes[id] = n
		}
		b, _ := json.Marshal(sc)
		return string(b)
	}
	for start := 0; start < len(typeNames); start += chunk {
		end := start + chunk
		if end > len(typeNames) {
			end = len(typeNames)
		}
		ln := geFileLine{K: "file", File: fmt.Sprintf("alltypes[%d:%d] %s ..", start, end, typeNames[start]), H1: []int{}, H2: []int{}}
		func() {
			defer func() {
				if r := recover(); r != nil {
					ln.LoadOk = false
					ln.S1 = fmt.Sprintf("panic: %v", r)
				}
			}()
			app := &generator.App{Name: "alltypes"}
			inst := app.VerifGraph()
			for _, t := range typeNames[start:end] {
				if _, _, err := inst.CreateNode(t); err != nil {
					ln.S1 = "create " + t + ": " + err.Error()
					return
				}
			}
			save1 := app.Schema()
			app2, ok := reloadApp(save1)
			if !ok {
				ln.S1 = "reload failed"
				return
			}
			save2 := app2.Schema()
			ln.LoadOk = true
			ln.Nodes = len(app2.VerifGraph().Schema().Nodes)
			ln.H1, ln.H2 = hash3(save1), hash3(save2)
			ln.S1, ln.S2 = canon(app), canon(app2)
			if !bytes.Equal(save1, save2) && ln.H1[0] == ln.H2[0] && ln.H1[1] == ln.H2[1] && ln.H1[2] == ln.H2[2] {
				ln.H2[0] ^= 1
			}
		}()
		if err := enc.Encode(ln); err != nil {
			return err
		}
	}
	return nil
}

// GenGraphEdit writes seeded random edit histories. The generator keeps a light
// shadow of ids and edges only to avoid what the editor's contract excludes and
// the real code cannot survive (cycles -> unbounded recursion; deleting a node
// something depends on); type compatibility is left to chance on purpose.
func GenGraphEdit(out string, seed int64, n, steps int) error {
	fo, err := os.Create(out)
	if err != nil {
		return err
	}
	defer fo.Close()
	enc := json.NewEncoder(fo)
	types := []int{1, 1, 2, 2, 3, 4, 5, 6, 7, 8, 10, 10, 11, 12, 13, 14, 14}
	for h := 0; h < n; h++ {
		r := rand.New(rand.NewSource(seed*15485863 + int64(h)))
		hist := GEHistory{Steps: []GEStep{}, Tag: "random"}
		ids := map[int]int{}       // id -> type
		single := map[[2]int]int{} // (node, port) -> src
		arr := map[int][]int{}     // node -> sources
		deps := func(nid int) []int {
			out := append([]int{}, arr[nid]...)
			for k, s := range single {
				if k[0] == nid {
					out = append(out, s)
				}
			}
			return out
		}
		var reaches func(from, to int, seen map[int]bool) bool
		reaches = func(from, to int, seen map[int]bool) bool {
			if from == to {
				return true
			}
			if seen[from] {
				return false
			}
			seen[from] = true
			for _, d := range deps(from) {
				if reaches(d, to, seen) {
					return true
				}
			}
			return false
		}
		pick := func() int {
			if len(ids) == 0 {
				return 0
			}
			keys := make([]int, 0, len(ids))
			for k := range ids {
				keys = append(keys, k)
			}
			sort.Ints(keys)
			return keys[r.Intn(len(keys))]
		}
		for i := 0; i < steps; i++ {
			switch r.Intn(16) {
			case 0, 1, 2:
				if len(ids) >= 14 {
					continue
				}
				k := len(ids)
				for {
					if _, used := ids[k]; !used {
						break
					}
					k++
				}
				t := types[r.Intn(len(types))]
				ids[k] = t
				hist.Steps = append(hist.Steps, GEStep{Op: "create", A: t})
			case 3, 4:
				a, b, c := pick(), pick(), 1+r.Intn(4)
				if a == b || reaches(a, b, map[int]bool{}) || len(gePorts[ids[b]]) < c {
					continue
				}
				hist.Steps = append(hist.Steps, GEStep{Op: "connect", A: a, B: b, C: c})
				if portKind(ids[b], c) == outKind(ids[a]) {
					single[[2]int{b, c}] = a
				}
			case 5, 6, 7, 8:
				a, b := pick(), pick()
				if a == b || reaches(a, b, map[int]bool{}) || len(arr[b]) >= 13 {
					continue
				}
				hist.Steps = append(hist.Steps, GEStep{Op: "connectarr", A: a, B: b})
				if geArr[ids[b]] != "" && arrKind(ids[b]) == outKind(ids[a]) {
					arr[b] = append(arr[b], a)
				}
			case 9:
				b := pick()
				if r.Intn(2) == 0 {
					c := 1 + r.Intn(4)
					if _, has := single[[2]int{b, c}]; !has {
						continue
					}
					delete(single, [2]int{b, c})
					hist.Steps = append(hist.Steps, GEStep{Op: "disconnect", B: b, C: c})
				} else {
					if len(arr[b]) == 0 {
						continue
					}
					c := 1 + r.Intn(len(arr[b]))
					arr[b] = append(append([]int{}, arr[b][:c-1]...), arr[b][c:]...)
					hist.Steps = append(hist.Steps, GEStep{Op: "disconnectarr", B: b, C: c})
				}
			case 10:
				a := pick()
				if ids[a] < 1 || ids[a] > 8 {
					continue
				}
				v := r.Intn(4)
				if ids[a] == 4 {
					v = r.Intn(2)
				}
				hist.Steps = append(hist.Steps, GEStep{Op: "setval", A: a, B: v})
			case 11:
				a := pick()
				if ids[a] < 1 || ids[a] > 8 {
					continue
				}
				hist.Steps = append(hist.Steps, GEStep{Op: []string{"setname", "setdesc"}[r.Intn(2)], A: a, B: r.Intn(3)})
			case 12:
				a := pick()
				if ids[a] != 14 {
					continue
				}
				hist.Steps = append(hist.Steps, GEStep{Op: "setproducer", A: a, B: 1 + r.Intn(2)})
			case 13:
				if r.Intn(3) == 0 {
					hist.Steps = append(hist.Steps, GEStep{Op: "delmeta", A: 1 + r.Intn(3)})
				} else {
					hist.Steps = append(hist.Steps, GEStep{Op: "setmeta", A: 1 + r.Intn(3), B: 1 + r.Intn(5)})
				}
			case 14:
				a := pick()
				if _, ok := ids[a]; !ok {
					continue
				}
				used := false
				for nid := range ids {
					for _, d := range deps(nid) {
						if d == a {
							used = true
						}
					}
				}
				if used {
					continue
				}
				delete(ids, a)
				delete(arr, a)
				for k := range single {
					if k[0] == a {
						delete(single, k)
					}
				}
				hist.Steps = append(hist.Steps, GEStep{Op: "delete", A: a})
			default:
				hist.Steps = append(hist.Steps, GEStep{Op: "swap"})
			}
		}
		if err := enc.Encode(hist); err != nil {
			return err
		}
	}
	return nil
}

func outKind(t int) string {
	switch t {
	case 1, 10, 11:
		return "s"
	case 2, 12, 13:
		return "f"
	case 3:
		return "i"
	case 4:
		return "b"
	case 14:
		return "art"
	}
	return "x"
}

func arrKind(t int) string {
	if t == 10 {
		return "s"
	}
	return "f"
}

func portKind(t, p int) string {
	switch {
	case t == 10 && p == 1, t == 11 && p == 4, t == 14 && p == 1:
		return "s"
	case t == 11 && p == 1, t == 13 && (p == 1 || p == 2):
		return "f"
	case t == 11 && p == 2:
		return "i"
	case t == 11 && p == 3:
		return "b"
	}
	return "none"
}
