package roomfam

import (
	"github.com/EliCDavis/polyform/generator/room"
)

type codecLine struct {
	K    string    `json:"k"`
	H    int       `json:"h"`
	Sub  string    `json:"sub"` // state | ori | id
	St   StateProj `json:"st"`
	P    []int     `json:"p"`
	ID   []int     `json:"id"`
	ERes string    `json:"eres"` // encoder / parser outcome: ok | err | PANIC
	Fr   []int     `json:"fr"`
	Dec  DecProj   `json:"dec"`
	Objs [][]int   `json:"objs"`
}

func encodeState(s room.RoomState) (fr []byte, res string) {
	res = "PANIC"
	defer func() { _ = recover() }()
	fr = frameOf(room.ServerRoomStateUpdate(s))
	res = "ok"
	return
}

func parseOri(p []byte) (objs [][]int, res string) {
	objs, res = [][]int{}, "PANIC"
	defer func() { _ = recover() }()
	m, err := room.MessageFromClient(append([]byte{byte(room.ClientSetOrientationMessageType)}, p...)).ClientSetOrientation()
	if err != nil {
		return [][]int{}, "err"
	}
	return RepProj(m.Objects), "ok"
}

// runCodec exercises binary_message.go directly: the state message
// (encoder, frame writer, frame parser, decoder), the orientation parser and
// the id message.
func runCodec(h int, c Case) []any {
	ln := codecLine{K: "codec", H: h, St: emptyState(), P: []int{}, ID: []int{}, ERes: "ok", Fr: []int{}, Dec: emptyDec(), Objs: [][]int{}}
	switch {
	case c.St != nil:
		ln.Sub = "state"
		s := StateFrom(*c.St)
		ln.St = StateProjOf(s) // projection of the Go value that is encoded
		fr, res := encodeState(s)
		ln.ERes = res
		if res == "ok" {
			ln.Fr = ints(fr)
			ln.Dec = decodeFrame(fr)
		}
	case c.ID != nil:
		ln.Sub = "id"
		ln.ID = c.ID
		fr := frameOf(room.SeverSetClientIDMessage(string(bytesOf(c.ID))))
		ln.Fr = ints(fr)
		ln.Dec = decodeFrame(fr)
	default:
		ln.Sub = "ori"
		if c.Ori == nil {
			c.Ori = []int{}
		}
		ln.P = c.Ori
		ln.Objs, ln.ERes = parseOri(bytesOf(c.Ori))
	}
	return []any{ln}
}
