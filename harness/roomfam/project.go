// Package roomfam drives the real multiplayer room hub (generator/room) with
// event sequences and projects what it observes to integers (X02).
//
// The harness executes and projects only: hub state, queue lengths, received
// frames and decoder outputs are logged as byte values; every judgement is
// made by TLC on specs/TraceRoom.tla.
package roomfam

import (
	"math"
	"sort"

	"github.com/EliCDavis/polyform/drawing/coloring"
	"github.com/EliCDavis/polyform/generator/room"
	"github.com/EliCDavis/polyform/generator/schema"
	"github.com/EliCDavis/vector/vector3"
)

// ObjSize is the size of one orientation object on the wire: type byte, three
// float32 of position, four float32 of rotation.
const ObjSize = 29

// SceneSize is the size of a schema.WebScene on the wire: three flags, fog
// (RGBA, near, far), three RGBA colours.
const SceneSize = 27

func ints(b []byte) []int {
	out := make([]int, len(b))
	for i, v := range b {
		out[i] = int(v)
	}
	return out
}

func bytesOf(v []int) []byte {
	out := make([]byte, len(v))
	for i, x := range v {
		out[i] = byte(x)
	}
	return out
}

func le32(v uint32) []int {
	return []int{int(v & 255), int((v >> 8) & 255), int((v >> 16) & 255), int(v >> 24)}
}

func f32(f float32) []int { return le32(math.Float32bits(f)) }

func b01(b bool) int {
	if b {
		return 1
	}
	return 0
}

func col(c coloring.WebColor) []int { return []int{int(c.R), int(c.G), int(c.B), int(c.A)} }

// SceneProj lists the fields of a WebScene in declaration order, floats as the
// little-endian bytes of their IEEE bit pattern.
func SceneProj(ws *schema.WebScene) []int {
	if ws == nil {
		return []int{}
	}
	out := []int{b01(ws.RenderWireframe), b01(ws.AntiAlias), b01(ws.XrEnabled)}
	out = append(out, col(ws.Fog.Color)...)
	out = append(out, f32(ws.Fog.Near)...)
	out = append(out, f32(ws.Fog.Far)...)
	out = append(out, col(ws.Background)...)
	out = append(out, col(ws.Lighting)...)
	out = append(out, col(ws.Ground)...)
	return out
}

func ff(b []int) float32 {
	return math.Float32frombits(uint32(b[0]) | uint32(b[1])<<8 | uint32(b[2])<<16 | uint32(b[3])<<24)
}

func colOf(b []int) coloring.WebColor {
	return coloring.WebColor{R: byte(b[0]), G: byte(b[1]), B: byte(b[2]), A: byte(b[3])}
}

// SceneFrom builds the Go value whose projection is b (len SceneSize).
func SceneFrom(b []int) *schema.WebScene {
	return &schema.WebScene{
		RenderWireframe: b[0] != 0, AntiAlias: b[1] != 0, XrEnabled: b[2] != 0,
		Fog:        schema.WebSceneFog{Color: colOf(b[3:7]), Near: ff(b[7:11]), Far: ff(b[11:15])},
		Background: colOf(b[15:19]), Lighting: colOf(b[19:23]), Ground: colOf(b[23:27]),
	}
}

// ObjProj lists the fields of one PlayerRepresentation (ObjSize values).
func ObjProj(o room.PlayerRepresentation) []int {
	out := []int{int(o.Type)}
	for _, f := range []float32{o.Position.X, o.Position.Y, o.Position.Z, o.Rotation.X, o.Rotation.Y, o.Rotation.Z, o.Rotation.W} {
		out = append(out, f32(f)...)
	}
	return out
}

func ObjFrom(b []int) room.PlayerRepresentation {
	return room.PlayerRepresentation{
		Type:     byte(b[0]),
		Position: vector3.Serializable[float32]{X: ff(b[1:5]), Y: ff(b[5:9]), Z: ff(b[9:13])},
		Rotation: room.Vec4[float32]{X: ff(b[13:17]), Y: ff(b[17:21]), Z: ff(b[21:25]), W: ff(b[25:29])},
	}
}

// PlayerProj is one entry of RoomState.Players.
type PlayerProj struct {
	ID   []int   `json:"id"`
	Name []int   `json:"name"`
	Rep  [][]int `json:"rep"`
}

func RepProj(objs []room.PlayerRepresentation) [][]int {
	out := make([][]int, 0, len(objs))
	for _, o := range objs {
		out = append(out, ObjProj(o))
	}
	return out
}

func lessInts(a, b []int) bool {
	for i := 0; i < len(a) && i < len(b); i++ {
		if a[i] != b[i] {
			return a[i] < b[i]
		}
	}
	return len(a) < len(b)
}

// PlayersProj lists the players sorted by id (the order carries no meaning).
func PlayersProj(pl map[string]*room.Player) []PlayerProj {
	out := make([]PlayerProj, 0, len(pl))
	for id, p := range pl {
		pp := PlayerProj{ID: ints([]byte(id)), Name: []int{}, Rep: [][]int{}}
		if p != nil {
			pp.Name = ints([]byte(p.Name))
			pp.Rep = RepProj(p.Representation)
		}
		out = append(out, pp)
	}
	sort.Slice(out, func(i, j int) bool { return lessInts(out[i].ID, out[j].ID) })
	return out
}

// StateProj is a whole RoomState.
type StateProj struct {
	Ver   []int        `json:"ver"`
	Scene []int        `json:"scene"`
	Pl    []PlayerProj `json:"pl"`
}

func StateProjOf(s room.RoomState) StateProj {
	return StateProj{Ver: le32(s.ModelVersion), Scene: SceneProj(s.WebScene), Pl: PlayersProj(s.Players)}
}

// StateFrom builds the Go RoomState whose projection is p.
func StateFrom(p StateProj) room.RoomState {
	s := room.RoomState{
		ModelVersion: uint32(p.Ver[0]) | uint32(p.Ver[1])<<8 | uint32(p.Ver[2])<<16 | uint32(p.Ver[3])<<24,
		WebScene:     SceneFrom(p.Scene),
		Players:      map[string]*room.Player{},
	}
	for _, pp := range p.Pl {
		pl := &room.Player{Name: string(bytesOf(pp.Name))}
		for _, o := range pp.Rep {
			pl.Representation = append(pl.Representation, ObjFrom(o))
		}
		s.Players[string(bytesOf(pp.ID))] = pl
	}
	return s
}
