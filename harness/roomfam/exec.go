package roomfam

import (
	"bufio"
	"bytes"
	"encoding/json"
	"fmt"
	"os"
	"sort"
	"strings"
	"sync/atomic"
	"time"

	"github.com/EliCDavis/polyform/generator/graph"
	"github.com/EliCDavis/polyform/generator/room"
	"github.com/EliCDavis/polyform/refutil"
)

// Event is one step of a case.
//
//	register/unregister c        the connection's ServeWs / readPump exit
//	update c                     one frame read by readPump: type byte UT + payload Data
//	                             (TLC-generated cases give a payload selector A instead)
//	broadcast                    payload Data (or selector A)
//	tick                         the 200 ms scene update
//	bump                         the graph's model version changes (environment)
//	recv c                       writePump takes one message off the client's channel
type Event struct {
	Op   string `json:"op"`
	C    int    `json:"c"`
	A    int    `json:"a"`
	UT   int    `json:"ut"`
	Data []int  `json:"data"`
}

// Case: kind "hub" (event sequence against a fresh hub) or "codec".
type Case struct {
	Kind string     `json:"kind"`
	N    int        `json:"n"`
	Cap  int        `json:"cap"`
	Ev   []Event    `json:"ev"`
	Tag  string     `json:"tag"`
	St   *StateProj `json:"st"`  // codec: state to encode
	Ori  []int      `json:"ori"` // codec: orientation payload
	ID   []int      `json:"id"`  // codec: client id
}

type clProj struct {
	C  int   `json:"c"`
	ID []int `json:"id"`
}

type evLine struct {
	K     string       `json:"k"`
	H     int          `json:"h"`
	I     int          `json:"i"`
	Op    string       `json:"op"`
	C     int          `json:"c"`
	UT    int          `json:"ut"`
	P     []int        `json:"p"`
	Res   string       `json:"res"`
	PC    string       `json:"pc"`
	CAdd  []clProj     `json:"cadd"`
	CDel  []int        `json:"cdel"`
	PAdd  []PlayerProj `json:"padd"`
	PDel  [][]int      `json:"pdel"`
	QL    []int        `json:"ql"`
	Scene []int        `json:"scene"`
	SVer  []int        `json:"sver"`
	GVer  []int        `json:"gver"`
}

type resetLine struct {
	K     string `json:"k"`
	H     int    `json:"h"`
	N     int    `json:"n"`
	Cap   int    `json:"cap"`
	Tag   string `json:"tag"`
	Scene []int  `json:"scene"`
	SVer  []int  `json:"sver"`
	GVer  []int  `json:"gver"`
}

type bumpLine struct {
	K    string `json:"k"`
	H    int    `json:"h"`
	GVer []int  `json:"gver"`
}

type endLine struct {
	K    string `json:"k"`
	H    int    `json:"h"`
	Dead bool   `json:"dead"`
	Hang bool   `json:"hang"`
}

// DecProj is what the real decoders make of a frame.
type DecProj struct {
	Res  string    `json:"res"` // ok | PANIC | none
	T    int       `json:"t"`
	Sid  []int     `json:"sid"`
	Data []int     `json:"data"`
	St   StateProj `json:"st"`
}

func emptyState() StateProj { return StateProj{Ver: []int{}, Scene: []int{}, Pl: []PlayerProj{}} }
func emptyDec() DecProj {
	return DecProj{Res: "none", Sid: []int{}, Data: []int{}, St: emptyState()}
}

type recvLine struct {
	K   string  `json:"k"`
	H   int     `json:"h"`
	C   int     `json:"c"`
	Fin bool    `json:"fin"`
	Res string  `json:"res"` // msg | empty | closed
	Fr  []int   `json:"fr"`
	Dec DecProj `json:"dec"`
}

const (
	tickGuard  = 150 * time.Millisecond // Hub.Run's own ticker first fires 200 ms after start
	hangAfter  = 2 * time.Second
	barrierTyp = room.MessageType(127) // a client message type the hub's switch does not know
)

type runner struct {
	h       int
	c       Case
	hub     *room.Hub
	inst    *graph.Instance
	abort   chan struct{}
	stop    chan struct{}
	dead    atomic.Bool
	hang    atomic.Bool
	pval    any
	clients map[int]*room.Client
	num     map[*room.Client]int
	prevCl  map[int]string
	prevPl  map[string]string // id -> playerKey
	t0      time.Time
	tLast   time.Time
	lines   []any
}

func panicClass(v any) string {
	s := fmt.Sprint(v)
	for _, k := range []string{"send on closed channel", "close of closed channel", "nil pointer dereference",
		"unable to set orientation data", "concurrent map", "index out of range", "nil map"} {
		if strings.Contains(s, k) {
			return k
		}
	}
	if len(s) > 60 {
		s = s[:60]
	}
	return s
}

// payload of a TLC-generated update / broadcast: selector a, client c, event index i.
func tablePayload(a, c, i int) (ut int, p []byte) {
	name := func(n int) []byte {
		b := []byte(fmt.Sprintf("p%d.%d/", c, i))
		for len(b) < n {
			b = append(b, byte('a'+(len(b)*7+c)%26))
		}
		return b[:n]
	}
	objs := func(n int) []byte {
		out := make([]byte, 0, n*ObjSize)
		for k := 0; k < n; k++ {
			o := []int{(k + c) % 7}
			for f := 0; f < 7; f++ {
				o = append(o, f32(float32((k*7+f+i)%23)-float32(c)/2)...)
			}
			out = append(out, bytesOf(o)...)
		}
		return out
	}
	switch a {
	case 1:
		return 1, name(6 + c)
	case 2:
		return 1, name(255)
	case 3:
		return 1, name(256)
	case 4:
		return 0, objs(1 + c%2)
	case 5:
		return 0, objs(255)
	case 6:
		return 0, objs(256)
	case 7:
		return 0, append(objs(1), 9)
	case 8:
		sc := SceneProj(room.DefaultWebScene())
		sc[0] = (c + i) % 2
		sc[2] = 1
		sc[3] = 10 + c
		sc[9] = 0x20 + i%16
		return 2, bytesOf(sc)
	case 9:
		return 3, []byte{1, 2, byte(c)}
	case 10:
		return 1, []byte{}
	case 11:
		return 0, []byte{}
	}
	return 3, []byte{}
}

func newRunner(h int, c Case) *runner {
	r := &runner{h: h, c: c, clients: map[int]*room.Client{}, num: map[*room.Client]int{},
		prevCl: map[int]string{}, prevPl: map[string]string{}}
	r.inst = graph.New(&refutil.TypeFactory{})
	r.hub = room.NewHub(room.DefaultWebScene(), r.inst)
	return r
}

func (r *runner) start() {
	st := r.hub.VerifState()
	r.lines = append(r.lines, resetLine{K: "reset", H: r.h, N: r.c.N, Cap: r.c.Cap, Tag: r.c.Tag,
		Scene: SceneProj(st.WebScene), SVer: le32(st.ModelVersion), GVer: le32(r.inst.ModelVersion())})
	r.abort = make(chan struct{})
	r.stop = make(chan struct{})
	r.t0 = time.Now()
	r.tLast = r.t0
	died := r.hub.VerifStart()
	go func() {
		t := time.NewTimer(hangAfter)
		defer t.Stop()
		select {
		case v := <-died:
			r.pval = v
			r.dead.Store(true)
		case <-t.C:
			r.hang.Store(true)
		case <-r.stop:
			return
		}
		close(r.abort)
	}()
}

// barrier: once this second push has been received, the loop has finished the
// previous event (unbuffered channels, one goroutine).
func (r *runner) barrier() bool {
	return r.hub.VerifPush(room.VerifEvent{Kind: room.VerifClientUpdate, Client: nil,
		Update: room.Message{Type: barrierTyp, Data: []byte{}}}, r.abort)
}

func (r *runner) observe(ln *evLine) {
	cl := r.hub.VerifClients()
	st := r.hub.VerifState()
	cur := map[int]string{}
	for c, id := range cl {
		cur[r.num[c]] = id
	}
	ln.CAdd, ln.CDel, ln.PAdd, ln.PDel = []clProj{}, []int{}, []PlayerProj{}, [][]int{}
	for n, id := range cur {
		if old, ok := r.prevCl[n]; !ok || old != id {
			ln.CAdd = append(ln.CAdd, clProj{C: n, ID: ints([]byte(id))})
		}
	}
	for n := range r.prevCl {
		if _, ok := cur[n]; !ok {
			ln.CDel = append(ln.CDel, n)
		}
	}
	sort.Slice(ln.CAdd, func(i, j int) bool { return ln.CAdd[i].C < ln.CAdd[j].C })
	sort.Ints(ln.CDel)
	r.prevCl = cur
	curPl := map[string]string{}
	for id, p := range st.Players {
		key := playerKey(p)
		curPl[id] = key
		if old, ok := r.prevPl[id]; !ok || old != key {
			ln.PAdd = append(ln.PAdd, PlayersProj(map[string]*room.Player{id: p})[0])
		}
	}
	sort.Slice(ln.PAdd, func(i, j int) bool { return lessInts(ln.PAdd[i].ID, ln.PAdd[j].ID) })
	for id := range r.prevPl {
		if _, ok := curPl[id]; !ok {
			ln.PDel = append(ln.PDel, ints([]byte(id)))
		}
	}
	sort.Slice(ln.PDel, func(i, j int) bool { return lessInts(ln.PDel[i], ln.PDel[j]) })
	r.prevPl = curPl
	ln.QL = r.qlens()
	ln.Scene = SceneProj(st.WebScene)
	ln.SVer = le32(st.ModelVersion)
}

// playerKey: an injective rendering of one player, only used to find out which entries changed between two observations.
func playerKey(p *room.Player) string {
	if p == nil {
		return "nil"
	}
	var b strings.Builder
	fmt.Fprintf(&b, "%d:%s:%d:", len(p.Name), p.Name, len(p.Representation))
	for _, o := range p.Representation {
		for _, v := range ObjProj(o) {
			b.WriteByte(byte(v))
		}
	}
	return b.String()
}

func (r *runner) qlens() []int {
	out := make([]int, r.c.N)
	for n, c := range r.clients {
		out[n-1] = len(c.VerifSend())
	}
	return out
}

func (r *runner) hubEvent(i int, e Event) {
	ln := &evLine{K: "ev", H: r.h, I: i, Op: e.Op, C: e.C, P: []int{}, Res: "ok"}
	var ev room.VerifEvent
	switch e.Op {
	case "register":
		cl := room.VerifNewClient(r.hub, r.c.Cap)
		r.clients[e.C] = cl
		r.num[cl] = e.C
		ev = room.VerifEvent{Kind: room.VerifRegister, Client: cl}
	case "unregister":
		ev = room.VerifEvent{Kind: room.VerifUnregister, Client: r.clients[e.C]}
	case "update":
		ut, p := e.UT, bytesOf(e.Data)
		if e.A != 0 {
			ut, p = tablePayload(e.A, e.C, i)
		}
		ln.UT, ln.P = ut, ints(p)
		// the frame as readPump hands it over
		frame := append([]byte{byte(ut)}, p...)
		ev = room.VerifEvent{Kind: room.VerifClientUpdate, Client: r.clients[e.C], Update: room.MessageFromClient(frame)}
	case "broadcast":
		p := bytesOf(e.Data)
		if e.A != 0 {
			p = []byte(fmt.Sprintf("b%d.%d", e.A, i))
		}
		ln.P = ints(p)
		ev = room.VerifEvent{Kind: room.VerifBroadcast, Data: p}
	case "tick":
		ev = room.VerifEvent{Kind: room.VerifSceneUpdate, Time: time.Now()}
	}
	ok := r.hub.VerifPush(ev, r.abort) && r.barrier()
	if !ok {
		if r.dead.Load() {
			ln.Res, ln.PC = "PANIC", panicClass(r.pval)
		} else {
			ln.Res = "HANG"
		}
		// the loop is gone / stuck: its memory is not read any more
		ln.CAdd, ln.CDel, ln.PAdd, ln.PDel = []clProj{}, []int{}, []PlayerProj{}, [][]int{}
		ln.QL, ln.Scene, ln.SVer = r.qlens(), []int{}, []int{}
	} else {
		r.observe(ln)
		r.tLast = time.Now()
	}
	ln.GVer = le32(r.inst.ModelVersion())
	r.lines = append(r.lines, ln)
}

func decodeFrame(frame []byte) (d DecProj) {
	d = emptyDec()
	defer func() {
		if v := recover(); v != nil {
			d = emptyDec()
			d.Res = "PANIC"
		}
	}()
	m := room.MessageFromClient(frame)
	d.T = int(m.Type)
	switch m.Type {
	case room.ServerSetClientIDMessageType:
		d.Sid = ints([]byte(m.SeverSetClientID()))
	case room.ServerBroadcastMessageType:
		d.Data = ints(m.Data)
	case room.ServerRoomStateUpdateMessageType:
		d.St = StateProjOf(m.ServerRoomStateUpdate())
	}
	d.Res = "ok"
	return d
}

func frameOf(m room.Message) []byte {
	buf := &bytes.Buffer{}
	_ = m.Write(buf) // what writePump puts on the wire
	return buf.Bytes()
}

// recv: the client's writePump takes one message (never blocks).
func (r *runner) recv(c int, fin bool) (more bool) {
	ln := recvLine{K: "recv", H: r.h, C: c, Fin: fin, Fr: []int{}, Dec: emptyDec()}
	cl := r.clients[c]
	if cl == nil {
		ln.Res = "empty"
		r.lines = append(r.lines, ln)
		return false
	}
	select {
	case m, ok := <-cl.VerifSend():
		if !ok {
			ln.Res = "closed"
		} else {
			ln.Res = "msg"
			fr := frameOf(m)
			ln.Fr = ints(fr)
			ln.Dec = decodeFrame(fr)
			more = true
		}
	default:
		ln.Res = "empty"
	}
	r.lines = append(r.lines, ln)
	if !fin && !r.hang.Load() {
		r.tLast = time.Now()
	}
	return more
}

func (r *runner) run() (valid bool) {
	r.start()
	for i, e := range r.c.Ev {
		switch e.Op {
		case "recv":
			if r.hang.Load() {
				continue // taking a message could release a loop that is stuck on a full queue
			}
			r.recv(e.C, false)
		case "bump":
			// environment: the graph's model version moves (the loop reads it on its next tick; the
			// push that delivers that tick orders this write before the read)
			_ = r.inst.ApplyAppSchema([]byte(`{"producers":{},"nodes":{}}`))
			r.lines = append(r.lines, bumpLine{K: "bump", H: r.h, GVer: le32(r.inst.ModelVersion())})
		default:
			if r.dead.Load() || r.hang.Load() {
				continue
			}
			r.hubEvent(i+1, e)
		}
	}
	// retire the hub before the drain: its loop parks for good on a client nobody reads from, so that neither
	// the drain nor the 200 ms ticker can move it any more (a stuck loop is left alone: draining would release it)
	if !r.dead.Load() && !r.hang.Load() {
		close(r.stop)
		park := room.VerifNewClient(r.hub, 0)
		if r.hub.VerifPush(room.VerifEvent{Kind: room.VerifRegister, Client: park}, r.abort) {
			r.tLast = time.Now()
		}
	}
	if !r.hang.Load() {
		ns := make([]int, 0, len(r.clients))
		for n := range r.clients {
			ns = append(ns, n)
		}
		sort.Ints(ns)
		for _, n := range ns {
			for r.recv(n, true) {
			}
		}
	}
	r.lines = append(r.lines, endLine{K: "end", H: r.h, Dead: r.dead.Load(), Hang: r.hang.Load()})
	return r.tLast.Sub(r.t0) < tickGuard
}

// maxHangs: a loop that blocks costs hangAfter of wall time per case; after this many stuck cases the remaining
// hub cases are not executed (one "skipped" line says how many).
const maxHangs = 8

var hangs int

func runHub(h int, c Case) ([]any, error) {
	hungOnce := false
	for try := 0; try < 12; try++ {
		r := newRunner(h, c)
		if !r.run() {
			continue // took too long: the loop's own ticker may have interfered
		}
		if r.hang.Load() && !hungOnce {
			hungOnce = true // a stuck loop is deterministic: believe it only if it happens again
			continue
		}
		if r.hang.Load() {
			hangs++
		}
		return r.lines, nil
	}
	return nil, fmt.Errorf("case %d: could not finish within %v of the hub's start in 12 attempts (machine overloaded?)", h, tickGuard)
}

// Exec runs the cases of `in` and writes the observed trace to `out`.
func Exec(in, out string) error {
	fi, err := os.Open(in)
	if err != nil {
		return err
	}
	defer fi.Close()
	fo, err := os.Create(out)
	if err != nil {
		return err
	}
	defer fo.Close()
	bw := bufio.NewWriterSize(fo, 1<<20)
	defer bw.Flush()
	enc := json.NewEncoder(bw)
	sc := bufio.NewScanner(fi)
	sc.Buffer(make([]byte, 1<<20), 1<<28)
	h, skipped := 0, 0
	for sc.Scan() {
		if len(sc.Bytes()) == 0 {
			continue
		}
		var c Case
		if err := json.Unmarshal(sc.Bytes(), &c); err != nil {
			return fmt.Errorf("case %d: %w", h, err)
		}
		var lines []any
		switch c.Kind {
		case "", "hub":
			if hangs >= maxHangs {
				skipped++
				h++
				continue
			}
			lines, err = runHub(h, c)
			if err != nil {
				return err
			}
		case "codec":
			lines = runCodec(h, c)
		default:
			return fmt.Errorf("case %d: unknown kind %q", h, c.Kind)
		}
		for _, ln := range lines {
			if err := enc.Encode(ln); err != nil {
				return err
			}
		}
		h++
	}
	if skipped > 0 {
		if err := enc.Encode(map[string]any{"k": "skipped", "n": skipped}); err != nil {
			return err
		}
	}
	return sc.Err()
}
