package roomfam

import (
	"bufio"
	"encoding/json"
	"math/rand"
	"os"
)

var nameLens = []int{0, 1, 3, 8, 20, 100, 254, 255, 256, 257, 300, 600}
var objCounts = []int{0, 1, 2, 3, 9, 40, 254, 255, 256, 257, 300}
var specialBits = []uint32{0, 0x80000000, 0x3f800000, 0xbf800000, 0x7f800000, 0xff800000, 0x7fc00000, 0x00000001, 0x7f7fffff}

func rndBytes(r *rand.Rand, n int) []int {
	out := make([]int, n)
	for i := range out {
		out[i] = r.Intn(256)
	}
	return out
}

func rndName(r *rand.Rand, n int) []int {
	switch r.Intn(3) {
	case 0:
		return rndBytes(r, n)
	case 1: // multi-byte UTF-8 (a cut in the middle of a rune must not matter to the byte-level contract)
		out := []int{}
		for len(out) < n {
			out = append(out, ints([]byte(string(rune(0x400+r.Intn(0x2000)))))...)
		}
		return out[:n]
	}
	out := make([]int, n)
	for i := range out {
		out[i] = 'a' + r.Intn(26)
	}
	return out
}

func rndObj(r *rand.Rand) []int {
	o := []int{r.Intn(256)}
	for f := 0; f < 7; f++ {
		var bits uint32
		switch r.Intn(4) {
		case 0:
			bits = specialBits[r.Intn(len(specialBits))]
		case 1:
			bits = r.Uint32()
			if bits&0x7f800000 == 0x7f800000 && bits&0x007fffff != 0 { // keep NaN payloads quiet
				bits |= 0x00400000
			}
		default:
			o = append(o, f32(float32(r.Intn(2001)-1000)/8)...)
			continue
		}
		o = append(o, le32(bits)...)
	}
	return o
}

// quietObjs sets the quiet bit of every NaN among the floats of the whole 29-byte objects in p.  The property treats
// floats as opaque bit patterns but excludes signalling NaNs: encoding/binary's reflective decoder converts float32
// through float64, which quiets them on amd64 - that is the platform, not polyform.
func quietObjs(p []int) []int {
	for k := 0; k+ObjSize <= len(p); k += ObjSize {
		for f := 0; f < 7; f++ {
			at := k + 1 + 4*f
			if p[at+3]&0x7f == 0x7f && p[at+2]&0x80 == 0x80 && (p[at+2]&0x7f != 0 || p[at+1] != 0 || p[at] != 0) {
				p[at+2] |= 0x40
			}
		}
	}
	return p
}

func rndObjs(r *rand.Rand, n int) []int {
	out := make([]int, 0, n*ObjSize)
	for i := 0; i < n; i++ {
		out = append(out, rndObj(r)...)
	}
	return out
}

func rndScene(r *rand.Rand) []int {
	sc := rndBytes(r, SceneSize)
	for _, at := range []int{7, 11} { // fog near / far
		copy(sc[at:at+4], f32(float32(r.Intn(400))/4))
	}
	return sc
}

func rndUpdate(r *rand.Rand, c int, big bool) Event {
	e := Event{Op: "update", C: c}
	pick := func(tab []int) int {
		if big {
			return tab[r.Intn(len(tab))]
		}
		return tab[r.Intn(5)]
	}
	switch k := r.Intn(10); {
	case k < 3:
		e.UT, e.Data = 1, rndName(r, pick(nameLens))
	case k < 6:
		e.UT, e.Data = 0, rndObjs(r, pick(objCounts))
	case k < 7:
		e.UT = 0
		e.Data = rndBytes(r, 1+r.Intn(3)*ObjSize+r.Intn(ObjSize-1))
	case k < 9:
		e.UT = 2
		e.Data = append(rndScene(r), rndBytes(r, r.Intn(3))...)
	default:
		e.UT = []int{3, 4, 9, 126, 128, 129, 131, 255}[r.Intn(8)]
		e.Data = rndBytes(r, r.Intn(6))
	}
	return e
}

func rndHubCase(r *rand.Rand, steps int) Case {
	n := 2 + r.Intn(5)
	c := Case{Kind: "hub", N: n, Cap: 1 + r.Intn(4), Tag: "random", Ev: []Event{}}
	life := make([]int, n+1) // 0 new, 1 connected, 2 unregistered
	with := func(s int) []int {
		out := []int{}
		for i := 1; i <= n; i++ {
			if life[i] == s {
				out = append(out, i)
			}
		}
		return out
	}
	big := r.Intn(3) == 0
	for len(c.Ev) < steps {
		neu, conn := with(0), with(1)
		switch k := r.Intn(18); {
		case k < 3:
			if len(neu) > 0 {
				x := neu[r.Intn(len(neu))]
				life[x] = 1
				c.Ev = append(c.Ev, Event{Op: "register", C: x})
			}
		case k < 4:
			if len(conn) > 0 {
				x := conn[r.Intn(len(conn))]
				life[x] = 2
				c.Ev = append(c.Ev, Event{Op: "unregister", C: x})
			}
		case k < 9:
			if len(conn) > 0 {
				c.Ev = append(c.Ev, rndUpdate(r, conn[r.Intn(len(conn))], big))
			}
		case k < 11:
			c.Ev = append(c.Ev, Event{Op: "broadcast", Data: rndBytes(r, r.Intn(12))})
		case k < 14:
			c.Ev = append(c.Ev, Event{Op: "tick"})
		case k < 15:
			c.Ev = append(c.Ev, Event{Op: "bump"})
		default:
			c.Ev = append(c.Ev, Event{Op: "recv", C: 1 + r.Intn(n)})
		}
		if len(neu) == 0 && len(conn) == 0 && r.Intn(4) == 0 {
			break
		}
	}
	return c
}

// crowd: more connections than the state message's one-byte player count can carry.  Capacity 1: only the two
// clients that took their id message get the next state frame, everybody else is dropped by that tick.
func crowdCase(r *rand.Rand, n int) Case {
	c := Case{Kind: "hub", N: n, Cap: 1, Tag: "crowd", Ev: []Event{}}
	for i := 1; i <= n; i++ {
		c.Ev = append(c.Ev, Event{Op: "register", C: i})
		if i == 2 || i == n-2 {
			c.Ev = append(c.Ev, rndUpdate(r, 1+r.Intn(i), false))
		}
	}
	c.Ev = append(c.Ev, Event{Op: "recv", C: 1}, Event{Op: "recv", C: 2}, Event{Op: "tick"}, Event{Op: "recv", C: 1},
		Event{Op: "unregister", C: 3}, Event{Op: "unregister", C: n}, Event{Op: "tick"}, Event{Op: "recv", C: 2}, Event{Op: "recv", C: 2})
	return c
}

func rndID(r *rand.Rand, n int) []int {
	out := make([]int, n)
	for i := range out {
		out[i] = int(letters[r.Intn(len(letters))])
	}
	return out
}

const letters = "abcdefghijklmnopqrstuvwxyzABCDEFGHIJKLMNOPQRSTUVWXYZ"

// ShapeEntry: lengths of one player's id, name and object list.
type ShapeEntry struct {
	IL int `json:"il"`
	NL int `json:"nl"`
	NR int `json:"nr"`
}

func stateOfShape(r *rand.Rand, shape []ShapeEntry) *StateProj {
	st := &StateProj{Ver: le32(r.Uint32()), Scene: rndScene(r), Pl: []PlayerProj{}}
	seen := map[string]bool{}
	for k, s := range shape {
		id := rndID(r, s.IL)
		for seen[string(bytesOf(id))] && s.IL > 0 {
			id = rndID(r, s.IL)
		}
		if seen[string(bytesOf(id))] {
			continue // only one player can have the empty id
		}
		seen[string(bytesOf(id))] = true
		p := PlayerProj{ID: id, Name: rndName(r, s.NL), Rep: [][]int{}}
		for i := 0; i < s.NR; i++ {
			p.Rep = append(p.Rep, rndObj(r))
		}
		_ = k
		st.Pl = append(st.Pl, p)
	}
	return st
}

func rndCodecCase(r *rand.Rand, big bool) Case {
	c := Case{Kind: "codec", Tag: "random"}
	switch k := r.Intn(8); {
	case k < 5:
		np := r.Intn(5)
		if big && r.Intn(4) == 0 {
			np = []int{40, 254, 255}[r.Intn(3)]
		}
		shape := []ShapeEntry{}
		for i := 0; i < np; i++ {
			s := ShapeEntry{IL: 10, NL: nameLens[r.Intn(5)], NR: objCounts[r.Intn(4)]}
			if np < 10 && r.Intn(3) == 0 {
				s = ShapeEntry{IL: []int{0, 1, 10, 255}[r.Intn(4)], NL: []int{0, 1, 254, 255}[r.Intn(4)], NR: []int{0, 1, 2, 255}[r.Intn(4)]}
			}
			shape = append(shape, s)
		}
		c.St = stateOfShape(r, shape)
	case k < 7:
		if r.Intn(2) == 0 {
			c.Ori = rndObjs(r, objCounts[r.Intn(len(objCounts))])
		} else {
			c.Ori = quietObjs(rndBytes(r, r.Intn(4*ObjSize)))
		}
	default:
		c.ID = rndID(r, []int{0, 1, 10, 10, 10, 255, 300}[r.Intn(7)])
	}
	return c
}

// FillShapes turns TLC-enumerated shapes (cases with kind "shape") into codec cases.
func FillShapes(in, out string, seed int64) error {
	r := rand.New(rand.NewSource(seed))
	fi, err := os.Open(in)
	if err != nil {
		return err
	}
	defer fi.Close()
	fo, err := os.Create(out)
	if err != nil {
		return err
	}
	defer fo.Close()
	bw := bufio.NewWriter(fo)
	defer bw.Flush()
	enc := json.NewEncoder(bw)
	sc := bufio.NewScanner(fi)
	sc.Buffer(make([]byte, 1<<20), 1<<26)
	for sc.Scan() {
		var s struct {
			Shape []ShapeEntry `json:"shape"`
		}
		if err := json.Unmarshal(sc.Bytes(), &s); err != nil {
			return err
		}
		if err := enc.Encode(Case{Kind: "codec", Tag: "shape", St: stateOfShape(r, s.Shape)}); err != nil {
			return err
		}
	}
	return sc.Err()
}

// Random writes seeded cases: nHub hub cases of `steps` events, nCodec codec cases, `crowd` crowd cases.
func Random(out string, seed int64, nHub, steps, nCodec, crowd int) error {
	r := rand.New(rand.NewSource(seed))
	fo, err := os.Create(out)
	if err != nil {
		return err
	}
	defer fo.Close()
	bw := bufio.NewWriter(fo)
	defer bw.Flush()
	enc := json.NewEncoder(bw)
	for i := 0; i < crowd; i++ {
		if err := enc.Encode(crowdCase(r, 256+r.Intn(6))); err != nil {
			return err
		}
	}
	for i := 0; i < nHub; i++ {
		if err := enc.Encode(rndHubCase(r, steps/2+r.Intn(steps/2+1))); err != nil {
			return err
		}
	}
	for i := 0; i < nCodec; i++ {
		if err := enc.Encode(rndCodecCase(r, i%3 == 0)); err != nil {
			return err
		}
	}
	return nil
}
