package spatial

import (
	"bufio"
	"encoding/json"
	"math/rand"
	"os"
)

// GenRandom writes seeded cases at sizes TLC does not enumerate: element sets
// on the lattice 0..32 (uniform, clustered, coincident, overlapping, single),
// depths 0..5 and automatic, queries inside and outside the bounds. It only
// produces inputs; degenerate segments/triangles (no closest point is defined
// for them at element level) are not produced.
//
// Round 2: every mesh case (point, line, tri, bvhtri) is then given an index
// LAYOUT (relayout) and, for the octree kinds, an entry point / attribute
// ROUTE (reroute): the element set stays what was generated, only the way the
// mesh stores and names it changes.
func GenRandom(out string, seed int64, n, maxn, nq int) error {
	fo, err := os.Create(out)
	if err != nil {
		return err
	}
	defer fo.Close()
	w := bufio.NewWriterSize(fo, 1<<20)
	defer w.Flush()
	enc := json.NewEncoder(w)
	r := rand.New(rand.NewSource(seed))
	kinds := []string{"point", "line", "tri", "box", "sphere", "bvhtri", "point", "tri"}
	dists := []string{"uniform", "cluster", "coincident", "overlap", "single", "collinear"}
	sizes := []int{1, 2, 3, 4, 5, 8, 13, 21, maxn}
	depths := []int{0, 1, 2, 3, 5, -1, -1}
	for i := 0; i < n; i++ {
		c := Case{Id: i, Tag: "random", Kind: kinds[i%len(kinds)], Verts: [][]int{}, Idx: []int{}, Decoy: [][]int{}, Sph: [][]int{},
			QPts: [][]int{}, Ranges: [][]int{}, Rays: [][]int{}, Reps: 2}
		dist := dists[r.Intn(len(dists))]
		c.Tag = "random-" + dist
		ne := sizes[r.Intn(len(sizes))]
		if ne > maxn {
			ne = maxn
		}
		if dist == "single" {
			ne = 1
		}
		c.Depth = depths[r.Intn(len(depths))]
		g := &gen{r: r, dist: dist}
		g.init()
		switch c.Kind {
		case "point":
			for k := 0; k < ne; k++ {
				c.Verts = append(c.Verts, g.point())
			}
		case "line":
			// a strip through ne+1 vertices, consecutive ones distinct
			c.Verts = append(c.Verts, g.point())
			c.Idx = append(c.Idx, 0)
			for k := 0; k < ne; k++ {
				p := g.point()
				for same(p, c.Verts[c.Idx[len(c.Idx)-1]]) {
					p = g.anyPoint()
				}
				if r.Intn(4) == 0 && len(c.Verts) > 2 {
					// revisit an earlier vertex (shared vertices, crossing segments)
					j := r.Intn(len(c.Verts))
					if !same(c.Verts[j], c.Verts[c.Idx[len(c.Idx)-1]]) {
						c.Idx = append(c.Idx, j)
						continue
					}
				}
				c.Verts = append(c.Verts, p)
				c.Idx = append(c.Idx, len(c.Verts)-1)
			}
		case "tri", "bvhtri":
			for k := 0; k < ne; k++ {
				a, b, d := g.point(), g.near(), g.near()
				for collinear(a, b, d) {
					b, d = g.anyPoint(), g.anyPoint()
				}
				if r.Intn(3) == 0 && k > 0 {
					// share an edge with the previous triangle
					a, b = c.Verts[c.Idx[len(c.Idx)-2]], c.Verts[c.Idx[len(c.Idx)-1]]
					for collinear(a, b, d) {
						d = g.anyPoint()
					}
				}
				base := len(c.Verts)
				c.Verts = append(c.Verts, a, b, d)
				c.Idx = append(c.Idx, base, base+1, base+2)
			}
		case "box":
			for k := 0; k < ne; k++ {
				a := g.point()
				b := g.near()
				if r.Intn(4) == 0 {
					b = a // a box that is a point
				}
				base := len(c.Verts)
				c.Verts = append(c.Verts, a, b)
				c.Idx = append(c.Idx, base, base+1)
			}
		case "sphere":
			for k := 0; k < ne; k++ {
				p := g.point()
				c.Sph = append(c.Sph, []int{p[0], p[1], p[2], 1 + r.Intn(4)})
			}
		}
		// query points: lattice points inside and outside the bounds, and vertices
		pool := c.Verts
		if c.Kind == "sphere" {
			pool = nil
			for _, s := range c.Sph {
				pool = append(pool, s[0:3])
			}
		}
		qp := func() []int {
			switch r.Intn(4) {
			case 0:
				return append([]int{}, pool[r.Intn(len(pool))]...)
			case 1:
				return []int{r.Intn(57) - 12, r.Intn(57) - 12, r.Intn(57) - 12}
			case 2:
				p := pool[r.Intn(len(pool))]
				return []int{p[0] + r.Intn(5) - 2, p[1] + r.Intn(5) - 2, p[2] + r.Intn(5) - 2}
			}
			return []int{r.Intn(33), r.Intn(33), r.Intn(33)}
		}
		// closest/contain queries are cheap: four times as many, and for
		// segments and triangles a share of them on the extension of an edge
		// beyond its end points (in the element's plane, outside the element:
		// where an element-level closest point is most easily wrong)
		for k := 0; k < 4*nq; k++ {
			q := qp()
			if (c.Kind == "tri" || c.Kind == "line") && len(c.Idx) >= 2 && k%3 == 0 {
				i := r.Intn(len(c.Idx) - 1)
				if c.Kind == "tri" {
					i = 3*(i/3) + r.Intn(2)
				}
				a, b := c.Verts[c.Idx[i]], c.Verts[c.Idx[i+1]]
				t := []int{-2, -1, 2, 3}[r.Intn(4)]
				e := []int{a[0] + t*(b[0]-a[0]), a[1] + t*(b[1]-a[1]), a[2] + t*(b[2]-a[2])}
				if e[0] >= -28 && e[0] <= 60 && e[1] >= -28 && e[1] <= 60 && e[2] >= -28 && e[2] <= 60 {
					q = e
				}
			}
			c.QPts = append(c.QPts, q)
		}
		for k := 0; k < nq; k++ {
			q := qp()
			rad := []int{r.Intn(13), 1}
			switch r.Intn(4) {
			case 0:
				rad = []int{r.Intn(25), 2}
			case 1:
				rad = []int{0, 1}
			}
			c.Ranges = append(c.Ranges, append(q, rad...))
			o := qp()
			var d []int
			if r.Intn(5) < 2 {
				d = []int{0, 0, 0}
				d[r.Intn(3)] = 1 - 2*r.Intn(2)
			} else if r.Intn(2) == 0 {
				// aim at an element so that hits are frequent
				t := pool[r.Intn(len(pool))]
				d = []int{t[0] - o[0], t[1] - o[1], t[2] - o[2]}
			} else {
				d = []int{r.Intn(7) - 3, r.Intn(7) - 3, r.Intn(7) - 3}
			}
			if d[0] == 0 && d[1] == 0 && d[2] == 0 {
				d[r.Intn(3)] = 1
			}
			tr := []int{0, 400, 2}
			switch r.Intn(6) {
			case 0:
				tr = []int{0, 1 + r.Intn(60), 2}
			case 1:
				// tmax > tmin: a range of length zero crosses nothing by the
				// library's box test and is not a ray query
				a := r.Intn(40)
				tr = []int{a, a + 1 + r.Intn(60), 2}
			case 2:
				tr = []int{1, 200000, 1000}
			}
			c.Rays = append(c.Rays, append(append(o, d...), tr...))
		}
		relayout(&c, r)
		reroute(&c, r)
		// own stream: the element sets and base queries of a seed stay what they were
		classes(&c, rand.New(rand.NewSource(seed*7919+int64(i))))
		if err := enc.Encode(c); err != nil {
			return err
		}
	}
	return nil
}

// relayout rewrites verts/idx of a mesh case without changing its elements
// (element i keeps its coordinates and its number):
//
//	plain   as generated: point clouds and untouched strips with IMPLIED indices
//	        (empty idx: NewPointCloud / NewLineStripMesh), triangles 0,1,2,3,..
//	perm    the vertices are stored in a random order
//	weld    vertices with equal coordinates become one shared vertex, then perm
//	gaps    perm, and vertices nothing refers to are stored between the others
//	        (also first and last)
//	all     weld, gaps, perm
// classes appends value-class variants of the queries (round 5): about half of
// the rays with a zero direction component once more with those zeros negative
// (and, one time in three, the zeros of the origin too), every query point /
// range centre with a zero coordinate once more with negative zeros, and a
// huge and a subnormal radius now and then. A variant names its twin.
func classes(c *Case, r *rand.Rand) {
	c.normalise()
	zeros := func(q []int, from, to int) int {
		m := 0
		for i := from; i < to; i++ {
			if q[i] == 0 {
				m |= 1 << uint(i)
			}
		}
		return m
	}
	nr := len(c.Rays)
	for i := 0; i < nr; i++ {
		q := c.Rays[i]
		m := zeros(q, 3, 6)
		if m == 0 || r.Intn(2) == 0 {
			continue
		}
		if r.Intn(3) == 0 {
			m |= zeros(q, 0, 3)
		}
		v := pad(q, 11)
		v[9], v[10] = m, i+1
		c.Rays = append(c.Rays, v)
	}
	np := len(c.QPts)
	for i := 0; i < np; i++ {
		if m := zeros(c.QPts[i], 0, 3); m != 0 {
			v := pad(c.QPts[i], 5)
			v[3], v[4] = m, i+1
			c.QPts = append(c.QPts, v)
		}
	}
	ng := len(c.Ranges)
	for i := 0; i < ng; i++ {
		q := c.Ranges[i]
		if m := zeros(q, 0, 3); m != 0 {
			v := pad(q, 8)
			v[5], v[7] = m, i+1
			c.Ranges = append(c.Ranges, v)
		}
		switch r.Intn(8) {
		case 0:
			v := pad(q, 8)
			v[6] = 1
			c.Ranges = append(c.Ranges, v)
		case 1:
			v := pad(q, 8)
			v[6], v[7] = 2, i+1
			c.Ranges = append(c.Ranges, v)
		}
	}
}

func relayout(c *Case, r *rand.Rand) {
	switch c.Kind {
	case "point", "line", "tri", "bvhtri":
	default:
		return
	}
	idx := c.Idx
	if c.Kind == "point" {
		idx = identity(len(c.Verts))
	}
	mode := []string{"plain", "perm", "weld", "gaps", "all"}[r.Intn(5)]
	c.Lay = mode
	if mode == "plain" {
		isIdent := true
		for k, i := range idx {
			if i != k {
				isIdent = false
			}
		}
		if c.Kind == "point" || (c.Kind == "line" && isIdent && len(idx) == len(c.Verts) && r.Intn(2) == 0) {
			c.Idx = []int{}
			c.Lay = "implied"
		}
		return
	}
	verts := c.Verts
	if mode == "weld" || mode == "all" {
		seen := map[[3]int]int{}
		var nv [][]int
		ni := make([]int, len(idx))
		for k, i := range idx {
			key := [3]int{verts[i][0], verts[i][1], verts[i][2]}
			j, ok := seen[key]
			if !ok {
				j = len(nv)
				seen[key] = j
				nv = append(nv, verts[i])
			}
			ni[k] = j
		}
		verts, idx = nv, ni
	}
	if mode == "gaps" || mode == "all" {
		extra := 1 + r.Intn(3)
		for k := 0; k < extra; k++ {
			verts = append(verts, []int{r.Intn(33), r.Intn(33), r.Intn(33)})
		}
	}
	// random storage order; with gaps make sure position 0 or the last position
	// holds a vertex nothing refers to
	perm := r.Perm(len(verts)) // old id -> new id
	if (mode == "gaps" || mode == "all") && len(verts) > 1 {
		last := len(verts) - 1 // an unreferenced vertex
		want := 0
		if r.Intn(2) == 0 {
			want = len(verts) - 1
		}
		for o, nw := range perm {
			if nw == want {
				perm[o], perm[last] = perm[last], perm[o]
				break
			}
		}
	}
	nv := make([][]int, len(verts))
	for o, nw := range perm {
		nv[nw] = verts[o]
	}
	ni := make([]int, len(idx))
	for k, i := range idx {
		ni[k] = perm[i]
	}
	c.Verts, c.Idx = nv, ni
}

// reroute picks the entry point and the attribute of an octree mesh case:
//
//	""         Mesh.OctTree / OctTreeDepth, Position only            (2 of 6)
//	""+decoy   the same with a second float3 attribute on the mesh
//	Position   OctTreeWithAttributeAndDepth("Position", d), decoy in Rest
//	Rest       OctTreeWithAttributeAndDepth("Rest", d), decoy in Position
//	Rest only  the same on a mesh that has no Position attribute
//
// The decoy is another non-degenerate looking geometry on the same lattice.
func reroute(c *Case, r *rand.Rand) {
	switch c.Kind {
	case "point", "line", "tri":
	default:
		return
	}
	v := r.Intn(6)
	withDecoy := false
	switch v {
	case 2:
		withDecoy = true
	case 3:
		c.Attr, withDecoy = "Position", true
	case 4:
		c.Attr, withDecoy = RestAttribute, true
	case 5:
		c.Attr = RestAttribute
	}
	if withDecoy {
		for range c.Verts {
			c.Decoy = append(c.Decoy, []int{r.Intn(33), r.Intn(33), r.Intn(33)})
		}
	}
}

type gen struct {
	r       *rand.Rand
	dist    string
	centers [][]int
	last    []int
	dir     []int
}

func (g *gen) init() {
	k := 1 + g.r.Intn(4)
	for i := 0; i < k; i++ {
		g.centers = append(g.centers, []int{4 + g.r.Intn(25), 4 + g.r.Intn(25), 4 + g.r.Intn(25)})
	}
	g.dir = []int{g.r.Intn(3) - 1, g.r.Intn(3) - 1, g.r.Intn(3) - 1}
	if g.dir[0] == 0 && g.dir[1] == 0 && g.dir[2] == 0 {
		g.dir[0] = 1
	}
	g.last = g.anyPoint()
}

func clampi(x, lo, hi int) int {
	if x < lo {
		return lo
	}
	if x > hi {
		return hi
	}
	return x
}

func (g *gen) anyPoint() []int {
	return []int{g.r.Intn(33), g.r.Intn(33), g.r.Intn(33)}
}

func (g *gen) point() []int {
	var p []int
	switch g.dist {
	case "cluster":
		c := g.centers[g.r.Intn(len(g.centers))]
		p = []int{c[0] + g.r.Intn(7) - 3, c[1] + g.r.Intn(7) - 3, c[2] + g.r.Intn(7) - 3}
	case "coincident":
		c := g.centers[g.r.Intn(len(g.centers))]
		if g.r.Intn(3) == 0 {
			p = []int{c[0] + g.r.Intn(3) - 1, c[1], c[2]}
		} else {
			p = append([]int{}, c...)
		}
	case "collinear":
		t := g.r.Intn(17)
		p = []int{clampi(g.centers[0][0]+g.dir[0]*(t-8), 0, 32), clampi(g.centers[0][1]+g.dir[1]*(t-8), 0, 32),
			clampi(g.centers[0][2]+g.dir[2]*(t-8), 0, 32)}
	default:
		p = g.anyPoint()
	}
	g.last = p
	return p
}

// near returns a second corner for the element started at the last point:
// close by (small elements) or anywhere (large, overlapping elements).
func (g *gen) near() []int {
	if g.dist == "overlap" || g.r.Intn(5) == 0 {
		return g.anyPoint()
	}
	return []int{clampi(g.last[0]+g.r.Intn(9)-4, 0, 32), clampi(g.last[1]+g.r.Intn(9)-4, 0, 32),
		clampi(g.last[2]+g.r.Intn(9)-4, 0, 32)}
}

func same(a, b []int) bool { return a[0] == b[0] && a[1] == b[1] && a[2] == b[2] }

func collinear(a, b, c []int) bool {
	ux, uy, uz := b[0]-a[0], b[1]-a[1], b[2]-a[2]
	vx, vy, vz := c[0]-a[0], c[1]-a[1], c[2]-a[2]
	return uy*vz-uz*vy == 0 && uz*vx-ux*vz == 0 && ux*vy-uy*vx == 0
}
