package spatial

import (
	"encoding/json"
	"math/rand"

	"github.com/EliCDavis/polyform/math/geometry"
	"github.com/EliCDavis/polyform/modeling"
	"github.com/EliCDavis/polyform/rendering"
	"github.com/EliCDavis/vector/vector2"
	"github.com/EliCDavis/vector/vector3"
)

// idMat is a material that only carries the identity of the element it was
// given to, so the element a HitRecord belongs to can be observed.
type idMat struct{ id int }

func (m *idMat) Scatter(in geometry.Ray, rec *rendering.HitRecord, attenuation *vector3.Float64, scattered *geometry.Ray) bool {
	return false
}

func (m *idMat) Emitted(uv vector2.Float64, p vector3.Float64) vector3.Float64 {
	return vector3.Zero[float64]()
}

func hitOf(h rendering.Hittable, ray *rendering.TemporalRay, t0, t1 float64, bad *bool) hitRes {
	res := hitRes{}
	rec := rendering.NewHitRecord()
	res.St = guard(func() {
		res.H = h.Hit(ray, t0, t1, rec)
		if res.H {
			res.T = fx(rec.Distance, bad)
			if m, ok := rec.Material.(*idMat); ok && m != nil {
				res.E = m.id
			}
		}
	})
	return res
}

// hit2 presents rendering.Mesh.Hit2 (the list-query variant of Mesh.Hit) as a Hittable.
type hit2 struct{ m rendering.Mesh }

func (h hit2) Hit(r *rendering.TemporalRay, min, max float64, rec *rendering.HitRecord) bool {
	return h.m.Hit2(r, min, max, rec)
}

func (h hit2) BoundingBox(startTime, endTime float64) *geometry.AABB {
	return h.m.BoundingBox(startTime, endTime)
}

// runScene: elements are hittables; the exhaustive scan is rendering.HitList,
// the indexes are rendering.BVHNode (NewBVHTree / NewBVHFromMesh),
// rendering.Tree (octree over the element boxes) and, for triangle scenes,
// rendering.Mesh (octree over the triangles of the whole mesh: Hit and Hit2).
func runScene(enc *json.Encoder, c Case, seed int64) error {
	var items []rendering.Hittable
	var whole *modeling.Mesh
	st := guard(func() {
		switch c.Kind {
		case "sphere":
			for i, s := range c.Sph {
				items = append(items, rendering.NewSphere(v3(s[0:3]), float64(s[3]), &idMat{id: i + 1}))
			}
		case "bvhtri":
			verts := make([]vector3.Float64, len(c.Verts))
			for i, v := range c.Verts {
				verts[i] = v3(v)
			}
			// NewBVHFromMesh reads a normal per corner: give every vertex one
			normals := make([]vector3.Float64, len(verts))
			for i := range normals {
				normals[i] = vector3.Up[float64]()
			}
			m := modeling.NewTriangleMesh(append([]int{}, c.Idx...)).
				SetFloat3Attribute(modeling.PositionAttribute, verts).
				SetFloat3Attribute(modeling.NormalAttribute, normals)
			whole = &m
			for i := 0; i+2 < len(c.Idx); i += 3 {
				one := modeling.NewTriangleMesh([]int{c.Idx[i], c.Idx[i+1], c.Idx[i+2]}).
					SetFloat3Attribute(modeling.PositionAttribute, verts).
					SetFloat3Attribute(modeling.NormalAttribute, normals)
				items = append(items, rendering.NewBVHFromMesh(one, &idMat{id: i/3 + 1}))
			}
		}
	})
	n := len(items)
	reps := c.Reps
	if reps < 1 {
		reps = 1
	}
	if st != "OK" {
		return enc.Encode(sceneLine{K: "scene", Case: c.Id, Kind: c.Kind, N: n, St: st})
	}
	list := rendering.HitList(items)
	for rep := 0; rep < reps; rep++ {
		// NewBVHTree draws its split axes from the global source and sorts the
		// slice it is given: seed for reproducibility, hand it a copy.
		rand.Seed(seed*1000003 + int64(c.Id)*101 + int64(rep))
		var bvh rendering.Hittable
		var oct rendering.Hittable
		var msh *rendering.Mesh
		bst := guard(func() {
			if whole != nil {
				bvh = rendering.NewBVHFromMesh(*whole, &idMat{id: 0})
				// the octree-backed mesh hittable: rendering.NewMesh builds a
				// trees.OctTree over the mesh's triangles, Mesh.Hit walks it with
				// TraverseIntersectingRay, Mesh.Hit2 with ElementsIntersectingRay
				m := rendering.NewMesh(*whole, &idMat{id: 0})
				msh = &m
			} else {
				bvh = rendering.NewBVHTree(append([]rendering.Hittable{}, items...), 0, n, 0, 0)
			}
			oct = rendering.NewBVH(append([]rendering.Hittable{}, items...), 0, 0)
		})
		if err := enc.Encode(sceneLine{K: "scene", Case: c.Id, Kind: c.Kind, N: n, Rep: rep, St: bst}); err != nil {
			return err
		}
		if bst != "OK" {
			continue
		}
		line := newBatch("hit", c.Id)
		batch := make([]hitEntry, 0, len(c.Rays))
		for qi, q := range c.Rays {
			ro, rd, t0, t1 := rayParts(q)
			ray := rendering.NewTemporalRay(ro, rd, 0)
			bad := false
			e := hitEntry{Tw: q[10], Te: make([]int, n)}
			for i, it := range items {
				r := hitOf(it, &ray, t0, t1, &bad)
				e.Te[i] = None
				if r.St != "OK" {
					bad = true
				} else if r.H {
					e.Te[i] = r.T
				}
			}
			badAns := false
			e.List = hitOf(list, &ray, t0, t1, &badAns)
			e.Bvh = hitOf(bvh, &ray, t0, t1, &badAns)
			e.Oct = hitOf(oct, &ray, t0, t1, &badAns)
			e.Msh, e.Msh2 = hitRes{St: "NONE"}, hitRes{St: "NONE"}
			if msh != nil {
				e.Msh = hitOf(*msh, &ray, t0, t1, &badAns)
				e.Msh2 = hitOf(hit2{*msh}, &ray, t0, t1, &badAns)
			}
			line.note(qi, "OK", bad, badAns)
			batch = append(batch, e)
		}
		line.B = batch
		if err := enc.Encode(line); err != nil {
			return err
		}
	}
	return nil
}
