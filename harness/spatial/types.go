// Package spatial executes spatial-index cases (C16) on the real polyform
// packages (trees.OctTree through modeling.Mesh, rendering.BVHNode,
// rendering.HitList, rendering.Tree) and projects what was observed to
// integers. It decides nothing: the per-element "facts" are the results of the
// element-level real primitives applied to every element (the exhaustive scan
// of the property statement); TLC compares them with the tree's answer.
package spatial

import (
	"bufio"
	"encoding/json"
	"fmt"
	"math"
	"os"
	"sort"
	"sync"
	"sync/atomic"
)

// S is the fixed-point scale of logged reals (distances, squared distances,
// closest points): value = round(x * S). int32 budget: |x| < 32767.
const S = 65536

// None marks "no hit" in per-element hit distance lists.
const None = -2000000000

// Case is one input: an element set (or scene), a tree depth and queries.
//
//	kind "point": element i is vertex idx[i]; an empty idx is the point cloud with
//	              implied indices (modeling.NewPointCloud)
//	kind "line" : idx is a line strip through verts (segment i = idx[i], idx[i+1]);
//	              an empty idx is the strip through all vertices in storage
//	              order (modeling.NewLineStripMesh)
//	kind "tri"  : idx holds three vertex ids per triangle
//	kind "box"  : idx holds two vertex ids (any two opposite corners) per box
//	kind "sphere": sph holds [cx,cy,cz,r] per sphere          (BVH scene)
//	kind "bvhtri": verts/idx as for "tri"                      (BVH scene)
//
// For the mesh kinds (point, line, tri) idx may be any index buffer: permuted
// storage order, shared vertices, vertices nothing refers to, the same vertex
// several times. attr selects the entry point and the float3 attribute the
// tree is built on:
//
//	""       Mesh.OctTree() (depth -1) / Mesh.OctTreeDepth(depth): Position
//	other    Mesh.OctTreeWithAttributeAndDepth(attr, depth) with verts stored in
//	         attribute attr ("Position" is allowed: the explicit route); depth -1
//	         is resolved the way Mesh.OctTree does (trees.OctreeDepthFromCount)
//
// decoy, when not empty, is the data of ANOTHER float3 attribute of the same
// mesh (one entry per vertex): it is stored under Position when attr names
// another attribute and under "Rest" otherwise. A mesh with attr = "Rest" and
// no decoy has no Position attribute at all. Nothing may ever read the decoy.
//
// depth -1 is the automatic depth. Ranges are [x,y,z,rn,rd] (radius rn/rd),
// rays are [ox,oy,oz,dx,dy,dz,t0n,t1n,td] (tmin=t0n/td, tmax=t1n/td).
//
// Round 5, VALUE CLASSES (chosen by the generator, executed here): a query
// tuple may carry trailing integers
//
//	qpts   [x,y,z,zs,tw]      ranges [x,y,z,rn,rd,zs,rc,tw]
//	rays   [ox,..,dz,t0n,t1n,td,zs,tw]
//
// zs: bit i of the mask = component i of the tuple (x,y,z / ox,oy,oz,dx,dy,dz)
// whose integer value is 0 is NEGATIVE ZERO (math.Copysign(0,-1)); rc: radius
// class, 0 = rn/rd, 1 = 1e300, 2 = rn/rd + the smallest subnormal; tw: 1-based
// position of the twin query (same reals, class 0) in the same list, 0 = none.
// Queries without the trailing integers are padded with zeros on reading.
type Case struct {
	Id     int     `json:"id"`
	Tag    string  `json:"tag,omitempty"`
	Kind   string  `json:"kind"`
	Verts  [][]int `json:"verts"`
	Idx    []int   `json:"idx"`
	Attr   string  `json:"attr"`
	Decoy  [][]int `json:"decoy"`
	Lay    string  `json:"lay,omitempty"`
	Sph    [][]int `json:"sph"`
	Depth  int     `json:"depth"`
	Reps   int     `json:"reps"`
	QPts   [][]int `json:"qpts"`
	Ranges [][]int `json:"ranges"`
	Rays   [][]int `json:"rays"`
}

type box struct {
	Lo []int `json:"lo"`
	Hi []int `json:"hi"`
}

type cell struct {
	Lo []int `json:"lo"`
	Hi []int `json:"hi"`
	El []int `json:"el"`
	Ch []int `json:"ch"`
}

type treeLine struct {
	K     string `json:"k"`
	Case  int    `json:"case"`
	Kind  string `json:"kind"`
	Depth int    `json:"depth"`
	N     int    `json:"n"`
	St    string `json:"st"`
	Exact bool   `json:"exact"`
	Eb    []box  `json:"eb"`
	Cells []cell `json:"cells"`
	// the route the tree came from (attr as in the case, "" = Mesh.OctTree /
	// OctTreeDepth; ident: the index buffer is implied or 0,1,2,..; nopos: the
	// mesh has no Position attribute) and the mesh-level scan of the bounds:
	// Primitive.BoundingBox(attr) of every primitive handed out by
	// Mesh.ScanPrimitives (mst "NONE": no mesh, hand-built elements; "FAIL": a
	// call panicked; "INEXACT": a bound that is not a lattice integer)
	Attr  string `json:"attr"`
	Ident bool   `json:"ident"`
	NoPos bool   `json:"nopos"`
	Mst   string `json:"mst"`
	Meb   []box  `json:"meb"`
}

// Entries carry no copy of the query: entry i of a batch answers query i of the
// case's list (qpts for closest/contain, ranges for range, rays otherwise).
// mcp is the mesh-level scan: Primitive.ClosestPoint(attr, q) of every
// primitive of the mesh the tree was asked from (empty without a mesh).
type closestEntry struct {
	Tw  int     `json:"tw"`
	D2  []int   `json:"d2"`
	Cp  [][]int `json:"cp"`
	Mcp [][]int `json:"mcp"`
	Ri  int     `json:"ri"`
	Rp  []int   `json:"rp"`
}

// q echoes the integers of the query (padded form) so that the judge can
// compute its own reference for lattice boxes; tw is the twin entry.
type setEntry struct {
	Q   []int `json:"q"`
	Tw  int   `json:"tw"`
	Hit []int `json:"hit"`
	Res []int `json:"res"`
}

type rayEntry struct {
	Q    []int `json:"q"`
	Tw   int   `json:"tw"`
	Hit  []int `json:"hit"`
	Res  []int `json:"res"`
	Trav []int `json:"trav"`
}

type nearEntry struct {
	Tw   int   `json:"tw"`
	Te   []int `json:"te"`
	Hitb []int `json:"hitb"`
	Vis  []int `json:"vis"`
	Ri   int   `json:"ri"`
	Rt   int   `json:"rt"`
}

// batchLine: fail lists the (1-based) entries whose call panicked, nan those
// with a non-finite or out-of-budget real among the FACTS (the input is then
// outside what the harness can project), nana those where the ANSWER of the
// index is non-finite or out of budget (the answer is then simply wrong),
// mfail those where a call of the mesh-level scan panicked or returned a
// non-finite / out-of-budget real.
type batchLine struct {
	K     string      `json:"k"`
	Case  int         `json:"case"`
	Fail  []int       `json:"fail"`
	Nan   []int       `json:"nan"`
	Nana  []int       `json:"nana"`
	Mfail []int       `json:"mfail"`
	B     interface{} `json:"b"`
	mu    sync.Mutex
}

// Par > 1: the queries of a batch are issued from Par goroutines at the same
// time on the one tree of the case (read-only queries; the list ray query
// ElementsIntersectingRay fills a buffer owned by the tree, by design one
// caller at a time, and is serialised).
var Par = 1

// forEach runs f(0..n-1), from Par goroutines when Par > 1.
func forEach(n int, f func(i int)) {
	if Par <= 1 {
		for i := 0; i < n; i++ {
			f(i)
		}
		return
	}
	var wg sync.WaitGroup
	next := int64(-1)
	for g := 0; g < Par; g++ {
		wg.Add(1)
		go func() {
			defer wg.Done()
			for {
				i := int(atomic.AddInt64(&next, 1))
				if i >= n {
					return
				}
				f(i)
			}
		}()
	}
	wg.Wait()
}

func (l *batchLine) finish() {
	sort.Ints(l.Fail)
	sort.Ints(l.Nan)
	sort.Ints(l.Nana)
	sort.Ints(l.Mfail)
}

type hitRes struct {
	St string `json:"st"`
	H  bool   `json:"h"`
	T  int    `json:"t"`
	E  int    `json:"e"`
}

type hitEntry struct {
	Tw   int    `json:"tw"`
	Te   []int  `json:"te"`
	List hitRes `json:"list"`
	Bvh  hitRes `json:"bvh"`
	Oct  hitRes `json:"oct"`
	Msh  hitRes `json:"msh"`
	Msh2 hitRes `json:"msh2"`
}

type sceneLine struct {
	K    string `json:"k"`
	Case int    `json:"case"`
	Kind string `json:"kind"`
	N    int    `json:"n"`
	Rep  int    `json:"rep"`
	St   string `json:"st"`
}

// fx converts a real to fixed point; bad is set when the value is not finite
// or does not fit the int32 budget.
func fx(x float64, bad *bool) int {
	if math.IsNaN(x) || math.IsInf(x, 0) || math.Abs(x) >= 32767 {
		*bad = true
		return 0
	}
	return int(math.Round(x * S))
}

// lat converts a bound to a lattice integer; exact is cleared otherwise.
func lat(x float64, exact *bool) int {
	if math.IsNaN(x) || math.IsInf(x, 0) || math.Abs(x) > 1e6 {
		*exact = false
		return 0
	}
	r := math.Round(x)
	if r != x {
		*exact = false
	}
	return int(r)
}

// pad returns q with zeros appended up to n integers (a copy).
func pad(q []int, n int) []int {
	out := make([]int, n)
	copy(out, q)
	return out
}

// normalise brings every query of the case to the padded form.
func (c *Case) normalise() {
	for i, q := range c.QPts {
		c.QPts[i] = pad(q, 5)
	}
	for i, q := range c.Ranges {
		c.Ranges[i] = pad(q, 8)
	}
	for i, q := range c.Rays {
		c.Rays[i] = pad(q, 11)
	}
}

// zv is component i of a query tuple as a real: the integer value, or negative
// zero when the value is 0 and bit i of the class mask zs is set.
func zv(q []int, i, zs int) float64 {
	if q[i] == 0 && zs&(1<<uint(i)) != 0 {
		return math.Copysign(0, -1)
	}
	return float64(q[i])
}

// radiusOf is the radius of a (padded) range query in its class.
func radiusOf(q []int) float64 {
	r := float64(q[3]) / float64(q[4])
	switch q[6] {
	case 1:
		return 1e300
	case 2:
		return r + math.SmallestNonzeroFloat64
	}
	return r
}

func ids1(v []int) []int {
	out := make([]int, len(v))
	for i, x := range v {
		out[i] = x + 1
	}
	return out
}

// guard runs f and reports "OK" or "FAIL" (panic of the code under test).
func guard(f func()) (st string) {
	st = "OK"
	defer func() {
		if r := recover(); r != nil {
			st = "FAIL"
		}
	}()
	f()
	return
}

func readCases(in string, each func(c Case) error) error {
	fi, err := os.Open(in)
	if err != nil {
		return err
	}
	defer fi.Close()
	sc := bufio.NewScanner(fi)
	sc.Buffer(make([]byte, 1<<20), 1<<28)
	n := 0
	for sc.Scan() {
		if len(sc.Bytes()) == 0 {
			continue
		}
		var c Case
		if err := json.Unmarshal(sc.Bytes(), &c); err != nil {
			return fmt.Errorf("case %d: %w", n, err)
		}
		c.normalise()
		if err := each(c); err != nil {
			return fmt.Errorf("case %d: %w", n, err)
		}
		n++
	}
	return sc.Err()
}

// Run executes every case of `in` and writes the trace to `out`.
func Run(in, out string, seed int64, par int) error {
	Par = par
	fo, err := os.Create(out)
	if err != nil {
		return err
	}
	defer fo.Close()
	w := bufio.NewWriterSize(fo, 1<<20)
	defer w.Flush()
	enc := json.NewEncoder(w)
	return readCases(in, func(c Case) error {
		switch c.Kind {
		case "point", "line", "tri", "box":
			return runOctree(enc, c)
		case "sphere", "bvhtri":
			return runScene(enc, c, seed)
		}
		return fmt.Errorf("unknown kind %q", c.Kind)
	})
}
