package spatial

import (
	"encoding/json"
	"fmt"
	"sync"

	"github.com/EliCDavis/polyform/math/geometry"
	"github.com/EliCDavis/polyform/modeling"
	"github.com/EliCDavis/polyform/trees"
	"github.com/EliCDavis/vector/vector3"
)

func v3(v []int) vector3.Float64 {
	return vector3.New(float64(v[0]), float64(v[1]), float64(v[2]))
}

// qv3 is the point of a padded point / range query (class mask at zsAt).
func qv3(q []int, zsAt int) vector3.Float64 {
	zs := q[zsAt]
	return vector3.New(zv(q, 0, zs), zv(q, 1, zs), zv(q, 2, zs))
}

// rayParts are origin and direction of a padded ray query with its value classes.
func rayParts(r []int) (vector3.Float64, vector3.Float64, float64, float64) {
	td := float64(r[8])
	zs := r[9]
	return vector3.New(zv(r, 0, zs), zv(r, 1, zs), zv(r, 2, zs)),
		vector3.New(zv(r, 3, zs), zv(r, 4, zs), zv(r, 5, zs)), float64(r[6]) / td, float64(r[7]) / td
}

func rayOf(r []int) (geometry.Ray, float64, float64) {
	o, d, t0, t1 := rayParts(r)
	return geometry.NewRay(o, d), t0, t1
}

// RestAttribute is the name of the second float3 attribute of the harness.
const RestAttribute = "Rest"

// built is the real index, the exhaustive scan and the mesh-level scan.
//
//	tree   the index, asked from the case's mesh through the case's entry point
//	elems  THE SCAN: the elements of the "unrolled twin" of the case - a mesh of
//	       the same topology that stores vertex idx[k] at position k of its
//	       Position attribute and has implied / identity indices and no other
//	       attribute. It says what element i of the case IS (primitive i of a
//	       mesh is made of the vertices its index buffer names, whatever the
//	       attribute and however the vertices are stored) through the plainest
//	       route of the library, so a fault in how the case's own route reads
//	       its index buffer or picks its attribute shows as a disagreement.
//	tris   the twin's triangles (ray primitive of the narrowing traversal)
//	prims  the mesh-level scan: the primitives Mesh.ScanPrimitives hands out for
//	       the case's mesh; Primitive.BoundingBox(attr) / ClosestPoint(attr, q)
//	       are logged next to the scan (nil without a mesh)
type built struct {
	elems []trees.Element
	tree  *trees.OctTree
	tris  []modeling.Tri
	prims []modeling.Primitive
	attr  string
	ident bool
	nopos bool
}

func identity(n int) []int {
	out := make([]int, n)
	for i := range out {
		out[i] = i
	}
	return out
}

func build(c Case) (b built, err error) {
	verts := make([]vector3.Float64, len(c.Verts))
	for i, v := range c.Verts {
		verts[i] = v3(v)
	}
	if c.Kind == "box" {
		n := len(c.Idx) / 2
		b.elems = make([]trees.Element, n)
		for i := 0; i < n; i++ {
			b.elems[i] = trees.BoundingBoxElement(geometry.NewAABBFromPoints(verts[c.Idx[2*i]], verts[c.Idx[2*i+1]]))
		}
		b.ident = true
		if c.Depth < 0 {
			b.tree = trees.NewOctree(b.elems)
		} else {
			b.tree = trees.NewOctreeWithDepth(b.elems, c.Depth)
		}
		return b, nil
	}
	if len(c.Decoy) != 0 && len(c.Decoy) != len(c.Verts) {
		return b, fmt.Errorf("decoy has %d entries for %d vertices", len(c.Decoy), len(c.Verts))
	}
	// the attribute that carries the geometry, and the one that carries the decoy
	b.attr = modeling.PositionAttribute
	if c.Attr != "" {
		b.attr = c.Attr
	}
	other := modeling.PositionAttribute
	if b.attr == modeling.PositionAttribute {
		other = RestAttribute
	}
	v3data := map[string][]vector3.Float64{b.attr: verts}
	if len(c.Decoy) > 0 {
		decoy := make([]vector3.Float64, len(c.Decoy))
		for i, v := range c.Decoy {
			decoy[i] = v3(v)
		}
		v3data[other] = decoy
	}
	_, hasPos := v3data[modeling.PositionAttribute]
	b.nopos = !hasPos

	order := c.Idx
	if len(order) == 0 {
		order = identity(len(verts))
	}
	b.ident = true
	for k, i := range order {
		if i < 0 || i >= len(verts) {
			return b, fmt.Errorf("index %d out of range", i)
		}
		if i != k {
			b.ident = false
		}
	}
	unrolled := make([]vector3.Float64, len(order))
	for k, i := range order {
		unrolled[k] = verts[i]
	}
	twinData := map[string][]vector3.Float64{modeling.PositionAttribute: unrolled}

	var mesh, twin modeling.Mesh
	withData := func(m modeling.Mesh) modeling.Mesh {
		// Position last or first must not matter; set the geometry last
		if d, ok := v3data[other]; ok {
			m = m.SetFloat3Attribute(other, d)
		}
		return m.SetFloat3Attribute(b.attr, verts)
	}
	switch c.Kind {
	case "point":
		if len(c.Idx) == 0 {
			mesh = modeling.NewPointCloud(nil, v3data, nil, nil, nil)
		} else {
			mesh = withData(modeling.NewMesh(modeling.PointTopology, append([]int{}, c.Idx...)))
		}
		twin = modeling.NewPointCloud(nil, twinData, nil, nil, nil)
	case "line":
		if len(c.Idx) == 0 {
			mesh = modeling.NewLineStripMesh(v3data, nil, nil, nil)
		} else {
			mesh = withData(modeling.NewMesh(modeling.LineStripTopology, append([]int{}, c.Idx...)))
		}
		twin = modeling.NewLineStripMesh(twinData, nil, nil, nil)
	case "tri":
		mesh = withData(modeling.NewTriangleMesh(append([]int{}, c.Idx...)))
		twin = modeling.NewTriangleMesh(identity(len(unrolled))).SetFloat3Attribute(modeling.PositionAttribute, unrolled)
	default:
		return b, fmt.Errorf("kind %q is not an octree kind", c.Kind)
	}

	n := twin.PrimitiveCount()
	b.elems = make([]trees.Element, n)
	twin.ScanPrimitives(func(i int, p modeling.Primitive) {
		b.elems[i] = p.Scope(modeling.PositionAttribute)
	})
	if c.Kind == "tri" {
		b.tris = make([]modeling.Tri, n)
		for i := 0; i < n; i++ {
			b.tris[i] = twin.Tri(i)
		}
	}

	b.prims = make([]modeling.Primitive, mesh.PrimitiveCount())
	mesh.ScanPrimitives(func(i int, p modeling.Primitive) {
		b.prims[i] = p
	})

	switch {
	case c.Attr == "" && c.Depth < 0:
		b.tree = mesh.OctTree()
	case c.Attr == "":
		b.tree = mesh.OctTreeDepth(c.Depth)
	case c.Depth < 0:
		b.tree = mesh.OctTreeWithAttributeAndDepth(c.Attr, trees.OctreeDepthFromCount(mesh.PrimitiveCount()))
	default:
		b.tree = mesh.OctTreeWithAttributeAndDepth(c.Attr, c.Depth)
	}
	return b, nil
}

func newBatch(k string, id int) batchLine {
	return batchLine{K: k, Case: id, Fail: []int{}, Nan: []int{}, Nana: []int{}, Mfail: []int{}}
}

func boxOf(bb geometry.AABB, exact *bool) box {
	lo, hi := bb.Min(), bb.Max()
	return box{
		Lo: []int{lat(lo.X(), exact), lat(lo.Y(), exact), lat(lo.Z(), exact)},
		Hi: []int{lat(hi.X(), exact), lat(hi.Y(), exact), lat(hi.Z(), exact)}}
}

func runOctree(enc *json.Encoder, c Case) error {
	var b built
	var berr error
	st := guard(func() { b, berr = build(c) })
	if berr != nil {
		return berr
	}
	tl := treeLine{K: "tree", Case: c.Id, Kind: c.Kind, Depth: c.Depth, St: st, Exact: true,
		Eb: []box{}, Cells: []cell{}, Attr: c.Attr, Ident: b.ident, NoPos: b.nopos, Mst: "NONE", Meb: []box{}}
	if st != "OK" || b.tree == nil {
		if st == "OK" {
			tl.St = "NIL"
		}
		return enc.Encode(tl)
	}
	n := len(b.elems)
	tl.N = n
	bounds := make([]geometry.AABB, n)
	for i, e := range b.elems {
		bounds[i] = e.BoundingBox()
		tl.Eb = append(tl.Eb, boxOf(bounds[i], &tl.Exact))
	}
	if b.prims != nil {
		mexact := true
		tl.Mst = guard(func() {
			for _, p := range b.prims {
				tl.Meb = append(tl.Meb, boxOf(p.BoundingBox(b.attr), &mexact))
			}
		})
		if tl.Mst == "OK" && !mexact {
			tl.Mst = "INEXACT"
		}
	}
	for _, vc := range b.tree.VerifCells() {
		tl.Cells = append(tl.Cells, cell{
			Lo: []int{lat(vc.Min.X(), &tl.Exact), lat(vc.Min.Y(), &tl.Exact), lat(vc.Min.Z(), &tl.Exact)},
			Hi: []int{lat(vc.Max.X(), &tl.Exact), lat(vc.Max.Y(), &tl.Exact), lat(vc.Max.Z(), &tl.Exact)},
			El: ids1(vc.Elements), Ch: ids1(vc.Children)})
	}
	if err := enc.Encode(tl); err != nil {
		return err
	}

	// closest element / closest point
	if len(c.QPts) > 0 {
		line := newBatch("closest", c.Id)
		batch := make([]closestEntry, len(c.QPts))
		forEach(len(c.QPts), func(qi int) {
			q := c.QPts[qi]
			qv := qv3(q, 3)
			bad := false
			e := closestEntry{Tw: q[4], D2: make([]int, n), Cp: make([][]int, n), Mcp: [][]int{}, Rp: []int{0, 0, 0}}
			for i, el := range b.elems {
				p := el.ClosestPoint(qv)
				e.D2[i] = fx(p.DistanceSquared(qv), &bad)
				e.Cp[i] = []int{fx(p.X(), &bad), fx(p.Y(), &bad), fx(p.Z(), &bad)}
			}
			if b.prims != nil {
				mbad := false
				mst := guard(func() {
					for _, pr := range b.prims {
						p := pr.ClosestPoint(b.attr, qv)
						e.Mcp = append(e.Mcp, []int{fx(p.X(), &mbad), fx(p.Y(), &mbad), fx(p.Z(), &mbad)})
					}
				})
				if mst != "OK" || mbad {
					line.mu.Lock()
					line.Mfail = append(line.Mfail, qi+1)
					line.mu.Unlock()
				}
			}
			badAns := false
			st := guard(func() {
				ri, rp := b.tree.ClosestPoint(qv)
				e.Ri = ri + 1
				e.Rp = []int{fx(rp.X(), &badAns), fx(rp.Y(), &badAns), fx(rp.Z(), &badAns)}
			})
			line.note(qi, st, bad, badAns)
			batch[qi] = e
		})
		line.finish()
		line.B = batch
		if err := enc.Encode(line); err != nil {
			return err
		}
		// elements whose bounds contain the point
		line = newBatch("contain", c.Id)
		cb := make([]setEntry, len(c.QPts))
		forEach(len(c.QPts), func(qi int) {
			qv := qv3(c.QPts[qi], 3)
			e := setEntry{Q: c.QPts[qi], Tw: c.QPts[qi][4], Hit: []int{}, Res: []int{}}
			for i := range b.elems {
				if bounds[i].Contains(qv) {
					e.Hit = append(e.Hit, i+1)
				}
			}
			st := guard(func() { e.Res = ids1(b.tree.ElementsContainingPoint(qv)) })
			line.note(qi, st, false, false)
			cb[qi] = e
		})
		line.finish()
		line.B = cb
		if err := enc.Encode(line); err != nil {
			return err
		}
	}

	// elements whose bounds are within a radius
	if len(c.Ranges) > 0 {
		line := newBatch("range", c.Id)
		rb := make([]setEntry, len(c.Ranges))
		forEach(len(c.Ranges), func(qi int) {
			q := c.Ranges[qi]
			qv := qv3(q, 5)
			r := radiusOf(q)
			e := setEntry{Q: q, Tw: q[7], Hit: []int{}, Res: []int{}}
			for i := range b.elems {
				if bounds[i].ClosestPoint(qv).Distance(qv) <= r {
					e.Hit = append(e.Hit, i+1)
				}
			}
			st := guard(func() { e.Res = ids1(b.tree.ElementsWithinRange(qv, r)) })
			line.note(qi, st, false, false)
			rb[qi] = e
		})
		line.finish()
		line.B = rb
		if err := enc.Encode(line); err != nil {
			return err
		}
	}

	// elements whose bounds a ray crosses: list query and passive traversal
	if len(c.Rays) > 0 {
		line := newBatch("ray", c.Id)
		yb := make([]rayEntry, len(c.Rays))
		var listMu sync.Mutex // the list query fills a buffer owned by the tree: one caller at a time
		forEach(len(c.Rays), func(qi int) {
			ray, t0, t1 := rayOf(c.Rays[qi])
			e := rayEntry{Q: c.Rays[qi], Tw: c.Rays[qi][10], Hit: []int{}, Res: []int{}, Trav: []int{}}
			for i := range b.elems {
				if bounds[i].IntersectsRayInRange(ray, t0, t1) {
					e.Hit = append(e.Hit, i+1)
				}
			}
			st := guard(func() {
				// the returned slice is the tree's scratch buffer: copy at once
				listMu.Lock()
				e.Res = ids1(b.tree.ElementsIntersectingRay(ray, t0, t1))
				listMu.Unlock()
				b.tree.TraverseIntersectingRay(ray, t0, t1, func(i int, min, max *float64) {
					e.Trav = append(e.Trav, i+1)
				})
			})
			line.note(qi, st, false, false)
			yb[qi] = e
		})
		line.finish()
		line.B = yb
		if err := enc.Encode(line); err != nil {
			return err
		}
	}

	// nearest ray hit through the narrowing traversal (triangles): the iterator
	// is caller code, as in rendering.Mesh.Hit; the element-level primitive is
	// modeling.Tri.RayIntersects restricted to [min,max].
	if len(c.Rays) > 0 && c.Kind == "tri" {
		line := newBatch("near", c.Id)
		nb := make([]nearEntry, len(c.Rays))
		forEach(len(c.Rays), func(qi int) {
			ray, t0, t1 := rayOf(c.Rays[qi])
			elemHit := func(i int, min, max float64) (float64, bool) {
				p, ok := b.tris[i].RayIntersects(ray)
				if !ok {
					return 0, false
				}
				t := p.Sub(ray.Origin()).Dot(ray.Direction())
				if t < min || t > max {
					return 0, false
				}
				return t, true
			}
			bad, badAns := false, false
			e := nearEntry{Tw: c.Rays[qi][10], Te: make([]int, n), Hitb: []int{}, Vis: []int{}}
			for i := range b.elems {
				e.Te[i] = None
				if t, ok := elemHit(i, t0, t1); ok {
					e.Te[i] = fx(t, &bad)
				}
				if bounds[i].IntersectsRayInRange(ray, t0, t1) {
					e.Hitb = append(e.Hitb, i+1)
				}
			}
			st := guard(func() {
				// the caller keeps its own nearest-so-far (as rendering.Mesh.Hit
				// does): the tree's min/max are per cell, narrowing them only
				// prunes the rest of the current cell and its children
				best := -1
				bestT := 0.
				limit := t1
				b.tree.TraverseIntersectingRay(ray, t0, t1, func(i int, min, max *float64) {
					e.Vis = append(e.Vis, i+1)
					if t, ok := elemHit(i, t0, limit); ok {
						best, bestT, limit = i, t, t
						if t < *max {
							*max = t
						}
					}
				})
				e.Ri = best + 1
				if best >= 0 {
					e.Rt = fx(bestT, &badAns)
				}
			})
			line.note(qi, st, bad, badAns)
			nb[qi] = e
		})
		line.finish()
		line.B = nb
		if err := enc.Encode(line); err != nil {
			return err
		}
	}
	return nil
}

func (l *batchLine) note(qi int, st string, bad, badAns bool) {
	l.mu.Lock()
	defer l.mu.Unlock()
	if st != "OK" {
		l.Fail = append(l.Fail, qi+1)
	}
	if bad {
		l.Nan = append(l.Nan, qi+1)
	}
	if badAns {
		l.Nana = append(l.Nana, qi+1)
	}
}
