package mtlfam

import (
	"image/color"

	"github.com/EliCDavis/polyform/modeling"
	"github.com/EliCDavis/vector/vector2"
	"github.com/EliCDavis/vector/vector3"
)

// ---- cases (as the TLA+ generators print them) -------------------------------

// MatTpl: the content of one material. Colours are [] (nil colour) or
// [kind, r, g, b]; scalars are lattice integers (1/Q; tr 1/DQ); texture paths
// are [] (nil pointer) or [path].
type MatTpl struct {
	Name  string   `json:"name"`
	Kd    []int    `json:"kd"`
	Ka    []int    `json:"ka"`
	Ks    []int    `json:"ks"`
	Ns    int      `json:"ns"`
	Ni    int      `json:"ni"`
	Tr    int      `json:"tr"`
	MapKd []string `json:"mapkd"`
	MapKs []string `json:"mapks"`
	Norm  []string `json:"norm"`
}

type ARange struct {
	N    int `json:"n"`
	Slot int `json:"slot"` // 0 = nil material, else 1-based index into slots
}

type AMesh struct {
	Name   string   `json:"name"`
	Ranges []ARange `json:"ranges"`
	Nt     int      `json:"nt"`
}

type Seeded struct {
	Seed      int64 `json:"seed"`
	NMesh     int   `json:"nmesh"`
	MaxRanges int   `json:"maxranges"`
}

type PairFile struct {
	Rel  string    `json:"rel"`
	Kind string    `json:"kind"` // "obj" | "mtl"
	Obj  []ObjStmt `json:"obj"`
	Mtl  []MtlStmt `json:"mtl"`
}

type Case struct {
	K      string     `json:"k"` // "mw" | "mr" | "sv" | "pl"
	Tag    string     `json:"tag"`
	Enc    string     `json:"enc"`
	Q      int        `json:"q"`
	Slots  []MatTpl   `json:"slots,omitempty"`
	Meshes []AMesh    `json:"meshes,omitempty"`
	Pk     int        `json:"pk"`
	Seeded *Seeded    `json:"seeded,omitempty"`
	Gen    []MtlStmt  `json:"gen,omitempty"`
	Files  []PairFile `json:"files,omitempty"`
	Style  int        `json:"style"`
}

// ---- colours -------------------------------------------------------------------

// rawColor returns its channels as they are: a colour type that does not keep
// RGBA() within [0, 0xffff] (out-of-range channels).
type rawColor struct{ r, g, b, a uint32 }

func (c rawColor) RGBA() (uint32, uint32, uint32, uint32) { return c.r, c.g, c.b, c.a }

func buildColour(c []int) color.Color {
	if len(c) == 0 {
		return nil
	}
	switch c[0] {
	case 1:
		return color.RGBA{uint8(c[1]), uint8(c[2]), uint8(c[3]), 255}
	case 2:
		return color.RGBA64{uint16(c[1]), uint16(c[2]), uint16(c[3]), 65535}
	case 3:
		return color.Gray{Y: uint8(c[1])}
	case 4:
		return color.NRGBA{uint8(c[1]), uint8(c[2]), uint8(c[3]), 255}
	}
	return rawColor{uint32(c[1]), uint32(c[2]), uint32(c[3]), 65535}
}

func strPtr(s []string) *string {
	if len(s) == 0 {
		return nil
	}
	v := s[0]
	return &v
}

func buildMaterial(t MatTpl, enc Enc) *modeling.Material {
	return &modeling.Material{
		Name:               t.Name,
		DiffuseColor:       buildColour(t.Kd),
		AmbientColor:       buildColour(t.Ka),
		SpecularColor:      buildColour(t.Ks),
		SpecularHighlight:  enc.Val(t.Ns),
		OpticalDensity:     enc.Val(t.Ni),
		Transparency:       float64(t.Tr) / DQ,
		ColorTextureURI:    strPtr(t.MapKd),
		SpecularTextureURI: strPtr(t.MapKs),
		NormalTextureURI:   strPtr(t.Norm),
	}
}

// ---- meshes --------------------------------------------------------------------

type namedMesh struct {
	Name string
	Mesh modeling.Mesh
}

// geometry: nt triangles on the lattice, distinct values per (mesh, vertex,
// component); even meshes unwelded, odd meshes a fan; uvs / normals on some.
func geometry(mi, nt int, enc Enc) modeling.Mesh {
	idx := []int{}
	nv := 3 * nt
	if mi%2 == 1 {
		nv = nt + 2
		for t := 0; t < nt; t++ {
			idx = append(idx, 0, t+1, t+2)
		}
	} else {
		for k := 0; k < 3*nt; k++ {
			idx = append(idx, k)
		}
	}
	pos := make([]vector3.Float64, nv)
	for j := range pos {
		pos[j] = vector3.New(enc.Val((4*mi+j)*256), enc.Val(j*1024+mi), enc.Val(-(mi*512 + j)))
	}
	m := modeling.NewTriangleMesh(idx).SetFloat3Attribute(modeling.PositionAttribute, pos)
	if mi%3 == 1 {
		uv := make([]vector2.Float64, nv)
		for j := range uv {
			uv[j] = vector2.New(enc.Val(j*128+mi), enc.Val(1024-mi*64-j))
		}
		m = m.SetFloat2Attribute(modeling.TexCoordAttribute, uv)
	}
	if mi%3 == 2 {
		n := make([]vector3.Float64, nv)
		for j := range n {
			n[j] = vector3.New(enc.Val(-mi), enc.Val((j%2)*1024), enc.Val(1024-j*3))
		}
		m = m.SetFloat3Attribute(modeling.NormalAttribute, n)
	}
	return m
}

func buildMeshes(c Case, enc Enc) []namedMesh {
	mats := make([]*modeling.Material, len(c.Slots))
	for i, t := range c.Slots {
		mats[i] = buildMaterial(t, enc)
	}
	out := []namedMesh{}
	for mi, a := range c.Meshes {
		m := geometry(mi, a.Nt, Enc{Mode: "lat", Q: 1024})
		if len(a.Ranges) > 0 {
			mm := make([]modeling.MeshMaterial, len(a.Ranges))
			for i, r := range a.Ranges {
				var p *modeling.Material
				if r.Slot > 0 {
					p = mats[r.Slot-1]
				}
				mm[i] = modeling.MeshMaterial{PrimitiveCount: r.N, Material: p}
			}
			m = m.SetMaterials(mm)
		}
		out = append(out, namedMesh{Name: a.Name, Mesh: m})
	}
	return out
}
