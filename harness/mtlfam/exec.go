package mtlfam

import (
	"bufio"
	"bytes"
	"encoding/json"
	"fmt"
	"os"
	"path"
	"path/filepath"
	"sort"
	"strings"

	"github.com/EliCDavis/polyform/formats/obj"
	"github.com/EliCDavis/polyform/modeling"
)

// PathSpec: where a "sv" case saves, relative to its sandbox directory.
type PathSpec struct {
	Rel string   `json:"rel"` // path of the OBJ file, '/' separated
	Pre []string `json:"pre"` // directories that exist before the call
	Cwd bool     `json:"cwd"` // TRUE: the call gets the relative path, the sandbox is the working directory
}

// ---- trace lines ---------------------------------------------------------------

type mwLine struct {
	K     string    `json:"k"`
	Id    int       `json:"id"`
	Op    string    `json:"op"`
	One   int       `json:"one"`
	Srcs  []SrcMat  `json:"srcs"`
	Werr  string    `json:"werr"`
	Stmts []MtlStmt `json:"stmts"`
	Rerr  string    `json:"rerr"`
	Rd    []ObsMat  `json:"rd"`
	Note  string    `json:"note"`
}

type mrLine struct {
	K     string    `json:"k"`
	Id    int       `json:"id"`
	One   int       `json:"one"`
	Gen   []MtlStmt `json:"gen"`
	Stmts []MtlStmt `json:"stmts"`
	Rerr  string    `json:"rerr"`
	Rd    []ObsMat  `json:"rd"`
	Note  string    `json:"note"`
}

type fileEnt struct {
	Rel  string `json:"rel"`
	Mode int    `json:"mode"`
}

type libRef struct {
	Item string `json:"item"`
	Hit  int    `json:"hit"` // 1-based index into mtls of the file the item names (relative to the OBJ), 0: no such file
	// LineHit: the same for the items of the whole statement read as ONE file
	// name with blanks in it (not what the format says; logged so that the
	// specification can tell a name split at a blank from a wrong reference)
	LineHit int `json:"linehit"`
}

type mtlFile struct {
	Rel   string    `json:"rel"`
	Stmts []MtlStmt `json:"stmts"`
}

type svLine struct {
	K      string    `json:"k"`
	Id     int       `json:"id"`
	Op     string    `json:"op"`
	One    int       `json:"one"`
	Path   PathSpec  `json:"path"`
	Src    []SrcMesh `json:"src"`
	Serr   string    `json:"serr"`
	ObjHit int       `json:"objhit"` // 1 when a regular file exists at the requested path
	Files  []fileEnt `json:"files"`  // every regular file in the sandbox after the call
	Dirs   []fileEnt `json:"dirs"`   // every directory the call created
	Obj    []ObjStmt `json:"obj"`
	Libs   []libRef  `json:"libs"`
	Mtls   []mtlFile `json:"mtls"` // every regular file other than the OBJ, read as MTL
	Lerr   string    `json:"lerr"`
	Ld     []ObsMesh `json:"ld"`
	Note   string    `json:"note"`
}

type plLine struct {
	K     string    `json:"k"`
	Id    int       `json:"id"`
	One   int       `json:"one"`
	GObj  []ObjStmt `json:"gobj"`
	GMtls []mtlFile `json:"gmtls"`
	Obj   []ObjStmt `json:"obj"`
	Libs  []libRef  `json:"libs"`
	Mtls  []mtlFile `json:"mtls"`
	Lerr  string    `json:"lerr"`
	Ld    []ObsMesh `json:"ld"`
	Note  string    `json:"note"`
}

// ---- mw: materials -> WriteMaterials -> tokeniser -> ReadMaterials ---------------

func readMaterials(text []byte, enc Enc) (string, string, []ObsMat) {
	var got []modeling.Material
	msg, detail := guard(func() error {
		var err error
		got, err = obj.ReadMaterials(bytes.NewReader(text))
		return err
	})
	rd := []ObsMat{}
	if msg != "" {
		return msg, detail, rd
	}
	pmsg, pdetail := guard(func() error {
		for i := range got {
			rd = append(rd, projObsMat(&got[i], enc))
		}
		return nil
	})
	if pmsg != "" {
		return "PROJECT-" + pmsg, pdetail, []ObsMat{}
	}
	return "", "", rd
}

func runMw(id int, c Case, keep string) mwLine {
	enc := Enc{Mode: c.Enc, Q: c.Q}
	var meshes []namedMesh
	if c.Seeded != nil {
		meshes = buildSeeded(*c.Seeded)
	} else {
		meshes = buildMeshes(c, enc)
	}
	ln := mwLine{K: "mw", Id: id, One: enc.Obs(1), Srcs: []SrcMat{}, Stmts: []MtlStmt{}, Rd: []ObsMat{}}
	pids := pidTable{}
	var flat []modeling.MeshMaterial
	for _, m := range meshes {
		flat = append(flat, m.Mesh.Materials()...)
	}
	for _, mm := range flat {
		ln.Srcs = append(ln.Srcs, projSrcMat(mm.Material, enc, pids))
	}
	var buf bytes.Buffer
	if len(meshes) == 1 {
		ln.Op = "WriteMaterialsFromMesh"
		ln.Werr, ln.Note = guard(func() error { return obj.WriteMaterialsFromMesh(meshes[0].Mesh, &buf) })
	} else {
		ln.Op = "WriteMaterials"
		ln.Werr, ln.Note = guard(func() error { return obj.WriteMaterials(flat, &buf) })
	}
	if ln.Werr != "" {
		return ln
	}
	if keep != "" {
		_ = os.WriteFile(fmt.Sprintf("%s/case%d.mtl", keep, id), buf.Bytes(), 0o644)
	}
	ln.Stmts = TokeniseMtl(buf.Bytes(), enc)
	ln.Rerr, ln.Note, ln.Rd = readMaterials(buf.Bytes(), enc)
	return ln
}

// ---- mr: MTL text -> ReadMaterials -------------------------------------------------

func runMr(id int, c Case, keep string) mrLine {
	enc := Enc{Mode: c.Enc, Q: c.Q}
	ln := mrLine{K: "mr", Id: id, One: enc.Obs(1), Gen: c.Gen, Stmts: []MtlStmt{}, Rd: []ObsMat{}}
	text := RenderMtl(c.Gen, enc, c.Style)
	if keep != "" {
		_ = os.WriteFile(fmt.Sprintf("%s/case%d.mtl", keep, id), text, 0o644)
	}
	ln.Stmts = TokeniseMtl(text, enc)
	ln.Rerr, ln.Note, ln.Rd = readMaterials(text, enc)
	return ln
}

// ---- the file system -----------------------------------------------------------------

// forceRemove removes a tree even when the code under test created
// directories nobody may enter.
func forceRemove(root string) {
	_ = filepath.WalkDir(root, func(p string, d os.DirEntry, err error) error {
		if err == nil && d.IsDir() {
			_ = os.Chmod(p, 0o755)
		}
		return nil
	})
	_ = os.RemoveAll(root)
}

// survey lists the regular files and directories below root ('/' separated,
// relative); existed: directories that were there before the call.
func survey(root string, existed map[string]bool) (files, dirs []fileEnt) {
	files, dirs = []fileEnt{}, []fileEnt{}
	var walk func(rel string)
	walk = func(rel string) {
		full := filepath.Join(root, filepath.FromSlash(rel))
		info, err := os.Lstat(full)
		if err != nil {
			return
		}
		if info.IsDir() {
			if rel != "" && !existed[rel] {
				dirs = append(dirs, fileEnt{Rel: rel, Mode: int(info.Mode().Perm())})
			}
			if info.Mode().Perm()&0o500 != 0o500 {
				_ = os.Chmod(full, info.Mode().Perm()|0o500) // look inside; the mode is already logged
			}
			ents, _ := os.ReadDir(full)
			names := []string{}
			for _, e := range ents {
				names = append(names, e.Name())
			}
			sort.Strings(names)
			for _, n := range names {
				walk(path.Join(rel, n))
			}
			if info.Mode().Perm()&0o500 != 0o500 {
				_ = os.Chmod(full, info.Mode().Perm())
			}
			return
		}
		files = append(files, fileEnt{Rel: rel, Mode: int(info.Mode().Perm())})
	}
	walk("")
	return files, dirs
}

// resolveLibs: what each file name of the mtllib statements names, relative
// to the directory of the OBJ file (the rule of the format).
func resolveLibs(stmts []ObjStmt, objRel string, mtls []mtlFile) []libRef {
	out := []libRef{}
	for _, st := range stmts {
		if st.T != "mtllib" {
			continue
		}
		find := func(name string) int {
			target := path.Join(path.Dir(objRel), filepath.ToSlash(name))
			for i, m := range mtls {
				if m.Rel == target {
					return i + 1
				}
			}
			return 0
		}
		whole := find(strings.Join(st.L, " "))
		for _, item := range st.L {
			out = append(out, libRef{Item: item, Hit: find(item), LineHit: whole})
		}
	}
	return out
}

func loadAndProject(target string, enc Enc) (string, string, []ObsMesh) {
	var got []obj.ObjMesh
	msg, detail := guard(func() error {
		var err error
		got, err = obj.Load(target)
		return err
	})
	ld := []ObsMesh{}
	if msg != "" {
		return msg, detail, ld
	}
	pmsg, pdetail := guard(func() error {
		for _, g := range got {
			ld = append(ld, projObsMesh(g.Name, g.Mesh, enc))
		}
		return nil
	})
	if pmsg != "" {
		return "PROJECT-" + pmsg, pdetail, []ObsMesh{}
	}
	return "", "", ld
}

// inSandbox prepares the sandbox of one case and runs f with the path to hand
// to the code under test.
func inSandbox(root string, id int, p PathSpec, keep string, f func(sandbox, target string)) error {
	sandbox := filepath.Join(root, fmt.Sprintf("c%d", id))
	forceRemove(sandbox)
	if err := os.MkdirAll(sandbox, 0o755); err != nil {
		return err
	}
	for _, d := range p.Pre {
		if err := os.MkdirAll(filepath.Join(sandbox, filepath.FromSlash(d)), 0o755); err != nil {
			return err
		}
	}
	target := filepath.Join(sandbox, filepath.FromSlash(p.Rel))
	if p.Cwd {
		old, err := os.Getwd()
		if err != nil {
			return err
		}
		if err := os.Chdir(sandbox); err != nil {
			return err
		}
		defer os.Chdir(old)
		target = filepath.FromSlash(p.Rel)
	}
	f(sandbox, target)
	if keep != "" {
		dst := filepath.Join(keep, fmt.Sprintf("case%d", id))
		forceRemove(dst)
		_ = os.Rename(sandbox, dst)
	}
	forceRemove(sandbox)
	return nil
}

func existedDirs(p PathSpec) map[string]bool {
	ex := map[string]bool{}
	for _, d := range p.Pre {
		for d != "." && d != "" && d != "/" {
			ex[d] = true
			d = path.Dir(d)
		}
	}
	return ex
}

// ---- sv: meshes -> obj.Save / SaveAll -> files -> obj.Load ----------------------------

func runSv(id int, c Case, p PathSpec, root, keep string) (svLine, error) {
	enc := Enc{Mode: c.Enc, Q: c.Q}
	var meshes []namedMesh
	if c.Seeded != nil {
		meshes = buildSeeded(*c.Seeded)
	} else {
		meshes = buildMeshes(c, enc)
	}
	ln := svLine{K: "sv", Id: id, One: enc.Obs(1), Path: p, Src: []SrcMesh{}, Files: []fileEnt{}, Dirs: []fileEnt{},
		Obj: []ObjStmt{}, Libs: []libRef{}, Mtls: []mtlFile{}, Ld: []ObsMesh{}}
	if ln.Path.Pre == nil {
		ln.Path.Pre = []string{}
	}
	pids := pidTable{}
	for _, m := range meshes {
		ln.Src = append(ln.Src, projSrcMesh(m.Name, m.Mesh, enc, pids))
	}
	err := inSandbox(root, id, p, keep, func(sandbox, target string) {
		if len(meshes) == 1 && meshes[0].Name == "" {
			ln.Op = "Save"
			ln.Serr, ln.Note = guard(func() error { return obj.Save(target, meshes[0].Mesh) })
		} else {
			ln.Op = "SaveAll"
			all := map[string]modeling.Mesh{}
			for _, m := range meshes {
				all[m.Name] = m.Mesh
			}
			ln.Serr, ln.Note = guard(func() error { return obj.SaveAll(target, all) })
		}
		ln.Files, ln.Dirs = survey(sandbox, existedDirs(p))
		if ln.Serr != "" {
			return
		}
		objRel := path.Clean(p.Rel)
		for _, f := range ln.Files {
			data, rerr := os.ReadFile(filepath.Join(sandbox, filepath.FromSlash(f.Rel)))
			if rerr != nil {
				continue
			}
			if f.Rel == objRel {
				ln.ObjHit = 1
				ln.Obj = TokeniseObj(data, posEnc)
			} else {
				ln.Mtls = append(ln.Mtls, mtlFile{Rel: f.Rel, Stmts: TokeniseMtl(data, enc)})
			}
		}
		ln.Libs = resolveLibs(ln.Obj, objRel, ln.Mtls)
		if ln.ObjHit == 0 {
			return
		}
		var note string
		ln.Lerr, note, ln.Ld = loadAndProject(target, enc)
		if ln.Lerr != "" {
			ln.Note = note
		}
	})
	return ln, err
}

// ---- pl: a hand-made pair of files -> obj.Load ------------------------------------------

func runPl(id int, c Case, root, keep string) (plLine, error) {
	enc := Enc{Mode: c.Enc, Q: c.Q}
	ln := plLine{K: "pl", Id: id, One: enc.Obs(1), GObj: []ObjStmt{}, GMtls: []mtlFile{}, Obj: []ObjStmt{}, Libs: []libRef{},
		Mtls: []mtlFile{}, Ld: []ObsMesh{}}
	objRel := ""
	for _, f := range c.Files {
		if f.Kind == "obj" {
			objRel = path.Clean(f.Rel)
		}
	}
	if objRel == "" {
		return ln, fmt.Errorf("case %d: pair without OBJ file", id)
	}
	err := inSandbox(root, id, PathSpec{Rel: objRel}, keep, func(sandbox, target string) {
		for fi, f := range c.Files {
			full := filepath.Join(sandbox, filepath.FromSlash(f.Rel))
			_ = os.MkdirAll(filepath.Dir(full), 0o755)
			var data []byte
			if f.Kind == "obj" {
				data = RenderObj(f.Obj, posEnc, c.Style+fi)
				ln.GObj = f.Obj
				ln.Obj = TokeniseObj(data, posEnc)
			} else {
				data = RenderMtl(f.Mtl, enc, c.Style+fi)
				ln.GMtls = append(ln.GMtls, mtlFile{Rel: path.Clean(f.Rel), Stmts: f.Mtl})
				ln.Mtls = append(ln.Mtls, mtlFile{Rel: path.Clean(f.Rel), Stmts: TokeniseMtl(data, enc)})
			}
			_ = os.WriteFile(full, data, 0o644)
		}
		ln.Libs = resolveLibs(ln.Obj, objRel, ln.Mtls)
		ln.Lerr, ln.Note, ln.Ld = loadAndProject(target, enc)
	})
	return ln, err
}

// ---- driver --------------------------------------------------------------------------------

type caseWithPath struct {
	Case
	Path PathSpec `json:"path"`
}

// RunCases executes cases (ndjson) on the real code and writes the trace.
// sandbox: scratch directory for the cases that touch the file system;
// keep != "": leave the produced files there (for replays).
func RunCases(in, out, sandbox, keep string) error {
	fi, err := os.Open(in)
	if err != nil {
		return err
	}
	defer fi.Close()
	fo, err := os.Create(out)
	if err != nil {
		return err
	}
	defer fo.Close()
	if sandbox == "" {
		return fmt.Errorf("-sandbox is required")
	}
	sandbox, err = filepath.Abs(sandbox)
	if err != nil {
		return err
	}
	if strings.HasPrefix(sandbox, os.TempDir()+string(filepath.Separator)) && os.Getenv("VERIF_ALLOW_TMP") == "" {
		// the worktrees of parallel builders live under /tmp; anything else there is refused
		if !strings.Contains(sandbox, string(filepath.Separator)+".work"+string(filepath.Separator)) {
			return fmt.Errorf("sandbox %s is not under a .work scratch directory", sandbox)
		}
	}
	if err := os.MkdirAll(sandbox, 0o755); err != nil {
		return err
	}
	if keep != "" {
		if keep, err = filepath.Abs(keep); err != nil {
			return err
		}
		if err := os.MkdirAll(keep, 0o755); err != nil {
			return err
		}
	}
	w := bufio.NewWriterSize(fo, 1<<20)
	defer w.Flush()
	encj := json.NewEncoder(w)
	encj.SetEscapeHTML(false)
	sc := bufio.NewScanner(fi)
	sc.Buffer(make([]byte, 1<<20), 1<<28)
	id := 0
	for sc.Scan() {
		if len(sc.Bytes()) == 0 {
			continue
		}
		var c caseWithPath
		if err := json.Unmarshal(sc.Bytes(), &c); err != nil {
			return fmt.Errorf("case %d: %w", id, err)
		}
		var line interface{}
		switch c.K {
		case "mw":
			line = runMw(id, c.Case, keep)
		case "mr":
			line = runMr(id, c.Case, keep)
		case "sv":
			line, err = runSv(id, c.Case, c.Path, sandbox, keep)
		case "pl":
			line, err = runPl(id, c.Case, sandbox, keep)
		default:
			return fmt.Errorf("case %d: unknown kind %q", id, c.K)
		}
		if err != nil {
			return fmt.Errorf("case %d: %w", id, err)
		}
		if err := encj.Encode(line); err != nil {
			return err
		}
		id++
	}
	return sc.Err()
}
