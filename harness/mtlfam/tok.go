package mtlfam

import (
	"math/big"
	"strconv"
	"strings"
)

// ---- OBJ (copy of harness/objstl/obj_tok.go, extended by mtllib) -------------

// ObjStmt is one OBJ statement as ObjFormat.tla defines it, plus
// t = "mtllib" with L = the file names of the statement.
type ObjStmt struct {
	T string   `json:"t"`
	X []int    `json:"x"`
	C [][]int  `json:"c"`
	S string   `json:"s"`
	L []string `json:"l"`
}

func ostmt(t string) ObjStmt { return ObjStmt{T: t, X: []int{}, C: [][]int{}, S: "", L: []string{}} }

// TokeniseObj reads OBJ text into statements. Written from the format
// description (B1 "Object Files (.obj)"): line oriented, '#' starts a
// comment, items separated by blanks/tabs, the first item is the keyword.
// It knows v, vt, vn, g, usemtl, mtllib and f; every other keyword is an "x"
// statement; a line of a known keyword that cannot be read is "bad". A
// mtllib statement names one or more files separated by blanks.
func TokeniseObj(text []byte, enc Enc) []ObjStmt {
	out := []ObjStmt{}
	for _, raw := range strings.Split(string(text), "\n") {
		line := strings.TrimRight(raw, "\r")
		if i := strings.IndexByte(line, '#'); i >= 0 {
			if strings.TrimSpace(line[:i]) == "" {
				if strings.TrimSpace(line) != "" {
					out = append(out, ostmt("x"))
				}
				continue
			}
			line = line[:i]
		}
		items := splitBlank(line)
		if len(items) == 0 {
			continue
		}
		switch items[0] {
		case "v":
			out = append(out, numbers("v", items[1:], 3, 4, 3, enc))
		case "vn":
			out = append(out, numbers("vn", items[1:], 3, 3, 3, enc))
		case "vt":
			st := numbers("vt", items[1:], 1, 3, 2, enc)
			if st.T == "vt" && len(st.X) == 1 {
				st.X = append(st.X, enc.Obs(0))
			}
			out = append(out, st)
		case "g":
			st := ostmt("g")
			st.S = strings.Join(items[1:], " ")
			out = append(out, st)
		case "usemtl":
			st := ostmt("usemtl")
			st.S = strings.Join(items[1:], " ")
			out = append(out, st)
		case "mtllib":
			st := ostmt("mtllib")
			st.L = append(st.L, items[1:]...)
			if len(st.L) == 0 {
				st = ostmt("bad")
			}
			out = append(out, st)
		case "f":
			out = append(out, face(items[1:]))
		default:
			out = append(out, ostmt("x"))
		}
	}
	return out
}

func splitBlank(s string) []string {
	return strings.FieldsFunc(s, func(r rune) bool { return r == ' ' || r == '\t' })
}

func numbers(t string, items []string, min, max, keep int, enc Enc) ObjStmt {
	if len(items) < min || len(items) > max {
		return ostmt("bad")
	}
	st := ostmt(t)
	for _, it := range items {
		x, err := strconv.ParseFloat(it, 64)
		if err != nil {
			return ostmt("bad")
		}
		st.X = append(st.X, enc.Obs(x))
	}
	if len(st.X) > keep {
		st.X = st.X[:keep]
	}
	return st
}

func face(items []string) ObjStmt {
	st := ostmt("f")
	if len(items) < 3 {
		return ostmt("bad")
	}
	for _, it := range items {
		parts := strings.Split(it, "/")
		if len(parts) > 3 {
			return ostmt("bad")
		}
		c := []int{0, 0, 0}
		for k, p := range parts {
			if p == "" {
				if k == 0 {
					return ostmt("bad")
				}
				continue
			}
			n, err := strconv.Atoi(p)
			if err != nil || n == 0 {
				return ostmt("bad")
			}
			c[k] = n
		}
		st.C = append(st.C, c)
	}
	return st
}

// ---- MTL ---------------------------------------------------------------------

// MtlStmt is one MTL statement as MtlFormat.tla defines it.
type MtlStmt struct {
	T  string `json:"t"`
	S  string `json:"s"`
	Nm []int  `json:"nm"`
	X  []int  `json:"x"`
}

func mstmt(t string) MtlStmt { return MtlStmt{T: t, S: "", Nm: []int{}, X: []int{}} }

func trimBlank(s string) string { return strings.Trim(s, " \t") }

// TokeniseMtl reads MTL text into statements. Written from the format
// description ("Material Library File (.mtl)", Alias|Wavefront): line
// oriented; a line whose first non-blank character is '#' is a comment; the
// first item is the keyword. newmtl, map_Kd, map_Ks, map_Bump and norm take
// the rest of the line (a name / a file name; options of the map statements
// are not modelled). Kd, Ka, Ks take "r g b" or "r" (g = b = r); their
// "spectral" and "xyz" forms are skipped ("x"). Ns, Ni, d take one number
// ("d -halo f" is skipped). Every other keyword is "x"; a line of a known
// keyword that cannot be read is "bad".
func TokeniseMtl(text []byte, enc Enc) []MtlStmt {
	out := []MtlStmt{}
	for _, raw := range strings.Split(string(text), "\n") {
		line := trimBlank(strings.TrimRight(raw, "\r"))
		if line == "" {
			continue
		}
		if line[0] == '#' {
			out = append(out, mstmt("x"))
			continue
		}
		key := line
		rest := ""
		if i := strings.IndexAny(line, " \t"); i >= 0 {
			key, rest = line[:i], trimBlank(line[i:])
		}
		switch key {
		case "newmtl":
			st := mstmt("newmtl")
			st.S = rest
			st.Nm = codes(rest)
			out = append(out, st)
		case "map_Kd", "map_Ks", "map_Bump", "norm":
			st := mstmt(key)
			st.S = rest
			out = append(out, st)
		case "Kd", "Ka", "Ks":
			items := splitBlank(rest)
			if len(items) > 0 && (items[0] == "spectral" || items[0] == "xyz") {
				out = append(out, mstmt("x"))
				continue
			}
			if len(items) != 1 && len(items) != 3 {
				out = append(out, mstmt("bad"))
				continue
			}
			st := mstmt(key)
			for _, it := range items {
				k, ok := ratUnits(it, CQ)
				if !ok {
					st = mstmt("bad")
					break
				}
				st.X = append(st.X, k)
			}
			out = append(out, st)
		case "Ns", "Ni", "d":
			items := splitBlank(rest)
			if key == "d" && len(items) > 0 && items[0] == "-halo" {
				out = append(out, mstmt("x"))
				continue
			}
			if len(items) != 1 {
				out = append(out, mstmt("bad"))
				continue
			}
			x, err := strconv.ParseFloat(items[0], 64)
			if err != nil {
				out = append(out, mstmt("bad"))
				continue
			}
			st := mstmt(key)
			if key == "d" {
				k := lattice(x, DQ)
				st.X = []int{k, k}
			} else {
				st.X = enc.Src(x)
			}
			out = append(out, st)
		default:
			out = append(out, mstmt("x"))
		}
	}
	return out
}

// ratUnits reads a decimal number exactly and returns it in units of 1/q
// (OffLattice when it is not a multiple of 1/q or is huge).
func ratUnits(tok string, q int) (int, bool) {
	r, ok := new(big.Rat).SetString(tok)
	if !ok || strings.ContainsAny(tok, "/") {
		return 0, false
	}
	r.Mul(r, big.NewRat(int64(q), 1))
	if !r.IsInt() || r.Num().BitLen() > 28 {
		return OffLattice, true
	}
	return int(r.Num().Int64()), true
}
