package mtlfam

import (
	"image/color"

	"github.com/EliCDavis/polyform/modeling"
)

var posEnc = Enc{Mode: "lat", Q: 1024}

// SrcMat / ObsMat: a material read through its public fields (MtlFormat.tla).
type SrcMat struct {
	Nil   bool     `json:"nil"`
	Pid   int      `json:"pid"` // identity of the *Material (1.. in order of first use; 0 = nil)
	Nm    []int    `json:"nm"`
	Name  string   `json:"name"`
	Kd    []int    `json:"kd"`
	Ka    []int    `json:"ka"`
	Ks    []int    `json:"ks"`
	Ns    []int    `json:"ns"`
	Ni    []int    `json:"ni"`
	Tr    []int    `json:"tr"`
	MapKd []string `json:"mapkd"`
	MapKs []string `json:"mapks"`
	Norm  []string `json:"norm"`
}

type ObsMat struct {
	Nil   bool     `json:"nil"`
	Nm    []int    `json:"nm"`
	Name  string   `json:"name"`
	Kd    []int    `json:"kd"`
	Ka    []int    `json:"ka"`
	Ks    []int    `json:"ks"`
	Ns    int      `json:"ns"`
	Ni    int      `json:"ni"`
	Tr    int      `json:"tr"`
	MapKd []string `json:"mapkd"`
	MapKs []string `json:"mapks"`
	Norm  []string `json:"norm"`
}

func projColour(c color.Color) []int {
	if c == nil {
		return []int{}
	}
	r, g, b, a := c.RGBA()
	cl := func(x uint32) int {
		if x > 1<<24 {
			return 1 << 24
		}
		return int(x)
	}
	return []int{cl(r), cl(g), cl(b), cl(a)}
}

func projStr(p *string) []string {
	if p == nil {
		return []string{}
	}
	return []string{*p}
}

type pidTable map[*modeling.Material]int

func (t pidTable) of(m *modeling.Material) int {
	if m == nil {
		return 0
	}
	if id, ok := t[m]; ok {
		return id
	}
	t[m] = len(t) + 1
	return t[m]
}

func projSrcMat(m *modeling.Material, enc Enc, pids pidTable) SrcMat {
	if m == nil {
		return SrcMat{Nil: true, Nm: []int{}, Kd: []int{}, Ka: []int{}, Ks: []int{}, Ns: []int{0, 0}, Ni: []int{0, 0}, Tr: []int{0, 0},
			MapKd: []string{}, MapKs: []string{}, Norm: []string{}}
	}
	tr := lattice(m.Transparency, DQ)
	return SrcMat{Pid: pids.of(m), Nm: codes(m.Name), Name: m.Name,
		Kd: projColour(m.DiffuseColor), Ka: projColour(m.AmbientColor), Ks: projColour(m.SpecularColor),
		Ns: enc.Src(m.SpecularHighlight), Ni: enc.Src(m.OpticalDensity), Tr: []int{tr, tr},
		MapKd: projStr(m.ColorTextureURI), MapKs: projStr(m.SpecularTextureURI), Norm: projStr(m.NormalTextureURI)}
}

func projObsMat(m *modeling.Material, enc Enc) ObsMat {
	if m == nil {
		return ObsMat{Nil: true, Nm: []int{}, Kd: []int{}, Ka: []int{}, Ks: []int{}, MapKd: []string{}, MapKs: []string{}, Norm: []string{}}
	}
	return ObsMat{Nm: codes(m.Name), Name: m.Name,
		Kd: projColour(m.DiffuseColor), Ka: projColour(m.AmbientColor), Ks: projColour(m.SpecularColor),
		Ns: enc.Obs(m.SpecularHighlight), Ni: enc.Obs(m.OpticalDensity), Tr: lattice(m.Transparency, DQ),
		MapKd: projStr(m.ColorTextureURI), MapKs: projStr(m.SpecularTextureURI), Norm: projStr(m.NormalTextureURI)}
}

type SrcRange struct {
	N   int    `json:"n"`
	Mat SrcMat `json:"mat"`
}

type ObsRange struct {
	N   int    `json:"n"`
	Mat ObsMat `json:"mat"`
}

// SrcMesh / ObsMesh: a mesh read through its public observers, in the shape
// ObjFormat.tla expects (name, idx, pos, uv, nrm) plus the material ranges.
type SrcMesh struct {
	Name   string     `json:"name"`
	Idx    []int      `json:"idx"`
	Pos    [][][]int  `json:"pos"`
	Uv     [][][]int  `json:"uv"`
	Nrm    [][][]int  `json:"nrm"`
	Ranges []SrcRange `json:"ranges"`
}

type ObsMesh struct {
	Name   string     `json:"name"`
	Idx    []int      `json:"idx"`
	Pos    [][]int    `json:"pos"`
	Uv     [][]int    `json:"uv"`
	Nrm    [][]int    `json:"nrm"`
	Ranges []ObsRange `json:"ranges"`
}

func projIdx(m modeling.Mesh) []int {
	out := []int{}
	idx := m.Indices()
	for i := 0; i < idx.Len(); i++ {
		out = append(out, idx.At(i))
	}
	return out
}

func projSrcMesh(name string, m modeling.Mesh, enc Enc, pids pidTable) SrcMesh {
	p := SrcMesh{Name: name, Idx: projIdx(m), Pos: [][][]int{}, Uv: [][][]int{}, Nrm: [][][]int{}, Ranges: []SrcRange{}}
	if m.HasFloat3Attribute(modeling.PositionAttribute) {
		a := m.Float3Attribute(modeling.PositionAttribute)
		for i := 0; i < a.Len(); i++ {
			v := a.At(i)
			p.Pos = append(p.Pos, posEnc.SrcVec(v.X(), v.Y(), v.Z()))
		}
	}
	if m.HasFloat2Attribute(modeling.TexCoordAttribute) {
		a := m.Float2Attribute(modeling.TexCoordAttribute)
		for i := 0; i < a.Len(); i++ {
			v := a.At(i)
			p.Uv = append(p.Uv, posEnc.SrcVec(v.X(), v.Y()))
		}
	}
	if m.HasFloat3Attribute(modeling.NormalAttribute) {
		a := m.Float3Attribute(modeling.NormalAttribute)
		for i := 0; i < a.Len(); i++ {
			v := a.At(i)
			p.Nrm = append(p.Nrm, posEnc.SrcVec(v.X(), v.Y(), v.Z()))
		}
	}
	for _, mm := range m.Materials() {
		p.Ranges = append(p.Ranges, SrcRange{N: mm.PrimitiveCount, Mat: projSrcMat(mm.Material, enc, pids)})
	}
	return p
}

func projObsMesh(name string, m modeling.Mesh, enc Enc) ObsMesh {
	p := ObsMesh{Name: name, Idx: projIdx(m), Pos: [][]int{}, Uv: [][]int{}, Nrm: [][]int{}, Ranges: []ObsRange{}}
	if m.HasFloat3Attribute(modeling.PositionAttribute) {
		a := m.Float3Attribute(modeling.PositionAttribute)
		for i := 0; i < a.Len(); i++ {
			v := a.At(i)
			p.Pos = append(p.Pos, posEnc.ObsVec(v.X(), v.Y(), v.Z()))
		}
	}
	if m.HasFloat2Attribute(modeling.TexCoordAttribute) {
		a := m.Float2Attribute(modeling.TexCoordAttribute)
		for i := 0; i < a.Len(); i++ {
			v := a.At(i)
			p.Uv = append(p.Uv, posEnc.ObsVec(v.X(), v.Y()))
		}
	}
	if m.HasFloat3Attribute(modeling.NormalAttribute) {
		a := m.Float3Attribute(modeling.NormalAttribute)
		for i := 0; i < a.Len(); i++ {
			v := a.At(i)
			p.Nrm = append(p.Nrm, posEnc.ObsVec(v.X(), v.Y(), v.Z()))
		}
	}
	for _, mm := range m.Materials() {
		p.Ranges = append(p.Ranges, ObsRange{N: mm.PrimitiveCount, Mat: projObsMat(mm.Material, enc)})
	}
	return p
}
