package mtlfam

import (
	"bytes"
	"fmt"
	"strconv"
)

// layout is what a valid text is free to vary; derived from one integer.
type layout struct {
	eol, sep string
	style    int
}

func newLayout(style int) layout {
	l := layout{eol: "\n", sep: " ", style: style}
	if style%5 == 3 {
		l.eol = "\r\n"
	}
	if style%4 == 2 {
		l.sep = "  "
	} else if style%4 == 3 {
		l.sep = "\t"
	}
	return l
}

func (l layout) lead(i int) string {
	if l.style%6 == 5 && i%2 == 0 {
		return " "
	}
	if l.style%6 == 4 && i%3 == 0 {
		return "\t"
	}
	return ""
}

func (l layout) trail() string {
	if l.style%8 == 6 {
		return " "
	}
	return ""
}

func (l layout) finish(b *bytes.Buffer) []byte {
	if l.style%9 == 8 { // no newline at end of file
		bs := b.Bytes()
		for len(bs) > 0 && (bs[len(bs)-1] == '\n' || bs[len(bs)-1] == '\r') {
			bs = bs[:len(bs)-1]
		}
		return bs
	}
	return b.Bytes()
}

// decimal writes k/q in fixed notation: shortest, or padded with zeros.
func (l layout) decimal(k, q, digits int) string {
	x := float64(k) / float64(q)
	switch l.style % 3 {
	case 1:
		return strconv.FormatFloat(x, 'f', digits, 64)
	case 2:
		return strconv.FormatFloat(x, 'f', digits+2, 64)
	}
	return strconv.FormatFloat(x, 'f', -1, 64)
}

var unknownMtl = []string{"illum 2", "Tf 1 1 1", "Ke 0 0 0", "Tr 0", "sharpness 60", "map_d alpha.png"}

// RenderMtl turns abstract statements (lattice scalars) into MTL text. The
// rendered text is tokenised again by the caller and that is what the
// specification judges, so RenderMtl is not part of the trusted base beyond
// "it produces some text". A "bad" statement carries its literal line in S.
func RenderMtl(stmts []MtlStmt, enc Enc, style int) []byte {
	var b bytes.Buffer
	l := newLayout(style)
	for i, st := range stmts {
		if style%7 == 4 && i%3 == 1 {
			b.WriteString(l.eol)
		}
		if style%7 == 5 && i%4 == 2 {
			b.WriteString("\t" + l.eol) // a line of blanks only
		}
		lead := l.lead(i)
		switch st.T {
		case "x":
			if i%2 == 0 {
				fmt.Fprintf(&b, "%s# comment %d%s", lead, i, l.eol)
			} else {
				b.WriteString(lead + unknownMtl[(i+style)%len(unknownMtl)] + l.eol)
			}
		case "bad":
			b.WriteString(lead + st.S + l.eol)
		case "newmtl", "map_Kd", "map_Ks", "map_Bump", "norm":
			b.WriteString(lead + st.T + l.sep + st.S + l.trail() + l.eol)
		case "Kd", "Ka", "Ks":
			b.WriteString(lead + st.T)
			for _, k := range st.X {
				b.WriteString(l.sep + l.decimal(k, CQ, 4))
			}
			b.WriteString(l.trail() + l.eol)
		case "Ns", "Ni":
			b.WriteString(lead + st.T + l.sep + l.decimal(st.X[0], enc.Q, 10) + l.trail() + l.eol)
		case "d":
			b.WriteString(lead + st.T + l.sep + l.decimal(st.X[0], DQ, 10) + l.trail() + l.eol)
		}
	}
	return l.finish(&b)
}

// RenderObj turns abstract OBJ statements into text (copy of
// harness/objstl/obj_render.go, extended by mtllib).
func RenderObj(stmts []ObjStmt, enc Enc, style int) []byte {
	var b bytes.Buffer
	l := newLayout(style)
	for i, st := range stmts {
		if style%7 == 4 && i%3 == 1 {
			b.WriteString(l.eol)
		}
		lead := l.lead(i)
		if lead == "\t" {
			lead = " "
		}
		switch st.T {
		case "x":
			fmt.Fprintf(&b, "# comment %d%s", i, l.eol)
		case "v", "vt", "vn":
			b.WriteString(lead + st.T)
			for _, k := range st.X {
				b.WriteString(l.sep + l.decimal(k, enc.Q, 10))
			}
			b.WriteString(l.trail() + l.eol)
		case "g", "usemtl":
			b.WriteString(lead + st.T + l.sep + st.S + l.eol)
		case "mtllib":
			b.WriteString(lead + st.T)
			for _, f := range st.L {
				b.WriteString(l.sep + f)
			}
			b.WriteString(l.trail() + l.eol)
		case "f":
			b.WriteString(lead + "f")
			for _, c := range st.C {
				b.WriteString(l.sep + strconv.Itoa(c[0]))
				switch {
				case c[1] != 0 && c[2] != 0:
					b.WriteString("/" + strconv.Itoa(c[1]) + "/" + strconv.Itoa(c[2]))
				case c[1] != 0:
					b.WriteString("/" + strconv.Itoa(c[1]))
				case c[2] != 0:
					b.WriteString("//" + strconv.Itoa(c[2]))
				}
			}
			b.WriteString(l.eol)
		}
	}
	return l.finish(&b)
}
