// Package mtlfam is the harness of the extra-coverage family X03: OBJ
// material libraries (formats/obj mat_reader.go, writer.go WriteMaterial*)
// and the file-system entry points obj.Save / SaveAll / Load (fs.go).
//
// It executes real polyform code on cases, reads the produced bytes with its
// OWN tokenisers (written from the format descriptions; the OBJ one is a copy
// of harness/objstl/obj_tok.go extended by mtllib) and logs integer / string
// projections as ndjson. It contains no property logic: specs/TraceMtl.tla
// judges.
package mtlfam

import (
	"fmt"
	"math"
	"time"
)

// Enc says how a real number becomes an integer in a trace (same scheme as
// harness/objstl/num.go).
//
//	"lat": value * Q for values on the 1/Q lattice; anything else is logged
//	       as OffLattice, which no source value ever has.
//	"f32": the IEEE-754 float32 bit pattern reinterpreted as int32.
//
// A SOURCE value is logged as the pair of its two float32 neighbours, so
// "float32 precision" is a membership test in the specification.
type Enc struct {
	Mode string
	Q    int
}

const OffLattice = 1 << 30

// CQ: colour statement scalars are logged in units of 1/CQ; DQ: dissolve and
// transparency are logged in units of 1/DQ (MtlFormat.tla).
const (
	CQ = 10000
	DQ = 1024
)

func f32bits(f float32) int { return int(int32(math.Float32bits(f))) }

func lattice(x float64, q int) int {
	if math.IsNaN(x) || math.IsInf(x, 0) || math.Abs(x) > 1e5 {
		return OffLattice
	}
	s := x * float64(q)
	r := math.Round(s)
	if s != r {
		return OffLattice
	}
	return int(r)
}

func (e Enc) Obs(x float64) int {
	if e.Mode == "f32" {
		return f32bits(float32(x))
	}
	return lattice(x, e.Q)
}

func (e Enc) Src(x float64) []int {
	if e.Mode == "f32" {
		f := float32(x)
		switch {
		case float64(f) == x || math.IsNaN(x):
			return []int{f32bits(f), f32bits(f)}
		case float64(f) < x:
			return []int{f32bits(f), f32bits(math.Nextafter32(f, float32(math.Inf(1))))}
		default:
			return []int{f32bits(math.Nextafter32(f, float32(math.Inf(-1)))), f32bits(f)}
		}
	}
	v := e.Obs(x)
	return []int{v, v}
}

func (e Enc) Val(k int) float64 { return float64(k) / float64(e.Q) }

func (e Enc) ObsVec(xs ...float64) []int {
	out := make([]int, len(xs))
	for i, x := range xs {
		out[i] = e.Obs(x)
	}
	return out
}

func (e Enc) SrcVec(xs ...float64) [][]int {
	out := make([][]int, len(xs))
	for i, x := range xs {
		out[i] = e.Src(x)
	}
	return out
}

// guard runs f (a call into the code under test) and turns an error, a panic
// or a hang into an observation: "", "ERROR", "PANIC", "TIMEOUT". detail is for
// humans only.
func guard(f func() error) (msg string, detail string) {
	type res struct{ msg, detail string }
	ch := make(chan res, 1)
	go func() {
		defer func() {
			if r := recover(); r != nil {
				ch <- res{"PANIC", fmt.Sprint(r)}
			}
		}()
		if err := f(); err != nil {
			ch <- res{"ERROR", err.Error()}
			return
		}
		ch <- res{"", ""}
	}()
	select {
	case r := <-ch:
		return r.msg, r.detail
	case <-time.After(20 * time.Second):
		return "TIMEOUT", ""
	}
}

func codes(s string) []int {
	out := []int{}
	for _, r := range s {
		out = append(out, int(r))
	}
	return out
}
