package mtlfam

import (
	"bufio"
	"encoding/json"
	"fmt"
	"image/color"
	"math"
	"math/rand"
	"os"

	"github.com/EliCDavis/polyform/modeling"
)

// randomReal draws finite non-negative float64 values of several kinds.
func randomReal(r *rand.Rand, scale float64) float64 {
	switch r.Intn(5) {
	case 0:
		return float64(r.Intn(int(scale) + 1))
	case 1:
		return float64(float32(r.Float64() * scale))
	case 2:
		return r.Float64() * scale
	case 3:
		return r.Float64() * math.Pow(10, float64(r.Intn(12)-8))
	}
	return math.Round(r.Float64()*scale*1000) / 1000
}

func randomColour(r *rand.Rand) color.Color {
	switch r.Intn(8) {
	case 0:
		return nil
	case 1:
		return color.RGBA64{uint16(r.Intn(65536)), uint16(r.Intn(65536)), uint16(r.Intn(65536)), 65535}
	case 2:
		return color.Gray{Y: uint8(r.Intn(256))}
	case 3:
		return color.NRGBA{uint8(r.Intn(256)), uint8(r.Intn(256)), uint8(r.Intn(256)), 255}
	case 4:
		return color.Gray16{Y: uint16(r.Intn(65536))}
	case 5:
		ends := []uint8{0, 255, 1, 254, 127, 128}
		return color.RGBA{ends[r.Intn(6)], ends[r.Intn(6)], ends[r.Intn(6)], 255}
	}
	return color.RGBA{uint8(r.Intn(256)), uint8(r.Intn(256)), uint8(r.Intn(256)), 255}
}

func randomPath(r *rand.Rand) *string {
	if r.Intn(3) == 0 {
		return nil
	}
	dirs := []string{"", "tex/", "../maps/", "my textures/", "C:/art/"}
	files := []string{"wood.png", "wood grain.jpg", "n_01.tga", "a.b.c.png", "UPPER.PNG"}
	s := dirs[r.Intn(len(dirs))] + files[r.Intn(len(files))]
	return &s
}

// buildSeeded: mesh lists at sizes TLC does not enumerate, materials with
// arbitrary finite scalars and 16-bit colours. Material names are distinct as
// tokens (the name clashes are the business of the enumerated cases).
func buildSeeded(s Seeded) []namedMesh {
	r := rand.New(rand.NewSource(s.Seed))
	nmat := 1 + r.Intn(8)
	stems := []string{"steel", "Red Paint", "glass", "wood_01", "Material.001", "skin", "a b c", "leaf"}
	pool := make([]*modeling.Material, nmat)
	for i := range pool {
		pool[i] = &modeling.Material{
			Name:               fmt.Sprintf("%s%d", stems[r.Intn(len(stems))], i),
			DiffuseColor:       randomColour(r),
			AmbientColor:       randomColour(r),
			SpecularColor:      randomColour(r),
			SpecularHighlight:  randomReal(r, 1000),
			OpticalDensity:     randomReal(r, 10),
			Transparency:       float64(r.Intn(DQ+1)) / DQ,
			ColorTextureURI:    randomPath(r),
			SpecularTextureURI: randomPath(r),
			NormalTextureURI:   randomPath(r),
		}
	}
	meshNames := []string{"body", "left wheel", "roof", "Mesh.001", "x1", "door"}
	out := []namedMesh{}
	for mi := 0; mi < s.NMesh; mi++ {
		nr := r.Intn(s.MaxRanges + 1)
		if mi == 0 && nr == 0 {
			nr = 1
		}
		mm := []modeling.MeshMaterial{}
		nt := 0
		for k := 0; k < nr; k++ {
			n := 1 + r.Intn(3)
			var p *modeling.Material
			if r.Intn(6) > 0 {
				p = pool[r.Intn(nmat)]
			}
			mm = append(mm, modeling.MeshMaterial{PrimitiveCount: n, Material: p})
			nt += n
		}
		if nt == 0 {
			nt = 1 + r.Intn(3)
		}
		m := geometry(mi, nt, posEnc)
		if len(mm) > 0 {
			m = m.SetMaterials(mm)
		}
		name := fmt.Sprintf("%s %d", meshNames[r.Intn(len(meshNames))], mi)
		if s.NMesh == 1 && s.Seed%2 == 0 {
			name = ""
		}
		out = append(out, namedMesh{Name: name, Mesh: m})
	}
	return out
}

var seededPaths = []PathSpec{
	{Rel: "model.obj"},
	{Rel: "export/run 7/scene.obj"},
	{Rel: "deep/er/and/deeper/m.obj"},
	{Rel: "scene.final.obj"},
	{Rel: "noext"},
	{Rel: "rel/dir/model.obj", Cwd: true},
	{Rel: "model.obj", Cwd: true},
	{Rel: "there/already/model.obj", Pre: []string{"there/already"}},
	{Rel: "half/there/model.obj", Pre: []string{"half"}},
	{Rel: "./dot/model.obj", Cwd: true},
}

// randomMtl: a long valid library on the lattices: blocks with a random
// subset of the parameters in random order, unknown statements in between.
func randomMtl(r *rand.Rand, maxBlocks int) []MtlStmt {
	out := []MtlStmt{}
	if r.Intn(2) == 0 {
		out = append(out, mstmt("x"))
	}
	nb := 1 + r.Intn(maxBlocks)
	for b := 0; b < nb; b++ {
		st := mstmt("newmtl")
		st.S = fmt.Sprintf("%s_%d", []string{"m", "Mat.0", "red", "DefaultDiffuse", "x-y"}[r.Intn(5)], b)
		st.Nm = codes(st.S)
		out = append(out, st)
		keys := []string{"Kd", "Ka", "Ks", "Ns", "Ni", "d", "map_Kd", "map_Ks", "map_Bump", "norm", "x", "x"}
		r.Shuffle(len(keys), func(i, j int) { keys[i], keys[j] = keys[j], keys[i] })
		normPath := ""
		for _, k := range keys[:r.Intn(len(keys)+1)] {
			st := mstmt(k)
			switch k {
			case "Kd", "Ka", "Ks":
				n := 3
				if r.Intn(6) == 0 {
					n = 1
				}
				for i := 0; i < n; i++ {
					v := r.Intn(CQ + 1)
					switch r.Intn(10) {
					case 0:
						v = 0
					case 1:
						v = CQ
					case 2:
						v = CQ + 1 + r.Intn(CQ)
					case 3:
						v = -r.Intn(CQ)
					case 4:
						v = (r.Intn(256)*CQ + 127) / 255 // near an 8-bit level
					}
					st.X = append(st.X, v)
				}
			case "Ns":
				v := r.Intn(1024 * 1000)
				st.X = []int{v, v}
			case "Ni":
				v := 1 + r.Intn(1024*10)
				st.X = []int{v, v}
			case "d":
				v := r.Intn(DQ + 1)
				st.X = []int{v, v}
			case "map_Kd", "map_Ks":
				st.S = *orDefault(randomPath(r))
			case "map_Bump", "norm":
				if normPath == "" {
					normPath = *orDefault(randomPath(r))
				}
				st.S = normPath
			}
			out = append(out, st)
		}
	}
	return out
}

func orDefault(p *string) *string {
	if p == nil {
		s := "default.png"
		return &s
	}
	return p
}

// GenRandom writes seeded cases: nmw "mw" and nsv "sv" cases (float32
// fidelity, many ranges) and nmr "mr" cases (long valid libraries).
func GenRandom(out string, seed int64, nmw, nsv, nmr, maxMeshes, maxRanges, maxBlocks int) error {
	f, err := os.Create(out)
	if err != nil {
		return err
	}
	defer f.Close()
	w := bufio.NewWriter(f)
	defer w.Flush()
	encj := json.NewEncoder(w)
	encj.SetEscapeHTML(false)
	r := rand.New(rand.NewSource(seed*7919 + 17))
	for i := 0; i < nmw+nsv; i++ {
		c := caseWithPath{Case: Case{K: "mw", Tag: "seeded", Enc: "f32", Q: 1,
			Seeded: &Seeded{Seed: seed*1000003 + int64(i), NMesh: 1 + r.Intn(maxMeshes), MaxRanges: 1 + r.Intn(maxRanges)}}}
		c.Path.Pre = []string{}
		if i >= nmw {
			c.K = "sv"
			c.Path = seededPaths[r.Intn(len(seededPaths))]
			if c.Path.Pre == nil {
				c.Path.Pre = []string{}
			}
		}
		if err := encj.Encode(c); err != nil {
			return err
		}
	}
	for i := 0; i < nmr; i++ {
		c := caseWithPath{Case: Case{K: "mr", Tag: "seeded", Enc: "lat", Q: 1024, Gen: randomMtl(r, maxBlocks), Style: r.Intn(100000)}}
		c.Path.Pre = []string{}
		if err := encj.Encode(c); err != nil {
			return err
		}
	}
	return nil
}
